"""FTPFS tied *exactly* to its transcription FsModel.Ftp over the modelled server FsModel.FtpServer.

Thorough tier only (the loopback server is ~100x slower than the in-memory backends); the theorems of
FsProofs/FtpRefines.lean are built and audited in every tier.  Used by C01 the way `_osexact` is used for
OSFS (`run_ftp_exact` runs all of it):

* `judge_ftp_exact(rep, steps, drv)` — every step that ran on `ftp` / `ftp-nomlsd` (the steps `_ftp.run_ref_level`
  produced, plus `directed_steps()` below) is re-executed by the compiled model from the identical pre-state
  (`ftp.step mlsd|list <year>`: FTPFS-as-coded as a program over the commands of `FtpServer.exec` with pyftpdlib's
  profile) and compared on the exact outcome (error CLASS, value; listings sorted) and the exact resulting
  tree (up to entry order).  A disagreement is a broken correspondence (`found_input=False`): the Ref-level judge
  has seen the same step.
* `check_server_model(rep, drv)` — the server model against the REAL pyftpdlib server, the way `_osexact.
  check_posix_model` compares the POSIX model with the kernel: a directed corpus of raw commands sent with
  `ftplib` (every command of `FtpServer.Cmd` x paths {"",a,b,a/a,a/b,b/a,a/a/a} x every tree with <= 3 nodes x both
  variants): same reply code, same payload (listings through the library's own parsers on both sides: name, type,
  file size; RETR bytes; FEAT features), same resulting directory on disk.
* `directed_steps()` — one step per branch the generators reach rarely (incl. the witnesses of the regression theorem
  `ftp_mlst_linebreak_repaired`: names with FF / LS, repaired in /repo 79535c4 — judged like any other step);
  `limit_steps()` — the witnesses of the `…_counterexample` theorems (protocol and format limits).
* `replay(rep, case)` — for the replay files written here (`*/ftp-exact/*`, `ftpserver/*`).
"""
from __future__ import annotations

import ftplib
import io
import os
import time

import vlib
import fsharness as H
from vlib import hx

FTP_KINDS = tuple(H.FTP_KINDS)
VARIANT = {"ftp": "mlsd", "ftp-nomlsd": "list"}
MODEL_NAME = ("FsModel.Ftp (transcription of fs/ftpfs.py + inherited fs/base.py defaults, as programs over the commands of "
              "FsModel.FtpServer with pyftpdlib's profile)")

def year():
    return time.gmtime().tm_year


def model_cmd(kind):
    return "ftp.step %s %d" % (VARIANT[kind], year())


# ----------------------------------------------------------------------------- Ftp.step vs FTPFS


def judge_ftp_exact(rep, steps, drv, prop=None):
    prop = prop or rep.prop_id
    fsteps = [s for s in steps if s.kind in FTP_KINDS]
    n_bad = 0
    for kind in FTP_KINDS:
        part = [s for s in fsteps if s.kind == kind]
        if not part:
            continue
        reqs = [H.op_request(s.op, False, H.enc_tree(s.pre), model_cmd(kind)) for s in part]
        lines = drv.batch(reqs)
        for s, line in zip(part, lines):
            (mout, mtree, mclosed, adm, wf) = H.parse_reply(line, True)
            tr = line.split(" | trace=")[-1] if " | trace=" in line else ""
            rep.count("ftp-exact")
            rep.count("ftp-exact/%s:%s" % (s.op[0], mout[0] if mout[0] == "ok" else mout[1]))
            rep.evaluations += 1
            if mout == ("err", "OperationFailed"):
                rep.count("ftp-exact/loose")
                continue  # loose: the bulk operation fails mid-way, partial state not modelled
            impl = (s.impl[0], H.canon_val(s.impl[1]))
            why = None
            if impl != tuple(mout):
                why = "outcome: %s %s, transcription %s" % (s.kind, impl, mout)
            elif s.post is None:
                why = "tree: %s state cannot be snapshotted after the call" % s.kind
            elif H.canon_tree(s.post) != H.canon_tree(H.dec_tree(mtree)):
                why = "tree: %s %r, transcription %r" % (s.kind, [e[:2] for e in H.canon_tree(s.post)][:10],
                                                         [e[:2] for e in H.canon_tree(H.dec_tree(mtree))][:10])
            if why:
                n_bad += 1
                rep.disagreements_checked += 1
                rep.violation(dict(H.step_case(s, model=[list(mout), mtree]), trace=tr),
                              "correspondence %s vs %s.%s%r from tree %r broke — %s (model trace: %s); the Ref-level judge decides "
                              "whether the backend still satisfies the property on this input"
                              % (MODEL_NAME, s.kind, s.op[0], s.op[1:], [e[:2] for e in s.pre][:10], why, tr[:300]),
                              found_input=False, signature="%s/ftp-exact/%s" % (prop, s.op[0]))
    rep.extra["ftp_exact_steps"] = rep.extra.get("ftp_exact_steps", 0) + len(fsteps)
    return n_bad


# ----------------------------------------------------------------------------- directed steps

DIRECTED = [
    # (tree, op) — branches of FsModel.Ftp the generators reach rarely
    ([("D", "d")], ("listdir", "d")),                                   # MLSD without lines -> falls through to LIST
    ([("D", "d"), ("D", "d/e")], ("isempty", "d/e")),
    ([("D", "d"), ("D", "d/e"), ("F", "d/e/f", b"1")], ("getinfo", "d/e/f")),   # LIST variant: getinfo climbs two levels
    ([("D", "d"), ("F", "d/e", b"1")], ("getinfo", "d/e/e")),           # ... and meets a file on the way (2b51e48)
    ([("D", "d"), ("F", "d/e", b"1")], ("listdir", "d/e/e")),
    ([("F", "f", b"x")], ("listdir", "f")),                             # MLSD 501 -> getinfo -> DirectoryExpected
    ([], ("listdir", "nope")),
    ([("F", "f", b"x")], ("makedir", "f", True)),                       # 3151b88
    ([("F", "f", b"x")], ("makedir", "f/g", True)),
    ([("D", "d")], ("makedir", "d", True)),
    ([("D", "d")], ("makedir", "d", False)),
    ([], ("makedir", "", True)),
    ([], ("makedir", "", False)),
    ([("D", "d")], ("makedirs", "d/e/f", False)),
    ([("F", "f", b"x")], ("makedirs", "f/g", True)),
    ([("D", "d")], ("openbin", "d", "x")),
    ([("F", "f", b"old")], ("openbin", "f", "x")),
    ([("F", "f", b"old")], ("openbin", "f", "r+")),
    ([], ("openbin", "", "w")),
    ([], ("openbin", "a/b", "w")),
    ([("F", "f", b"x")], ("openbin", "f/g", "a")),
    ([("D", "d")], ("writebytes", "d", b"x")),                          # 550 + isdir -> FileExpected
    ([], ("writebytes", "", b"x")),
    ([], ("writebytes", "a/b", b"x")),
    ([("F", "f", b"x")], ("writebytes", "f/g", b"x")),
    ([("D", "d")], ("readbytes", "d")),
    ([], ("readbytes", "")),
    ([("F", "f", b"0123")], ("appendbytes", "f", b"")),
    ([], ("appendbytes", "g", b"45")),
    ([("D", "d")], ("appendbytes", "d", b"45")),
    ([("D", "d")], ("create", "d", True)),                              # eb5521d
    ([("D", "d")], ("create", "d", False)),
    ([("F", "f", b"x")], ("create", "f", True)),
    ([], ("create", "a/b", True)),
    ([("D", "d")], ("touch", "d")),
    ([("D", "d")], ("settimes", "d")),                                  # MFMT refuses a directory; it exists
    ([], ("settimes", "nope")),                                         # aa89bf1
    ([], ("settimes", "")),
    ([], ("remove", "")),
    ([("D", "d")], ("remove", "d")),
    ([("F", "f", b"x")], ("remove", "f/g")),
    ([], ("removedir", "")),
    ([("F", "f", b"x")], ("removedir", "f")),
    ([("F", "f", b"x")], ("removedir", "f/g")),
    ([("D", "d"), ("F", "d/f", b"1")], ("removedir", "d")),
    ([("D", "d"), ("D", "d/e"), ("F", "d/e/f", b"1"), ("F", "d/g", b"2")], ("removetree", "d")),
    ([("D", "d"), ("D", "d/e"), ("F", "d/e/f", b"1"), ("F", "g", b"2")], ("removetree", "")),
    ([("F", "f", b"x")], ("removetree", "f")),
    ([], ("removetree", "nope")),
    ([("F", "f", b"x")], ("removetree", "..")),
    ([("F", "f", b"x"), ("D", "d")], ("removetree", "x\0/..")),          # 433aea4: validated before it is normalised
    ([("F", "f", b"x")], ("removetree", "\0/../..")),                    # … and NUL named before the climbing
    ([("F", "f", b"x")], ("copy", "f", "f", True)),
    ([("F", "f", b"x")], ("copy", "f", "", True)),
    ([("F", "f", b"x"), ("D", "d")], ("copy", "f", "d", True)),
    ([("F", "f", b"x"), ("F", "g", b"y")], ("copy", "f", "g", False)),
    ([("F", "f", b"x"), ("F", "g", b"y")], ("copy", "f", "g", True)),
    ([("F", "f", b"x")], ("copy", "nope", "f", False)),
    ([("F", "f", b"x")], ("move", "f", "f", True)),
    ([("F", "f", b"x")], ("move", "f", "f", False)),
    ([("F", "f", b"x"), ("D", "d")], ("move", "f", "d", True)),
    ([("F", "f", b"x"), ("D", "d")], ("move", "f", "d/f", False)),
    ([("F", "f", b"x"), ("F", "g", b"y")], ("move", "f", "g/h", True)),
    ([("F", "f", b"x")], ("move", "nope", "f", False)),
    ([("D", "d"), ("F", "d/f", b"1")], ("movedir", "d", "e", True)),
    ([("D", "d"), ("F", "d/f", b"1")], ("movedir", "d", "e", False)),
    ([("D", "d"), ("F", "d/f", b"1"), ("D", "e"), ("F", "e/f", b"2")], ("movedir", "d", "e", False)),
    ([("D", "d"), ("F", "d/f", b"1"), ("F", "e", b"2")], ("movedir", "d", "e", True)),
    ([("D", "d"), ("F", "d/f", b"1")], ("movedir", "d", "d/x", True)),
    ([("D", "d"), ("F", "d/f", b"1")], ("copydir", "d", "e/e2", True)),
    ([("D", "d"), ("F", "d/f", b"1")], ("copydir", "d", "e", False)),
    ([("D", "d"), ("F", "d/f", b"1"), ("D", "e")], ("copydir", "d", "e", False)),
    ([("D", "k l"), ("F", "k l/g*", b"1")], ("getinfo", "k l/g*")),
    ([("D", "k l"), ("F", "k l/g*", b"1")], ("listdir", "k l")),
    ([("F", "x;y", b"1")], ("getinfo", "x;y")),                         # ec30a14
    ([("F", "k=v", b"12")], ("getsize", "k=v")),
    ([("F", "ü", b"12")], ("getinfo", "ü")),
    # 79535c4 (was the open finding ftpfs-mlst-reply-splitlines): names with characters str.splitlines() breaks at
    ([("D", "a\x0cb")], ("isdir", "a\x0cb")),
    ([("D", "a\x0cb")], ("getinfo", "a\x0cb")),
    ([("F", "a\u2028b", b"123")], ("getsize", "a\u2028b")),
    ([("D", "a\x85b"), ("F", "a\x85b/c\x1cd", b"1")], ("listdir", "a\x85b")),
    ([("D", "a\x0bb")], ("makedir", "a\x0bb/c\x1dd", False)),
]

# witnesses of the `…_counterexample` theorems of FsProofs/FtpRefines.lean, run on the real code: (kinds, tree, op)
LIMIT_CASES = [
    # format limit (C20): a LIST line cannot tell a leading blank of a name from the column separator
    (("ftp-nomlsd",), [("F", " f", b"1")], ("exists", " f")),
    (("ftp-nomlsd",), [], ("makedir", " d", False)),
    # protocol limit: CR / LF cannot travel in a command line; FTPFS declares them invalid (79da638), the reference does not
    (FTP_KINDS, [], ("exists", "a\rb")),
    (FTP_KINDS, [], ("makedir", "a\nb", False)),
]


def _one_step(kind, tree, op, hid):
    from props import _ftp as F

    return F.one_step(kind, tree, op, hid)


def directed_steps(kinds=FTP_KINDS, hid0=6 * 10 ** 6):
    steps, hid = [], hid0
    for kind in kinds:
        for tree, op in DIRECTED:
            steps.append(_one_step(kind, tree, op, hid))
            hid += 1
    return steps


def _one_step_disk(kind, tree, op, hid):
    """like `_ftp.one_step`, but pre- and post-state are read through the OS (the FTPFS-side snapshot is exactly
    what goes wrong for the names of the limit cases)"""
    from props import _ftp as F

    b = F.build_state(kind, tree)
    try:
        pre = H.ftp_os_snapshot(b)
        impl = H.apply_op(b.fs, op, keep_order=True)
        post = H.ftp_os_snapshot(b)
        return F.FtpStep(kind, pre, op, impl, post, hid, 0, disk=post)
    finally:
        b.close()


def limit_steps(hid0=7 * 10 ** 6):
    steps, hid = [], hid0
    for kinds, tree, op in LIMIT_CASES:
        for kind in kinds:
            steps.append(_one_step_disk(kind, tree, op, hid))
            hid += 1
    return steps


# ----------------------------------------------------------------------------- FtpServer.exec vs pyftpdlib

SERVER_PATHS = ["", "a", "b", "a/a", "a/b", "b/a", "a/a/a"]
# (command, REST offset, data)
SERVER_CMDS = [("MLST", 0, b""), ("MLSD", 0, b""), ("LIST", 0, b""), ("RETR", 0, b""), ("RETR", 1, b""), ("RETR", 5, b""),
               ("STOR", 0, b"XY"), ("STOR", 0, b""), ("STOR", 1, b"XY"), ("STOR", 7, b"Z"), ("APPE", 0, b"+Q"),
               ("MKD", 0, b""), ("RMD", 0, b""), ("DELE", 0, b""), ("MFMT", 0, b"")]


def _wire(p):
    return "/" + p


def _clear(root):
    import shutil

    for name in os.listdir(root):
        p = os.path.join(root, name)
        if os.path.isdir(p) and not os.path.islink(p):
            shutil.rmtree(p, ignore_errors=True)
        else:
            os.unlink(p)


def _materialise(root, snap):
    for e in snap:
        p = os.path.join(root, *e[1].split("/"))
        if e[0] == "D":
            os.makedirs(p, exist_ok=True)
        else:
            os.makedirs(os.path.dirname(p), exist_ok=True)
            with open(p, "wb") as fh:
                fh.write(e[2])


def _code(e):
    return str(e)[:3]


def _mlsx_entries(lines):
    from fs.ftpfs import FTPFS

    out = []
    for raw in FTPFS._parse_mlsx(lines):
        b, d = raw["basic"], raw["details"]
        out.append((b["name"], bool(b["is_dir"]), None if b["is_dir"] else d["size"]))
    return sorted(out)


def _list_entries(lines):
    from fs import _ftp_parse

    out = []
    for raw in _ftp_parse.parse(lines):
        b, d = raw["basic"], raw["details"]
        out.append((b["name"], bool(b["is_dir"]), None if b["is_dir"] else d["size"]))
    return sorted(out)


def _real(ftp, cmd, path, rest, data):
    """one raw command on the real server -> (code, payload)"""
    w = _wire(path)
    try:
        if cmd == "FEAT":
            from fs.ftpfs import FTPFS

            f = FTPFS._parse_features(ftp.sendcmd("FEAT"))
            return "211", ("MLST" in f, "MFMT" in f)
        if cmd == "MLST":
            resp = ftp.sendcmd("MLST " + w)
            return resp[:3], _mlsx_entries(resp.split("\n")[1:-1])
        if cmd in ("MLSD", "LIST"):
            lines = []
            ftp.retrlines(cmd + " " + w, lines.append)
            return "226", (_mlsx_entries(lines) if cmd == "MLSD" else _list_entries(lines))
        if cmd == "RETR":
            buf = io.BytesIO()
            ftp.voidcmd("TYPE I")
            ftp.retrbinary("RETR " + w, buf.write, rest=rest or None)
            return "226", buf.getvalue()
        if cmd in ("STOR", "APPE"):
            ftp.voidcmd("TYPE I")
            ftp.storbinary(cmd + " " + w, io.BytesIO(data), rest=rest or None)
            return "226", None
        if cmd == "MFMT":
            return ftp.sendcmd("MFMT 20010203040506 " + w)[:3], None
        return ftp.sendcmd(cmd + " " + w)[:3], None
    except (ftplib.error_perm, ftplib.error_temp) as e:
        return _code(e), None


def _model(line, cmd):
    """reply of `ftp.cmd` -> (code, payload, tree)"""
    head, mtree = [x.strip() for x in line.split(" | ")]
    code, payload = head.split(" ", 1)
    code = code[:3]
    val = None
    if payload.startswith("T"):
        text = vlib.unhx(payload[1:])
        if cmd == "FEAT":
            from fs.ftpfs import FTPFS

            f = FTPFS._parse_features(text)
            val = ("MLST" in f, "MFMT" in f)
        elif cmd == "MLST":
            val = _mlsx_entries(text.split("\n")[1:-1])
    elif payload.startswith("L"):
        lines = vlib.unhxlist(payload)
        val = _mlsx_entries(lines) if cmd == "MLSD" else _list_entries(lines)
    elif payload.startswith("B"):
        val = vlib.unhxb(payload[1:])
    return code, val, mtree


def check_server_model(rep, drv, trees=None, kinds=FTP_KINDS, cmds=None, paths=None):
    """the directed raw-command corpus on the real pyftpdlib server and on FtpServer.exec"""
    import ftpserver
    from props import _stateful as S

    trees = trees if trees is not None else S.small_trees()
    cmds = cmds if cmds is not None else SERVER_CMDS
    paths = paths if paths is not None else SERVER_PATHS
    bad = 0
    n = 0
    t0 = time.time()
    for kind in kinds:
        root = H._tmpdir()
        runs, reqs = [], []
        box = {"srv": None, "ftp": None}

        def connect(fresh_server=False):
            """(re)connect the raw client; connection trouble is infrastructure and is retried on a fresh
            connection, then on a fresh server, before it becomes vlib.Infra"""
            if box["ftp"] is not None:
                try:
                    box["ftp"].close()
                except Exception:  # noqa
                    pass
            if box["srv"] is None or fresh_server:
                if box["srv"] is not None:
                    box["srv"].stop()
                box["srv"] = ftpserver.FtpServer(root, mlsd=(kind == "ftp")).start()
            srv = box["srv"]
            ftp = ftplib.FTP()
            try:
                ftp.connect(srv.host, srv.port, 8)
                ftp.login(srv.user, srv.passwd)
                ftp.encoding = "utf-8"
            except Exception as e:  # noqa
                raise vlib.Infra("cannot connect to the loopback FTP server for the command corpus: %r" % (e,))
            box["ftp"] = ftp

        def real(t, c, p, rest, data):
            last = None
            for attempt in range(3):
                _clear(root)
                _materialise(root, t)
                try:
                    return _real(box["ftp"], c, p, rest, data)
                except (OSError, EOFError, ftplib.Error) as e:
                    last = e
                    rep.count("ftpserver/connection-trouble-retried")
                    connect(fresh_server=attempt >= 1)
            raise vlib.Infra("loopback FTP server: raw command %s %r failed outside the protocol three times: %r" % (c, p, last))

        try:
            connect()
            got = real([], "FEAT", "", 0, b"")
            runs.append(([], "FEAT", "", 0, b"", got, []))
            reqs.append("ftp.cmd %s %d %s FEAT %s" % (VARIANT[kind], year(), H.enc_tree([]), hx("")))
            for t in trees:
                tenc = H.enc_tree(t)
                for (c, rest, data) in cmds:
                    for p in paths:
                        got = real(t, c, p, rest, data)
                        post = ftpserver.os_snapshot(root)
                        runs.append((t, c, p, rest, data, got, post))
                        reqs.append("ftp.cmd %s %d %s %s %s %d %s" % (VARIANT[kind], year(), tenc, c, hx(p), rest, hx(data)))
            try:
                box["ftp"].quit()
            except Exception:  # noqa
                pass
        finally:
            if box["srv"] is not None:
                box["srv"].stop()
            H.rm_rf(root)
        for (t, c, p, rest, data, got, post), line in zip(runs, drv.batch(reqs)):
            n += 1
            rep.evaluations += 1
            rep.count("ftpserver/%s/%s:%s" % (kind, c, got[0]))
            rep.nontrivial("ftpserver", kind, c, p, rest, H.enc_tree(t))
            mcode, mval, mtree = _model(line, c)
            why = None
            if mcode != got[0]:
                why = "reply code: server %s, model %s" % (got[0], mcode)
            elif got[1] is not None and mval != got[1]:
                why = "payload: server %r, model %r" % (got[1], mval)
            elif H.canon_tree(post) != H.canon_tree(H.dec_tree(mtree)):
                why = "directory after the command: server %r, model %r" % ([e[:2] for e in post][:8], [e[:2] for e in H.dec_tree(mtree)][:8])
            if why:
                bad += 1
                rep.disagreements_checked += 1
                rep.violation({"backend": kind, "tree": [list(e[:2]) for e in t], "cmd": c, "path": p, "rest": rest,
                               "data": data.decode("latin-1"), "server": [got[0], repr(got[1])], "model": line},
                              "correspondence FsModel.FtpServer vs the pyftpdlib server (%s) broke: %s%s %r on tree %r — %s"
                              % (kind, ("REST %d + " % rest) if rest else "", c, _wire(p), [e[:2] for e in t], why),
                              found_input=False, signature="ftpserver/%s" % c)
    rep.extra["ftp_server_model_commands_checked"] = n
    rep.extra["ftp_server_model_seconds"] = round(time.time() - t0, 1)
    return bad


# ----------------------------------------------------------------------------- limits and the open finding, on the real code


def check_limit_cases(rep, drv, ref_judge):
    """the witnesses of the `_counterexample` theorems: the real FTPFS must do what the MODEL says (exact); where that
    differs from the reference it is the stated protocol / format limit (counted), nothing else: a limit case that
    AGREES with the reference is counted too, any other kind of step goes through the property's own judge"""
    steps = limit_steps()
    judge_ftp_exact(rep, steps, drv)
    for s, m in zip(steps, H.model_replies(drv, steps)):
        (mout, mtree, mclosed, adm, wf) = m
        differs = (s.impl[0], H.canon_val(s.impl[1]) if s.impl[0] == "ok" else None) != (mout[0], mout[1] if mout[0] == "ok" else None) \
            or s.post is None or H.canon_tree(s.post) != H.canon_tree(H.dec_tree(mtree))
        crlf = any(isinstance(x, str) and ("\r" in x or "\n" in x) for x in s.op[1:])
        blank = s.kind == "ftp-nomlsd" and any(isinstance(x, str) and any(c != c.lstrip() for c in x.split("/")) for x in s.op[1:])
        if not differs:
            rep.count("ftp-limit/agrees-with-reference")
        elif crlf:
            rep.count("ftp-limit/crlf-in-path")
        elif blank:
            rep.count("ftp-limit/list-leading-blank-ambiguous")
        else:
            ref_judge(rep, s, m)
    return len(steps)


def run_ftp_exact(rep, fsteps, drv, ref_judge):
    """everything this module checks, as called from c01.py (thorough tier)"""
    extra = directed_steps()
    for s, m in zip(extra, H.model_replies(drv, extra)):
        ref_judge(rep, s, m)
    judge_ftp_exact(rep, list(fsteps) + extra, drv)
    check_limit_cases(rep, drv, ref_judge)
    check_server_model(rep, drv)
    rep.assumptions = list(rep.assumptions) + [
        "FTP server model (FsModel/FtpServer.lean): the commands fs/ftpfs.py sends, over the POSIX model, with reply codes and "
        "listing text as pyftpdlib 1.5.10 produces them (LIST columns separated by single blanks, fixed time stamps); "
        "validated against the running pyftpdlib server in the thorough tier; ftplib is the transport (lines / control "
        "replies as it delivers them)",
    ]
    return extra


# ----------------------------------------------------------------------------- replay


def is_mine(case):
    sig = case.get("signature") or ""
    return "/ftp-exact/" in sig or sig.startswith("ftpserver/")


def replay(rep, case):
    sig = case.get("signature") or ""
    drv = vlib.Driver()
    c = case["case"]
    try:
        if sig.startswith("ftpserver/"):
            from props import _stateful as S

            trees = [t for t in S.small_trees() if [list(x[:2]) for x in t] == [list(x) for x in c["tree"]]]
            check_server_model(rep, drv, trees=trees or None, kinds=(c["backend"],),
                               cmds=[(c["cmd"], c["rest"], c["data"].encode("latin-1"))], paths=[c["path"]])
        else:
            kind, pre, op = H.case_to_step(c)
            op = H.fix_op_bytes(op)
            s = _one_step(kind, pre, op, 0)
            judge_ftp_exact(rep, [s], drv)
            print("impl:", s.impl[:2])
    finally:
        H.cleanup_scratch()
    rep.flush_deferred()
    return 1 if rep.violations else 0
