"""C06 — failures are fs.errors exceptions for a real cause and change nothing.

Theorems: lean/FsProofs/C06.lean (every error Ref.step returns is in Ref.adm; a failed
step leaves the state unchanged; adm classes hold only under their documented condition);
lean/FsProofs/OsRefines.lean (errno_table_truthful: OSFS's errno -> fs.errors translation, through
the table generated from fs/error_tools.py, only reports classes in adm).
Correspondence/oracle: every failing call of failure-heavy histories on every backend must
raise a class from fs.errors (or the documented ValueError/TypeError) that Ref.adm accepts for
the pre-state, render with str()/repr(), and leave the tree unchanged.
"""
from __future__ import annotations

import inspect

import vlib
import fsharness as H
from props import _stateful as S
from props import _osexact as X
from props import _ftp as F

EXTRA_PROOF_MODULES = ("FsProofs.OsRefines",)   # errno_table_truthful, os_failure_truthful_and_harmless


def judge(rep, s, m):
    (mout, mtree, mclosed, adm, wf) = m
    impl = s.impl
    rep.evaluations += 1
    if impl[0] != "err":
        rep.count("ok")
        return
    cls = impl[1]
    rep.count("err:" + cls)
    rep.nontrivial(s.kind, s.op[0], cls, H.enc_tree(s.pre), s.op[1:])
    loose = mout == ("err", "OperationFailed")
    bad = None
    if cls.startswith("Leak:"):
        bad = ("leak", "raised %s (%r), not an fs.errors exception" % (cls[5:], s.impl[2]))
    else:
        exc = s.impl[2]
        try:
            str(exc)
            repr(exc)
        except Exception as e:  # noqa
            bad = ("render", "str()/repr() of %s raises %r" % (cls, e))
        if bad is None and not loose and cls not in adm and cls not in ("TypeError",):
            bad = ("untruthful", "raised %s but the documented condition does not hold; truthful classes here: %s" % (cls, adm or "none (the call should succeed)"))
        if bad is None:
            unchanged_required = (s.op[0] in H.SINGLE_RESOURCE) or (s.op[0] in ("movedir", "copydir", "removetree") and not loose and mout[0] == "err")
            if unchanged_required:
                if s.post is None or H.canon_tree(s.post) != H.canon_tree(s.pre):
                    bad = ("changed", "failed with %s but changed the tree: %r -> %r" % (
                        cls, [e[:2] for e in s.pre][:10], None if s.post is None else [e[:2] for e in s.post][:10]))
    kc = S.known_class(s) if bad else None
    if kc:
        rep.violation(H.step_case(s, model=[list(mout), adm]), "known class " + kc, found_input=True, signature="C06/known/" + kc)
        return
    if bad:
        rep.violation(H.step_case(s, model=[list(mout), adm]),
                      "%s.%s%r from tree %r — %s" % (s.kind, s.op[0], s.op[1:], [e[:2] for e in s.pre][:10], bad[1]),
                      found_input=True, signature="C06/%s/%s/%s/%s" % (s.kind, s.op[0], bad[0], cls))


def render_all_error_classes(rep):
    """every fs.errors class, constructed with field values full of format metacharacters,
    must render; so must the messages the library pre-formats itself."""
    import fs.errors as E

    nasty = ["pa{th}", "{", "}", "{0}", "a{b!r}c", "%s{}"]
    n = 0
    for name in dir(E):
        cls = getattr(E, name)
        if not (inspect.isclass(cls) and issubclass(cls, Exception) and cls.__module__ == "fs.errors"):
            continue
        try:
            params = [p for p in inspect.signature(cls.__init__).parameters.values() if p.name != "self"]
        except (TypeError, ValueError):
            continue
        for val in nasty:
            args = []
            for p in params:
                if p.kind in (p.VAR_POSITIONAL, p.VAR_KEYWORD):
                    continue
                if p.default is inspect._empty:
                    args.append(val)
            try:
                e = cls(*args)
            except Exception:
                continue
            n += 1
            rep.evaluations += 1
            rep.nontrivial("render", name, val)
            try:
                str(e)
                repr(e)
            except Exception as ex:  # noqa
                rep.violation({"class": name, "args": args}, "str()/repr() of fs.errors.%s%r raises %r" % (name, tuple(args), ex),
                              found_input=True, signature="C06/render/%s" % name)
                break
    # messages pre-formatted by the library with a user-controlled path
    from fs.osfs import OSFS

    for root in ("/no{such}dir", "/no{0}dir", "/no}{dir"):
        try:
            OSFS(root)
        except Exception as e:  # noqa
            rep.evaluations += 1
            try:
                str(e)
                repr(e)
            except Exception as ex:  # noqa
                rep.violation({"call": "OSFS(%r)" % root}, "str() of %s from OSFS(%r) raises %r" % (type(e).__name__, root, ex),
                              found_input=True, signature="C06/render/preformatted")
    rep.extra["error_classes_rendered"] = n


def run(rep, tier, seed, deep=False):
    drv = vlib.Driver()
    rng = vlib.rng_for(seed, "c06")
    quick = tier == "quick"
    n_hist, n_ops = (40, 25) if quick else (1500, 40)
    if deep:
        n_hist *= 3
    rep.rule = ("every failing call in random failure-heavy histories (%d per backend x %d ops, backends %s) and in the exhaustive "
                "small-scope sweep (all ops x all trees <=3 nodes) on mem/os: exception family, class vs Ref.adm (documented condition "
                "holds in the pre-state), str()/repr(), tree unchanged; plus rendering of every fs.errors class with brace-laden fields; "
                "distinct = distinct (backend, op, class, pre-tree, args)" % (n_hist, n_ops, S.WRITABLE))
    rep.assumptions = [
        "when several preconditions fail at once any class whose documented condition holds is truthful (Ref.adm)",
        "mid-way failures of bulk operations on file/directory conflicts are 'loose': only the frame condition (C05) applies",
        "the root used as a file argument may be reported as ResourceNotFound or FileExpected",
        "FTPFS (thorough tier only): loopback pyftpdlib 1.5.10 server, MLSD and LIST variants; RemoteConnectionError / watchdog "
        "timeouts are infrastructure (retried on a fresh server; exit 2 when the server is unhealthy), PermissionDenied cannot "
        "arise (the test user holds every permission)",
    ]
    try:
        steps = S.collect(S.WRITABLE, n_hist, n_ops, rng)
        trees = S.small_trees()
        ops = S.exhaustive_small_ops()
        for kind in (["mem", "os", "sub-mem"] if quick else ["mem", "os", "sub-mem", "sub-os", "mount-root", "multi", "wrap-mem", "zip-w"]):
            steps += S.exhaustive_steps(kind, trees, ops)
        steps += X.directed_steps()
        rep.programs = len(set(s.hist_id for s in steps))
        for s, m in S.with_model(drv, steps):
            judge(rep, s, m)
        render_all_error_classes(rep)
        # the errno -> fs.errors translation: OSFS against its transcription through the GENERATED table
        # (exact class, tree unchanged), the POSIX model against the kernel, the table against the live one
        X.run_os_exact(rep, steps, drv)
        if not quick:
            # FTPFS against a loopback pyftpdlib server, MLSD and LIST variants (thorough tier only): FTP reply codes
            # are mapped to fs.errors by fs/ftpfs.py `ftp_errors`; the class is judged with Ref.adm like everywhere else
            fsteps = F.run_ref_level(rep, drv, vlib.rng_for(seed, "c06-ftp"), judge, "C06", 60 * (3 if deep else 1), 15, 1200)
            rep.programs += len(set(s.hist_id for s in fsteps))
            steps = steps + fsteps
        fails = [s for s in steps if s.impl[0] == "err"]
        for s in fails[:: max(1, len(fails) // 6)][:6]:
            rep.sample({"backend": s.kind, "pre": [e[:2] for e in s.pre][:6], "op": H.op_json(s.op), "raised": s.impl[1]})
    finally:
        H.cleanup_scratch()


def replay(rep, case):
    if X.is_mine(case):
        return X.replay(rep, case)
    c = case["case"]
    if "backend" not in c:
        render_all_error_classes(rep)
        return 1 if rep.violations else 0
    kind, pre, op = H.case_to_step(c)
    op = H.fix_op_bytes(op)
    if kind in H.FTP_KINDS:
        try:
            s = F.one_step(kind, pre, op, 0)
        finally:
            H.cleanup_scratch()
        m = H.model_replies(vlib.Driver(), [s])[0]
        print("impl:", s.impl[:2], "adm:", m[3], "known-class:", F.known_class_c06(s, m))
        if F.known_class_c06(s, m) is None:
            judge(rep, s, m)
        return 1 if (rep.violations or F.known_class_c06(s, m)) else 0
    b = H.build_state(kind, pre)
    try:
        pre2 = H.snapshot(b.fs)
        impl = H.apply_op(b.fs, op)
        post = H.snapshot(b.fs)
    finally:
        b.close()
        H.cleanup_scratch()
    s = H.Step(kind, pre2, op, impl, post, 0, 0)
    m = H.model_replies(vlib.Driver(), [s])[0]
    judge(rep, s, m)
    print("impl:", impl[:2], "adm:", m[3])
    return 1 if rep.violations else 0
