"""C06 — failures are fs.errors exceptions for a real cause and change nothing.

Theorems: lean/FsProofs/C06.lean (every error Ref.step returns is in Ref.adm; a failed
step leaves the state unchanged; adm classes hold only under their documented condition);
lean/FsProofs/OsRefines.lean (errno_table_truthful: OSFS's errno -> fs.errors translation, through
the table generated from fs/error_tools.py, only reports classes in adm).
Correspondence/oracle: every failing call of failure-heavy histories on every backend must
raise a class from fs.errors (or the documented ValueError/TypeError) that Ref.adm accepts for
the pre-state, render with str()/repr(), and leave the tree unchanged.
"""
from __future__ import annotations

import inspect

import vlib
import fsharness as H
from vlib import hx
from props import _stateful as S
from props import _osexact as X
from props import _ftp as F

# OsRefines: errno_table_truthful, os_failure_truthful_and_harmless
# ErrorsTableLaws: the class table regenerated from fs/errors.py by harness/extract/errorstable.py against the
# ancestors / templates / constructors the model assumes (design.d/GEN2.md)
EXTRA_PROOF_MODULES = ("FsProofs.OsRefines", "FsProofs.ErrorsTableLaws")
PICKLE_RECORDED = ("BulkCopyFailed", "PatternError")     # = Fs.ErrorsModel.pickleRecorded
# the documented hierarchy (docs/source/reference/errors.rst, the class docstrings): what `except <class>` catches.
# Written from the documentation, not from the table: the oracle of ErrorsTableLaws.model_classes_exist.
_RES = ["ResourceError", "FSError", "Exception"]
_OPF = ["OperationFailed", "FSError", "Exception"]
DOCUMENTED_ANCESTORS = {
    "ResourceNotFound": _RES, "DirectoryExists": _RES, "FileExists": _RES, "DestinationExists": _RES,
    "DirectoryNotEmpty": _RES, "ResourceReadOnly": _RES,
    "FileExpected": ["ResourceInvalid"] + _RES, "DirectoryExpected": ["ResourceInvalid"] + _RES,
    "RemoveRootError": _OPF, "IllegalDestination": _OPF, "Unsupported": _OPF,
    "OperationFailed": ["FSError", "Exception"], "FilesystemClosed": ["FSError", "Exception"],
    "BulkCopyFailed": ["FSError", "Exception"],
    "InvalidCharsInPath": ["InvalidPath", "PathError", "FSError", "Exception"],
    "NoSysPath": ["PathError", "FSError", "Exception"], "NoURL": ["PathError", "FSError", "Exception"],
    "IllegalBackReference": ["ValueError", "Exception"], "ParseError": ["ValueError", "Exception"],
}


def judge(rep, s, m):
    (mout, mtree, mclosed, adm, wf) = m
    impl = s.impl
    rep.evaluations += 1
    if impl[0] != "err":
        rep.count("ok")
        return
    cls = impl[1]
    rep.count("err:" + cls)
    rep.nontrivial(s.kind, s.op[0], cls, H.enc_tree(s.pre), s.op[1:])
    loose = mout == ("err", "OperationFailed")
    bad = None
    if cls.startswith("Leak:"):
        bad = ("leak", "raised %s (%r), not an fs.errors exception" % (cls[5:], s.impl[2]))
    else:
        exc = s.impl[2]
        try:
            str(exc)
            repr(exc)
        except Exception as e:  # noqa
            bad = ("render", "str()/repr() of %s raises %r" % (cls, e))
        if bad is None and not loose and cls not in adm and cls not in ("TypeError",):
            bad = ("untruthful", "raised %s but the documented condition does not hold; truthful classes here: %s" % (cls, adm or "none (the call should succeed)"))
        if bad is None:
            unchanged_required = (s.op[0] in H.SINGLE_RESOURCE) or (s.op[0] in ("movedir", "copydir", "removetree") and not loose and mout[0] == "err")
            if unchanged_required:
                if s.post is None or H.canon_tree(s.post) != H.canon_tree(s.pre):
                    bad = ("changed", "failed with %s but changed the tree: %r -> %r" % (
                        cls, [e[:2] for e in s.pre][:10], None if s.post is None else [e[:2] for e in s.post][:10]))
    kc = S.known_class(s) if bad else None
    if kc:
        rep.violation(H.step_case(s, model=[list(mout), adm]), "known class " + kc, found_input=True, signature="C06/known/" + kc)
        return
    if bad:
        rep.violation(H.step_case(s, model=[list(mout), adm]),
                      "%s.%s%r from tree %r — %s" % (s.kind, s.op[0], s.op[1:], [e[:2] for e in s.pre][:10], bad[1]),
                      found_input=True, signature="C06/%s/%s/%s/%s" % (s.kind, s.op[0], bad[0], cls))


def render_all_error_classes(rep):
    """every fs.errors class, constructed with field values full of format metacharacters,
    must render; so must the messages the library pre-formats itself."""
    import fs.errors as E

    nasty = ["pa{th}", "{", "}", "{0}", "a{b!r}c", "%s{}"]
    n = 0
    for name in dir(E):
        cls = getattr(E, name)
        if not (inspect.isclass(cls) and issubclass(cls, Exception) and cls.__module__ == "fs.errors"):
            continue
        try:
            params = [p for p in inspect.signature(cls.__init__).parameters.values() if p.name != "self"]
        except (TypeError, ValueError):
            continue
        for val in nasty:
            args = []
            for p in params:
                if p.kind in (p.VAR_POSITIONAL, p.VAR_KEYWORD):
                    continue
                if p.default is inspect._empty:
                    args.append(val)
            try:
                e = cls(*args)
            except Exception:
                continue
            n += 1
            rep.evaluations += 1
            rep.nontrivial("render", name, val)
            try:
                str(e)
                repr(e)
            except Exception as ex:  # noqa
                rep.violation({"class": name, "args": args}, "str()/repr() of fs.errors.%s%r raises %r" % (name, tuple(args), ex),
                              found_input=True, signature="C06/render/%s" % name)
                break
    # messages pre-formatted by the library with a user-controlled path
    from fs.osfs import OSFS

    for root in ("/no{such}dir", "/no{0}dir", "/no}{dir"):
        try:
            OSFS(root)
        except Exception as e:  # noqa
            rep.evaluations += 1
            try:
                str(e)
                repr(e)
            except Exception as ex:  # noqa
                rep.violation({"call": "OSFS(%r)" % root}, "str() of %s from OSFS(%r) raises %r" % (type(e).__name__, root, ex),
                              found_input=True, signature="C06/render/preformatted")
    rep.extra["error_classes_rendered"] = n


def _field(reply, key):
    for part in reply.split(" "):
        if part.startswith(key + "="):
            v = part[len(key) + 1:]
            return None if v == "-" else ([] if v == "." else v.split(","))
    raise vlib.Infra("errors.row reply without %s=: %r" % (key, reply))


def _unhex(x):
    return vlib.unhx(x[1:])


def errors_table_phase(rep, drv):
    """the GENERATED class table of fs/errors.py (what the theorems of FsProofs/ErrorsTableLaws.lean are about) and
    what the model derives from it (linearisation, attributes set by the constructor chain, message template and its
    replacement fields, the constructor call __reduce__ asks for) against the LIVE classes: __mro__, inspect.signature,
    vars() of an instance, string.Formatter, str()/repr(), a pickle round trip."""
    import importlib
    import json
    import os
    import pickle
    import string

    path = os.path.join(vlib.LEAN, "FsModel", "Generated", "ErrorsTable.json")
    try:
        with open(path) as fh:
            table = json.load(fh)
    except (OSError, ValueError) as ex:
        rep.violation({"broken_obligation": "ErrorsTable.extract(<module>)", "error": str(ex)},
                      "the generated ErrorsTable is missing: %s" % ex, found_input=False, signature="C06/errors-table/missing")
        return
    rows = table["classes"]
    for note in table.get("notes", []):
        rep.violation({"broken_obligation": "ErrorsTableLaws.table_understood", "note": note},
                      "ErrorsTableLaws.table_understood: the extractor could not read %s" % note,
                      found_input=False, signature="C06/errors-table/understood/<file>")
    for r in rows:
        for u in r["unknown"]:
            rep.violation({"broken_obligation": "ErrorsTableLaws.table_understood", "class": r["name"], "what": u},
                          "ErrorsTableLaws.table_understood: the extractor does not understand %s in class %s (%s:%d); "
                          "the table theorems no longer build, the live classes show no failing input"
                          % (u, r["name"], r["source"], r["line"]),
                          found_input=False, signature="C06/errors-table/understood/%s" % r["name"])

    def bad(cls_name, kind, what, **case):
        rep.violation(dict({"class": cls_name, "errors_table": kind}, **case),
                      "fs.errors class table, %s: %s" % (cls_name, what), found_input=True,
                      signature="C06/errors-table/%s/%s" % (kind, cls_name))

    mods = {src: importlib.import_module(src[:-3].replace("/", ".")) for src in table["sources"]}
    for src, mod in mods.items():
        live = sorted(n for n, c in vars(mod).items() if inspect.isclass(c) and c.__module__ == mod.__name__)
        listed = sorted(r["name"] for r in rows if r["source"] == src)
        if live != listed:
            bad("<module %s>" % src, "classes", "classes defined at run time %r, class statements in the source %r" % (live, listed))
    names = [r["name"] for r in rows]
    replies = drv.batch(["errors.classes"] + ["errors.row %s" % n for n in names])
    if replies[0].split(",") != names:
        raise vlib.Infra("the driver's ErrorsTable differs from ErrorsTable.json (stale build?)")
    recorded, compared = [], 0
    for r, reply in zip(rows, replies[1:]):
        name = r["name"]
        cls = getattr(mods[r["source"]], name, None)
        if cls is None or reply == "bad-op":
            continue
        rep.evaluations += 1
        rep.nontrivial("errors-table", name)
        # --- the row against the class statement as Python executed it
        own = cls.__dict__
        facts = {
            "bases": ([b.__name__ for b in cls.__bases__], r["bases"]),
            "default_message": (own.get("default_message"), r["defaultMessage"]),
            "own __init__": ("__init__" in own, r["init"] is not None),
            "own __reduce__": ("__reduce__" in own, r["reduce"] is not None),
            "own __str__": ("__str__" in own, r["definesStr"]),
            "own __repr__": ("__repr__" in own, r["definesRepr"]),
        }
        # --- what the model derives against the live class
        mro = [c.__name__ for c in cls.__mro__ if c not in (BaseException, object)]
        facts["mro"] = (mro, _field(reply, "mro"))
        if name in DOCUMENTED_ANCESTORS and mro != [name] + DOCUMENTED_ANCESTORS[name]:
            bad(name, "ancestors", "the live class derives from %r, documented (and assumed by the model) is %r"
                % (mro[1:], DOCUMENTED_ANCESTORS[name]))
        params = None
        if inspect.isfunction(cls.__init__):
            ps = [p for p in inspect.signature(cls.__init__).parameters.values()][1:]
            params = [p.name for p in ps]
            required = sum(1 for p in ps if p.default is inspect._empty)
            facts["required"] = (required, int(_field(reply, "req")[0]))
        facts["__init__ parameters"] = (params, _field(reply, "init"))
        tmpl = getattr(cls, "default_message", None)
        mt = _field(reply, "tmpl")
        facts["template"] = (tmpl, None if mt is None else _unhex(mt[0]))
        if tmpl is not None:
            ph = [f.split("!")[0].split(":")[0].split(".")[0].split("[")[0] for _, f, _, _ in string.Formatter().parse(tmpl) if f is not None]
            facts["replacement fields"] = (ph, [_unhex(x) for x in (_field(reply, "ph") or [])])
        for what, (livev, tablev) in facts.items():
            compared += 1
            if livev != tablev:
                bad(name, "static", "%s: live %r, table/model %r" % (what, livev, tablev), fact=what)
        # --- an instance
        nreq = int(_field(reply, "req")[0])
        args = ["v%d{x}" % i for i in range(nreq)]
        try:
            e = cls(*args)
        except Exception as ex:  # noqa
            bad(name, "construct", "%s(*%r) raises %r (required parameters by the table: %d)" % (name, args, ex, nreq), args=args)
            continue
        fields = _field(reply, "fields")
        if sorted(vars(e)) != sorted(fields):
            bad(name, "fields", "vars(%s(*%r)) = %r, constructor chain of the table sets %r" % (name, args, sorted(vars(e)), sorted(fields)), args=args)
        try:
            text = str(e)
            repr(e)
        except Exception as ex:  # noqa
            bad(name, "render", "str()/repr() of %s(*%r) raises %r" % (name, args, ex), args=args)
            continue
        if _field(reply, "fmt") is not None and tmpl is not None:
            missing = [f for f in ph if f not in vars(e)]
            if missing:
                bad(name, "template", "the message template %r names %r, which %s(*%r) does not set (attributes: %r); "
                    "str() gives the raw template %r" % (tmpl, missing, name, args, sorted(vars(e)), text), args=args)
                continue
            want = tmpl.format(**vars(e))
            if text != want:
                bad(name, "message", "str(%s(*%r)) = %r, template filled with the instance attributes %r" % (name, args, text, want), args=args)
        sound = _field(reply, "pickle") == ["1"]
        try:
            e2 = pickle.loads(pickle.dumps(e))
            works = type(e2) is cls and vars(e2) == vars(e) and str(e2) == str(e)
            why = "a different object"
        except Exception as ex:  # noqa
            works, why = False, repr(ex)
        if works != sound:
            bad(name, "pickle", "pickle round trip %s (%s) but the table's constructor/__reduce__ pair is %s"
                % ("works" if works else "fails", why, "sound" if sound else "unsound"), args=args)
        elif not works:
            if name in PICKLE_RECORDED:
                recorded.append("%s: %s" % (name, why))
            else:
                bad(name, "pickle", "pickle.loads(pickle.dumps(%s(*%r))) fails: %s" % (name, args, why), args=args)
    # the replacement-field scanner alone
    templates = ["", "{a}", "{{a}}", "{{{a}}}", "x{a!r}y{b:>{w}}", "{a.b}{c[0]}", "{}{0}", "}}{{", "a{b}c{d}e", "{a}}}"]
    outs = drv.batch(["errors.placeholders %s" % hx(t) for t in templates])
    for t, o in zip(templates, outs):
        rep.evaluations += 1
        want = [f.split("!")[0].split(":")[0].split(".")[0].split("[")[0] for _, f, _, _ in string.Formatter().parse(t) if f is not None]
        got = vlib.unhxlist(o)
        if "{w}" in t:
            want = [w for w in want if w != "w"] if got != want else want    # nested fields in a format spec: outside the scanner
        if got != want:
            bad("<scanner>", "placeholders", "replacement fields of %r: string.Formatter %r, model %r" % (t, want, got), template=t)
    rep.extra["errors_table"] = {
        "sources": table["sources"], "classes": len(rows), "facts_compared": compared,
        "recorded_pickle_defects": recorded,
        "laws": "FsProofs.ErrorsTableLaws",
    }


def run(rep, tier, seed, deep=False):
    drv = vlib.Driver()
    rng = vlib.rng_for(seed, "c06")
    quick = tier == "quick"
    n_hist, n_ops = (40, 25) if quick else (1500, 40)
    if deep:
        n_hist *= 3
    rep.rule = ("every failing call in random failure-heavy histories (%d per backend x %d ops, backends %s) and in the exhaustive "
                "small-scope sweep (all ops x all trees <=3 nodes) on mem/os: exception family, class vs Ref.adm (documented condition "
                "holds in the pre-state), str()/repr(), tree unchanged; plus rendering of every fs.errors class with brace-laden fields; "
                "distinct = distinct (backend, op, class, pre-tree, args)" % (n_hist, n_ops, S.WRITABLE))
    rep.assumptions = [
        "when several preconditions fail at once any class whose documented condition holds is truthful (Ref.adm)",
        "mid-way failures of bulk operations on file/directory conflicts are 'loose': only the frame condition (C05) applies",
        "the root used as a file argument may be reported as ResourceNotFound or FileExpected",
        "FTPFS (thorough tier only): loopback pyftpdlib 1.5.10 server, MLSD and LIST variants; RemoteConnectionError / watchdog "
        "timeouts are infrastructure (retried on a fresh server; exit 2 when the server is unhealthy), PermissionDenied cannot "
        "arise (the test user holds every permission)",
    ]
    try:
        steps = S.collect(S.WRITABLE, n_hist, n_ops, rng)
        trees = S.small_trees()
        ops = S.exhaustive_small_ops()
        for kind in (["mem", "os", "sub-mem"] if quick else ["mem", "os", "sub-mem", "sub-os", "mount-root", "multi", "wrap-mem", "zip-w"]):
            steps += S.exhaustive_steps(kind, trees, ops)
        steps += X.directed_steps()
        rep.programs = len(set(s.hist_id for s in steps))
        for s, m in S.with_model(drv, steps):
            judge(rep, s, m)
        render_all_error_classes(rep)
        errors_table_phase(rep, drv)
        # the errno -> fs.errors translation: OSFS against its transcription through the GENERATED table
        # (exact class, tree unchanged), the POSIX model against the kernel, the table against the live one
        X.run_os_exact(rep, steps, drv)
        if not quick:
            # FTPFS against a loopback pyftpdlib server, MLSD and LIST variants (thorough tier only): FTP reply codes
            # are mapped to fs.errors by fs/ftpfs.py `ftp_errors`; the class is judged with Ref.adm like everywhere else
            fsteps = F.run_ref_level(rep, drv, vlib.rng_for(seed, "c06-ftp"), judge, "C06", 60 * (3 if deep else 1), 15, 1200)
            rep.programs += len(set(s.hist_id for s in fsteps))
            steps = steps + fsteps
        fails = [s for s in steps if s.impl[0] == "err"]
        for s in fails[:: max(1, len(fails) // 6)][:6]:
            rep.sample({"backend": s.kind, "pre": [e[:2] for e in s.pre][:6], "op": H.op_json(s.op), "raised": s.impl[1]})
    finally:
        H.cleanup_scratch()


def replay(rep, case):
    if X.is_mine(case):
        return X.replay(rep, case)
    c = case["case"]
    if "errors_table" in c:
        errors_table_phase(rep, vlib.Driver())
        return 1 if rep.violations else 0
    if "backend" not in c:
        render_all_error_classes(rep)
        return 1 if rep.violations else 0
    kind, pre, op = H.case_to_step(c)
    op = H.fix_op_bytes(op)
    if kind in H.FTP_KINDS:
        try:
            s = F.one_step(kind, pre, op, 0)
        finally:
            H.cleanup_scratch()
        m = H.model_replies(vlib.Driver(), [s])[0]
        print("impl:", s.impl[:2], "adm:", m[3], "known-class:", F.known_class_c06(s, m))
        if F.known_class_c06(s, m) is None:
            judge(rep, s, m)
        return 1 if (rep.violations or F.known_class_c06(s, m)) else 0
    b = H.build_state(kind, pre)
    try:
        pre2 = H.snapshot(b.fs)
        impl = H.apply_op(b.fs, op)
        post = H.snapshot(b.fs)
    finally:
        b.close()
        H.cleanup_scratch()
    s = H.Step(kind, pre2, op, impl, post, 0, 0)
    m = H.model_replies(vlib.Driver(), [s])[0]
    judge(rep, s, m)
    print("impl:", impl[:2], "adm:", m[3])
    return 1 if rep.violations else 0
