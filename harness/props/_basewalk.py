"""BASEWALK — the base-class bulk algorithms of fs/base.py AS CODED against their operational model.

Model: lean/FsModel/BaseWalk.lean (`FS.removetree` = depth-first walker + remove/removedir; `FS.copydir` =
copy_structure + breadth-first file walk + copy_file_internal; `FS.movedir` = move_dir), run by the driver over
the primitives of `FsModel.Mem` (`basewalk.mem`) / `FsModel.Os` (`basewalk.os`) / the reference (`basewalk.step`).
Theorems: lean/FsProofs/BaseWalkLaws.lean (the operational algorithm over the primitives of any filesystem that
refines the reference computes the reference's tree-level result).

What is compared, EXACTLY (error class included; on MemoryFS the resulting tree with its entry ORDER, on OSFS the
tree with the kernel's listing order canonicalised):
  * every `copydir` step on mem / os, every `movedir` step on os, and the `movedir` steps on mem that MemoryFS
    hands to the base class (source a directory, destination exists) — from the steps the caller collected;
  * a directed corpus: file/directory CONFLICT trees (a file where a directory is needed and vice versa, at depth
    1 and 2, several conflicts at once, entry-order witnesses) x copydir/movedir over the paths
    {"", a, b, a/s, b/s, c, c/d} x create, on MemoryFS and OSFS; and the BASE-CLASS methods called unbound on a
    MemoryFS / OSFS object (`fs.base.FS.removetree(fs_obj, p)`, `FS.movedir`, `FS.copydir`) — the algorithms
    themselves, where the class overrides them.
This tightens the reference's loose cases (`OperationFailed`: only "must fail" is specified): here the class the
call fails with and the partial tree it leaves are checked.
"""
from __future__ import annotations

import vlib
import fsharness as H
from props import _stateful as S

CMD = {"mem": "basewalk.mem", "os": "basewalk.os"}
WALKERS = ("copydir", "movedir", "removetree")


def _comps(p):
    import fs.path as P

    if "\0" in p:
        return None
    try:
        return tuple(c for c in P.normpath(p).split("/") if c)
    except Exception:
        return None


def runs_base_class(kind, op, pre):
    """does `<kind>.<op>` run the base-class algorithm (fs/base.py) rather than an override of the class?"""
    name = op[0]
    if kind == "os":
        return name in ("copydir", "movedir")          # OSFS overrides removetree only
    if kind == "mem":
        if name == "copydir":
            return True
        if name == "movedir":
            # MemoryFS.movedir: its own checks, then `super().movedir` when the destination exists
            s, d = _comps(op[1]), _comps(op[2])
            if s is None or d is None or s == d or d[: len(s)] == s:
                return False
            kinds = {tuple(e[1].split("/")): e[0] for e in pre}
            return kinds.get(s) == "D" and (d == () or d in kinds)
    return False


def F(p, b=None):
    return ("F", p, (b if b is not None else p).encode())


def D(p):
    return ("D", p)


def conflict_trees():
    """source below `a`, destination below `b`"""
    return [
        [D("a"), D("a/x"), D("b"), F("b/x")],                                   # directory over file, depth 1
        [D("a"), F("a/x"), D("b"), D("b/x")],                                   # file over directory, depth 1
        [D("a"), D("a/s"), D("a/s/x"), D("b"), D("b/s"), F("b/s/x")],           # directory over file, depth 2
        [D("a"), D("a/s"), F("a/s/x"), D("b"), D("b/s"), D("b/s/x")],           # file over directory, depth 2
        [D("a"), F("a/f1"), D("a/x"), D("a/y"), F("a/y/q"), D("b"), F("b/x"), D("b/f1")],   # both kinds at once
        [D("a"), F("a/f1"), D("a/d"), F("a/d/x"), D("b"), D("b/f1")],           # a conflict after a partial copy
        [D("a"), F("a/f0"), F("a/x"), F("a/f2"), D("b"), D("b/x")],             # files before and after the conflict
        [D("a"), D("a/d0"), D("a/x"), D("a/d2"), D("b"), F("b/x")],             # directories before and after it
        # the conflict sits in the SECOND sub-tree, one level down: breadth-first order decides what is there by then
        [D("a"), D("a/s"), D("a/s/e"), D("a/t"), D("a/t/x"), D("b"), D("b/t"), F("b/t/x")],
        [D("a"), D("a/s"), D("a/s/e"), F("a/s/e/g"), D("a/t"), F("a/t/x"), D("b"), D("b/t"), D("b/t/x")],
        # no conflict: entry ORDER (directories of a level first, then its files; existing names keep their place)
        [D("a"), F("a/f1"), D("a/d1"), F("a/f2"), D("a/d2"), F("a/d1/g"), D("b"), F("b/z"), F("b/f2", "old")],
        [D("a"), F("a/f"), D("a/d"), D("a/d/e"), F("a/d/g"), D("b")],
        [D("a"), D("a/a"), F("a/a/f", "in"), F("a/f", "out")],                   # names repeating along the path
    ]


PATHS = ["", "a", "b", "a/s", "b/s", "c", "c/d"]


def directed_ops(names=PATHS):
    ops = [("removetree", p) for p in names]
    for p in names:
        for q in names:
            for c in (False, True):
                ops.append(("copydir", p, q, c))
                ops.append(("movedir", p, q, c))
    return ops


def _unbound(fsobj, op):
    """the BASE-CLASS method on this object, whatever the class overrides"""
    import fs.base

    def go():
        getattr(fs.base.FS, op[0])(fsobj, *op[1:])
        return "unit"

    try:
        return ("ok", H.with_watchdog(go, 10))
    except BaseException as e:  # noqa
        if isinstance(e, (KeyboardInterrupt, SystemExit)):
            raise
        return ("err", H.exc_name(e), e)


def directed_steps(kind, trees, ops, unbound):
    steps = []
    hid = 3 * 10 ** 6
    for t in trees:
        for op in ops:
            b = H.build_state(kind, t)
            try:
                pre = H.snapshot(b.fs)
                impl = _unbound(b.fs, op) if unbound else H.apply_op(b.fs, op, keep_order=True)
                post = H.snapshot(b.fs)
                steps.append(H.Step(kind, pre, op, impl, post, hid, 0))
            finally:
                b.close()
            hid += 1
    return steps


def judge(rep, drv, steps, what):
    """each step against `basewalk.<kind>`: outcome (class) and tree"""
    n = 0
    for kind in ("mem", "os"):
        ks = [s for s in steps if s.kind == kind]
        if not ks:
            continue
        ms = H.model_replies(drv, ks, cmd=CMD[kind], sort_names=False)
        refs = H.model_replies(drv, ks, cmd="ref.step")
        for s, m, r in zip(ks, ms, refs):
            (mout, mtree, _closed, _adm, wf) = m
            rep.evaluations += 1
            n += 1
            rep.nontrivial("basewalk", what, kind, s.op, H.enc_tree(s.pre))
            loose = r[0] == ("err", "OperationFailed")
            rep.count("basewalk/%s/%s:%s%s" % (kind, s.op[0], "ok" if mout[0] == "ok" else mout[1], "/loose" if loose else ""))
            impl = tuple(s.impl[:2])
            why = None
            if impl != tuple(mout):
                why = "outcome: %s gives %s, the model of the algorithm %s" % (kind, impl, mout)
            elif s.post is None:
                why = "tree: the filesystem cannot be listed after the call"
            elif kind == "mem" and H.enc_tree(s.post) != mtree:
                why = "tree/entry order: MemoryFS %r, the model %r" % ([e[:2] for e in s.post][:12], [e[:2] for e in H.dec_tree(mtree)][:12])
            elif kind == "os" and H.canon_tree(s.post) != H.canon_tree(H.dec_tree(mtree)):
                why = "tree: OSFS %r, the model %r" % ([e[:2] for e in H.canon_tree(s.post)][:12], [e[:2] for e in H.canon_tree(H.dec_tree(mtree))][:12])
            if not wf:
                why = (why or "") + " model tree not well-formed"
            if why:
                rep.disagreements_checked += 1
                case = H.step_case(s, model=[list(mout), mtree])
                case["basewalk"] = what
                rep.violation(case,
                              "correspondence FsModel.BaseWalk (fs/base.py removetree/copydir/movedir, fs/copy.py copy_dir, "
                              "fs/move.py move_dir as coded) over %s primitives vs the real %s (%s) %s%r from tree %r broke — %s%s"
                              % (kind, "OSFS" if kind == "os" else "MemoryFS", what, s.op[0], s.op[1:], [e[:2] for e in s.pre][:10], why,
                                 " [a case the reference leaves loose: mid-way failure]" if loose else ""),
                              found_input=False, signature="C05/basewalk/%s/%s" % (kind, s.op[0]))
    return n


def run(rep, drv, steps, quick=True):
    """`steps`: what the caller collected (any backends, any operations)"""
    own = [s for s in steps if s.kind in CMD and s.op[0] in WALKERS and runs_base_class(s.kind, s.op, s.pre)]
    n = judge(rep, drv, own, "method of the class")
    trees = conflict_trees()
    ops = directed_ops()
    walk_ops = [op for op in ops if op[0] != "removetree"]
    # the classes' own copydir / movedir on the conflict corpus (MemoryFS.movedir: where it hands over to the base class)
    d_mem = [s for s in directed_steps("mem", trees, walk_ops, unbound=False) if runs_base_class("mem", s.op, s.pre)]
    n += judge(rep, drv, d_mem, "method of the class, conflict corpus")
    n += judge(rep, drv, directed_steps("os", trees, walk_ops, unbound=False), "method of the class, conflict corpus")
    # the base-class methods themselves on a MemoryFS object (all three) and `FS.removetree` on an OSFS object
    n += judge(rep, drv, directed_steps("mem", trees + S.small_trees(), ops, unbound=True),
               "fs.base.FS.<method>(memoryfs, …)")
    n += judge(rep, drv, directed_steps("os", trees, [op for op in ops if op[0] == "removetree"], unbound=True),
               "fs.base.FS.removetree(osfs, …)")
    rep.extra["basewalk_steps"] = n
    return n


def replay(rep, c):
    """re-run one recorded step (`case` of a replay file whose signature is C05/basewalk/…)"""
    kind, pre, op = H.case_to_step(c)
    op = H.fix_op_bytes(op)
    unbound = "fs.base.FS" in c.get("basewalk", "")
    b = H.build_state(kind, pre)
    try:
        pre2 = H.snapshot(b.fs)
        impl = _unbound(b.fs, op) if unbound else H.apply_op(b.fs, op, keep_order=True)
        post = H.snapshot(b.fs)
    finally:
        b.close()
        H.cleanup_scratch()
    judge(rep, vlib.Driver(), [H.Step(kind, pre2, op, impl, post, 0, 0)], c.get("basewalk", "replay"))
    print("impl:", impl[:2])
    return 1 if (rep.violations or rep._deferred) else 0


def removetree_unvalidated_regression(rep, prop="C01"):
    """regression of the FIXED finding `removetree-unvalidated-path` (/repo 433aea4): `FS.removetree` used to
    normalise its argument WITHOUT validating it, so a component with an invalid character that `..` cancels was
    never seen — on every filesystem that inherits the method (`MultiFS`, `MountFS`, `FTPFS`) `removetree("x\\0/..")`
    emptied the root.  It now starts with `validatepath` like every other method: InvalidCharsInPath and an
    unchanged tree are REQUIRED (Lean: `BaseWalkLaws.removetree_nul_repaired`, `multi_closed_removetree_class_repaired`);
    a closed filesystem says FilesystemClosed before it looks at the path"""
    for kind in ("multi", "mount-root"):
        b = H.build_state(kind, [("D", "d"), ("F", "d/g", b"g"), ("F", "keep", b"k")])
        try:
            pre = H.snapshot(b.fs)
            impl = H.apply_op(b.fs, ("removetree", "x\0/.."))
            post = H.snapshot(b.fs)
            b.fs.close()
            closed = H.apply_op(b.fs, ("removetree", "../.."))
        finally:
            b.close()
        rep.evaluations += 2
        rep.nontrivial("removetree-unvalidated", kind)
        if tuple(impl[:2]) != ("err", "InvalidCharsInPath") or post != pre:
            rep.violation({"backend": kind, "pre_tree": [[e[0], e[1]] for e in pre], "op": ["removetree", "x\0/.."],
                           "impl": list(impl[:2]), "impl_post_tree": None if post is None else [[e[0], e[1]] for e in post]},
                          "%s.removetree('x\\0/..') — verdict: backend %s and tree %r, reference ('err', 'InvalidCharsInPath') and the "
                          "tree unchanged: FS.removetree must validate its argument before normalising it (regression of the fixed "
                          "finding removetree-unvalidated-path)" % (kind, impl[:2], [e[:2] for e in post or []]),
                          found_input=True, signature="%s/%s/removetree/unvalidated-path" % (prop, kind))
        if tuple(closed[:2]) != ("err", "FilesystemClosed"):
            rep.violation({"backend": kind, "closed": True, "op": ["removetree", "../.."], "impl": list(closed[:2])},
                          "closed %s.removetree('../..') -> %s; the reference (and every other method) says FilesystemClosed first"
                          % (kind, closed[:2]), found_input=True, signature="%s/%s/removetree/closed-class" % (prop, kind))
