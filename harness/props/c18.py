"""C18 — close() is final, idempotent and finalises exactly once.

Theorems: lean/FsProofs/C18.lean (guard table GENERATED from the sources and re-proved on every
run; reference/wrapper closed semantics; archive / TempFS / composite finalisation machines).

Dynamic side, for every filesystem kind and wrapper nesting, after a random prior history, closed
explicitly / twice / by a with-block / with the archive write made to fail once:

  oracle          every public method by reflection (dir(obj)), with arguments synthesised from
                  its signature, raises FilesystemClosed (the justified allow-list of helpers in
                  FsModel/Guard.lean excepted); the underlying storage does not change; a written
                  archive re-opens to the pre-close tree; the archive writer ran exactly once; a
                  TempFS directory is gone iff auto_clean; members are closed iff auto_close;
                  ClosingSubFS closes its parent, SubFS does not.
  correspondence  "guarded" rows of the generated table must raise FilesystemClosed on the real
                  code; the finalisation machines of the model are compared with the counters.
"""
from __future__ import annotations

import os
import shutil
import tempfile

import vlib
import fsharness as H
from props import _reflect as R

LEANCHECKER_MODULES = ("FsProofs.C18",)

KINDS = ["mem", "os", "temp", "temp-noclean", "temp-strict", "sub(mem)", "sub(os)", "closingsub(mem)", "wrapfs(mem)", "ro(mem)",
         "cachedir(mem)", "sub(sub(mem))", "ro(sub(os))", "cachedir(sub(mem))", "wrapfs(ro(mem))",
         "mount-auto", "mount-noauto", "multi-auto", "multi-noauto",
         "zip-w-temp", "zip-w-mem", "tar-w-temp", "tar-w-mem", "zip-r", "tar-r"]
ARCH_W = {"zip-w-temp", "zip-w-mem", "tar-w-temp", "tar-w-mem"}
MODES = ["explicit", "twice", "with"]

SEED_TREE = [("D", "d"), ("F", "f", b"file-f"), ("F", "d/g", b"file-g"), ("D", "d/e")]


def _tmp():
    os.makedirs(H.SCRATCH_ROOT, exist_ok=True)
    return tempfile.mkdtemp(dir=H.SCRATCH_ROOT)


class K:
    """a filesystem under test + how to look at what is underneath it"""

    def __init__(self, kind, fs_obj, storage=None, cleanup=None, **info):
        self.kind, self.fs, self.storage, self._cleanup, self.info = kind, fs_obj, storage, cleanup, info

    def dispose(self):
        for f in self.info.get("others", []):
            try:
                f.close()
            except Exception:
                pass
        if self._cleanup:
            self._cleanup()


def build(kind):
    from fs.memoryfs import MemoryFS
    from fs.osfs import OSFS
    from fs.tempfs import TempFS
    from fs.subfs import ClosingSubFS
    from fs.wrapfs import WrapFS
    from fs.wrap import read_only, cache_directory
    from fs.mountfs import MountFS
    from fs.multifs import MultiFS

    def mem_parent():
        m = MemoryFS()
        m.makedirs("top/in")
        m.writebytes("top/canary", b"canary")
        return m

    if kind == "mem":
        return K(kind, MemoryFS())
    if kind == "os":
        d = _tmp()
        return K(kind, OSFS(d), lambda: R.snap_dir(d), lambda: shutil.rmtree(d, ignore_errors=True))
    if kind in ("temp", "temp-noclean", "temp-strict"):
        os.makedirs(H.SCRATCH_ROOT, exist_ok=True)
        t = TempFS(temp_dir=H.SCRATCH_ROOT, auto_clean=(kind != "temp-noclean"), ignore_clean_errors=(kind != "temp-strict"))
        d = t._temp_dir
        return K(kind, t, lambda: R.snap_dir(d), lambda: shutil.rmtree(d, ignore_errors=True), temp_dir=d,
                 auto_clean=(kind != "temp-noclean"))
    if kind in ("sub(mem)", "closingsub(mem)", "sub(sub(mem))", "cachedir(sub(mem))"):
        m = mem_parent()
        if kind == "sub(mem)":
            f = m.opendir("top/in")
        elif kind == "closingsub(mem)":
            f = m.opendir("top/in", factory=ClosingSubFS)
        elif kind == "sub(sub(mem))":
            f = m.opendir("top").opendir("in")
        else:
            f = cache_directory(m.opendir("top/in"))
        return K(kind, f, lambda: R.snap_fs(m), None, parent=m, others=[m], closing=(kind == "closingsub(mem)"))
    if kind in ("sub(os)", "ro(sub(os))"):
        d = _tmp()
        o = OSFS(d)
        o.makedirs("top/in")
        o.writebytes("top/canary", b"canary")
        f = o.opendir("top/in")
        if kind == "ro(sub(os))":
            f = read_only(f)
        return K(kind, f, lambda: R.snap_dir(d), lambda: shutil.rmtree(d, ignore_errors=True), parent=o, others=[o],
                 closing=False)
    if kind in ("wrapfs(mem)", "ro(mem)", "cachedir(mem)", "wrapfs(ro(mem))"):
        m = MemoryFS()
        f = {"wrapfs(mem)": lambda: WrapFS(m), "ro(mem)": lambda: read_only(m), "cachedir(mem)": lambda: cache_directory(m),
             "wrapfs(ro(mem))": lambda: WrapFS(read_only(m))}[kind]()
        return K(kind, f, lambda: R.snap_fs(m), None, parent=m, others=[m], closing=False, seed_via=m)
    if kind in ("mount-auto", "mount-noauto"):
        auto = kind == "mount-auto"
        mfs = MountFS(auto_close=auto)
        a, b = MemoryFS(), MemoryFS()
        mfs.mount("m1", a)
        mfs.mount("m2/deep", b)
        return K(kind, mfs, (lambda: (R.snap_fs(a), R.snap_fs(b))) if not auto else None, None, members=[a, b],
                 auto_close=auto, others=[a, b])
    if kind in ("multi-auto", "multi-noauto"):
        auto = kind == "multi-auto"
        mu = MultiFS(auto_close=auto)
        w, lo = MemoryFS(), MemoryFS()
        lo.writebytes("only-lo", b"lo")
        mu.add_fs("lo", lo, priority=1)
        mu.add_fs("w", w, write=True, priority=5)
        return K(kind, mu, (lambda: (R.snap_fs(w), R.snap_fs(lo))) if not auto else None, None, members=[w, lo],
                 auto_close=auto, others=[w, lo])
    if kind in ARCH_W:
        from fs.zipfs import ZipFS
        from fs.tarfs import TarFS
        d = _tmp()
        z = kind.startswith("zip")
        path = os.path.join(d, "out.zip" if z else "out.tar")
        temp = "temp://__verif__" if kind.endswith("temp") else "mem://"
        f = (ZipFS if z else TarFS)(path, write=True, temp_fs=temp)

        def storage():
            if not os.path.exists(path):
                return None
            with open(path, "rb") as fh:
                return fh.read()
        return K(kind, f, storage, lambda: shutil.rmtree(d, ignore_errors=True), archive=path, zip=z,
                 temp_fs=f._temp_fs)
    if kind in ("zip-r", "tar-r"):
        from fs.zipfs import ZipFS
        from fs.tarfs import TarFS
        d = _tmp()
        z = kind == "zip-r"
        path = os.path.join(d, "in.zip" if z else "in.tar")
        with (ZipFS if z else TarFS)(path, write=True) as w:
            for e in SEED_TREE:
                (w.makedirs(e[1], recreate=True) if e[0] == "D" else w.writebytes(e[1], e[2]))
        f = (ZipFS if z else TarFS)(path)

        def storage():
            with open(path, "rb") as fh:
                return (fh.read(), os.stat(path).st_mtime_ns)
        return K(kind, f, storage, lambda: shutil.rmtree(d, ignore_errors=True), readonly=True)
    raise ValueError(kind)


class Counter:
    """wraps fs.zipfs.write_zip / fs.tarfs.write_tar (the names the close() code calls)"""

    def __init__(self, fail_first=False):
        self.calls = 0
        self.completed = 0
        self.fail = fail_first
        import fs.zipfs as Z
        import fs.tarfs as T
        self.mods = [(Z, "write_zip", Z.write_zip), (T, "write_tar", T.write_tar)]

    def __enter__(self):
        for mod, name, orig in self.mods:
            def wrapped(*a, _orig=orig, **kw):
                self.calls += 1
                if self.fail:
                    self.fail = False
                    raise IOError("injected archive write failure")
                r = _orig(*a, **kw)
                self.completed += 1
                return r
            setattr(mod, name, wrapped)
        return self

    def __exit__(self, *a):
        for mod, name, orig in self.mods:
            setattr(mod, name, orig)


def is_closed_err(o):
    return o[0] == "err" and o[1] == "FilesystemClosed"


def parse_kv(line):
    return dict(kv.split("=", 1) for kv in line.split(" "))


class Run:
    def __init__(self, rep, drv, table, rng, limit, n_hist_ops):
        self.rep, self.drv, self.table, self.rng, self.limit, self.n_ops = rep, drv, table, rng, limit, n_hist_ops
        self.max_viol = 40
        self.seen_sig = set()

    def viol(self, case, note, found, sig):
        if not os.path.exists(os.path.join(H.SCRATCH_ROOT, ".alive")):
            # every OSFS/TempFS/archive of this run lives below the scratch root
            raise vlib.Infra("scratch root %s was removed by another process during the run" % H.SCRATCH_ROOT)
        if sig in self.seen_sig or len(self.rep.violations) >= self.max_viol:
            return
        self.seen_sig.add(sig)
        self.rep.violation(case, note, found_input=found, signature=sig)

    def history(self, k):
        """seed tree + random prior history; returns the op list actually run"""
        f = k.fs
        ops = []
        if not k.info.get("readonly"):
            for e in SEED_TREE:
                op = ("makedirs", e[1], True) if e[0] == "D" else ("writebytes", e[1], e[2])
                H.apply_op(f, op)
                ops.append(op)
        snap = H.snapshot(f) or []
        for _ in range(self.n_ops):
            op = H.gen_op(self.rng, snap, ["a", "b", "c"])
            if op[0] == "close":
                continue
            if k.kind.startswith("mount") and op[0] in ("remove", "removedir", "removetree", "move", "movedir") and \
                    op[1].strip("/").split("/")[0] in ("m1", "m2"):
                continue
            H.apply_op(f, op)
            ops.append(op)
            snap = H.snapshot(f) or snap
        return ops

    def one(self, kind, mode):
        rep = self.rep
        k = build(kind)
        case = {"kind": kind, "close_mode": mode}
        try:
            f = k.fs
            cls = type(f).__name__
            ops = self.history(k)
            case["history"] = [H.op_json(o) for o in ops]
            pre_tree = H.snapshot(f)
            paths = self.paths(pre_tree)
            fail = mode == "fail-once"
            with Counter(fail_first=fail) as cnt:
                closes = []
                if mode == "with":
                    def w():
                        with f:
                            pass
                    closes.append(R.outcome(w))
                else:
                    closes.append(R.outcome(f.close))
                    if mode in ("twice", "fail-once"):
                        closes.append(R.outcome(f.close))
                    if mode == "fail-once":
                        closes.append(R.outcome(f.close))
                case["close_outcomes"] = [list(c[:2]) if c[0] == "err" else ["ok"] for c in closes]
                rep.count("close/%s/%s" % (mode, "+".join("ok" if c[0] == "ok" else c[1] for c in closes)))
                if fail:
                    self.failed_close(k, case, closes, cnt)
                else:
                    for i, c in enumerate(closes):
                        if c[0] != "ok":
                            self.viol(case, "%s: close() #%d raised %s: %r" % (kind, i + 1, c[1], c[2]), True,
                                      "C18/%s/close-raises" % cls)
                    o = R.outcome(f.isclosed)
                    if o != ("ok", True):
                        self.viol(case, "%s: isclosed() is %r after close()" % (kind, o[:2]), True, "C18/%s/isclosed" % cls)
                s0 = k.storage() if k.storage else None
                if not fail:      # after a failed finalisation the filesystem is *not* closed (see failed_close)
                    self.after_close(k, case, paths, pre_tree)
                # close() once more, at the very end
                o = R.outcome(f.close)
                if o[0] != "ok" and not fail:
                    self.viol(case, "%s: a further close() raised %s" % (kind, o[1]), True, "C18/%s/close-not-idempotent" % cls)
                if k.storage and k.storage() != s0:
                    self.viol(case, "%s: the underlying storage changed after close()" % kind, True, "C18/%s/storage-changed" % cls)
                if not fail:
                    self.finalisation(k, case, pre_tree, cnt, len(closes) + 1)
            rep.programs += 1
        finally:
            if mode == "fail-once":
                # the filesystem can never be closed any more; keep its __del__ from trying again
                # while a later case is being measured
                try:
                    k.fs._closed = True
                except Exception:
                    pass
            k.dispose()

    def paths(self, tree):
        tree = tree or []
        files = [e[1] for e in tree if e[0] == "F"]
        dirs = [e[1] for e in tree if e[0] == "D"]
        d = dirs[0] if dirs else "/"
        return {"file": files[0] if files else "f", "dir": d, "missing": "zz-missing", "root": "/",
                "deep": (d.rstrip("/") + "/zz-new/x") if d != "/" else "zz-new/x"}

    def after_close(self, k, case, paths, pre_tree):
        rep = self.rep
        f = k.fs
        cls = type(f).__name__
        s0 = k.storage() if k.storage else None
        unmapped = []
        for name in R.public_names(f):
            if name in ("close", "clean"):
                continue
            kindm = self.table.kind(name)
            if kindm == "none":
                unmapped.append(name)
            try:
                if kindm == "opener":
                    vs = R.arg_variants(f, name, paths, ["r", "w", "rb", "a"], limit=self.limit, rng=self.rng)
                else:
                    vs = R.arg_variants(f, name, paths, ["r"], limit=self.limit, rng=self.rng)
            except R.Skip as e:
                rep.count("unsynthesisable/" + name)
                if kindm != "helper":
                    self.viol(dict(case, method=name), "cannot synthesise arguments for %s: %s" % (name, e), False,
                              "C18/reflection/%s" % name)
                continue
            row = self.table.row(cls, name)
            for kw in vs:
                rep.evaluations += 1

                def go():
                    attr = getattr(f, name)
                    if R.is_property(f, name) and not callable(attr):
                        return attr
                    return R.drain(attr(**R.materialise_kw(kw)))
                o = R.outcome(go)
                rep.count("%s/%s" % (kindm, o[1] if o[0] == "err" else "answers"))
                rep.nontrivial(k.kind, name, repr(sorted(kw.items())), o[0], o[1] if o[0] == "err" else "")
                c2 = dict(case, method=name, kwargs=kw, outcome=list(o[:2]) if o[0] == "err" else ["ok", repr(o[1])[:80]])
                if kindm != "helper" and not is_closed_err(o):
                    self.viol(c2, "%s: %s.%s(%s) after close() gave %s instead of FilesystemClosed"
                              % (k.kind, cls, name, kw, (o[:2] if o[0] == "err" else ("ok", repr(o[1])[:60]))), True,
                              "C18/%s/%s/answers-after-close" % (cls, name))
                if row is not None and "absent" not in row:
                    rep.disagreements_checked += 1
                    # "guarded" = FilesystemClosed before any access to instance state; an argument
                    # check (ValueError / TypeError) may still come first
                    if row["guard"] == "guarded" and not is_closed_err(o) and not (o[0] == "err" and o[1] in ("ValueError", "TypeError")):
                        self.viol(c2, "table says %s.%s is guarded, after close() it gave %s" % (cls, name, o[:2]), False,
                                  "C18/table/%s/%s" % (cls, name))
                elif row is not None and "absent" in row:
                    self.viol(c2, "public name %s.%s is not in the generated guard table" % (cls, name), False,
                              "C18/table-missing/%s/%s" % (cls, name))
                # helper objects: what they hand back must not yield stored data either
                if o[0] == "ok" and name in ("walk", "glob"):
                    self.helper_object(k, c2, name, o[1])
        if unmapped:
            self.viol(dict(case, unclassified=unmapped), "public methods without a classification in FsModel/Guard.lean: %s"
                      % unmapped, False, "C18/reflection/unclassified")
        if k.storage and k.storage() != s0:
            self.viol(case, "%s: calls after close() changed the underlying storage" % k.kind, True,
                      "C18/%s/storage-changed-by-calls" % cls)

    def helper_object(self, k, case, name, obj):
        probes = []
        if name == "walk":
            probes = [("walk.files", lambda: list(obj.files())), ("walk.dirs", lambda: list(obj.dirs())),
                      ("walk.info", lambda: list(obj.info())), ("walk()", lambda: list(obj()))]
        elif type(obj).__name__ == "Globber":
            probes = [("glob.count", lambda: obj.count()), ("glob.iter", lambda: list(obj)), ("glob.remove", lambda: obj.remove())]
        for label, fn in probes:
            self.rep.evaluations += 1
            o = R.outcome(fn)
            if o[0] == "ok" and o[1] not in ([], 0) and not (hasattr(o[1], "files") and o[1].files + o[1].directories == 0):
                self.viol(dict(case, probe=label), "%s: %s on a closed filesystem returned %r" % (k.kind, label, o[1]), True,
                          "C18/%s/%s/answers-after-close" % (type(k.fs).__name__, label))

    def finalisation(self, k, case, pre_tree, cnt, n_closes):
        rep = self.rep
        kind = k.kind
        f = k.fs
        if kind in ARCH_W:
            m = parse_kv(self.drv.batch(["arch.run " + "0" * n_closes])[0])
            rep.disagreements_checked += 1
            if cnt.completed != 1 or cnt.calls != 1:
                self.viol(case, "%s: archive writer ran %d times (%d completed) over %d close() calls" % (kind, cnt.calls, cnt.completed, n_closes),
                          True, "C18/%s/archive-writes" % type(f).__name__)
            if str(cnt.completed) != m["writes"] or str(cnt.calls) != m["attempts"]:
                self.viol(case, "finalisation model says writes=%s attempts=%s, code did %d/%d" % (m["writes"], m["attempts"], cnt.completed, cnt.calls),
                          False, "C18/model/arch.run")
            from fs.zipfs import ZipFS
            from fs.tarfs import TarFS
            o = R.outcome(lambda: H.snapshot((ZipFS if k.info["zip"] else TarFS)(k.info["archive"])))
            if o[0] != "ok" or o[1] is None or H.canon_tree(o[1]) != H.canon_tree(pre_tree or []):
                self.viol(dict(case, reopened=repr(o[1])[:200], expected=repr(pre_tree)[:200]),
                          "%s: the written archive does not re-open to the tree before close()" % kind, True,
                          "C18/%s/archive-content" % type(f).__name__)
            t = k.info["temp_fs"]
            if not t.isclosed():
                self.viol(case, "%s: the temporary filesystem is still open after close()" % kind, True, "C18/archive/temp-open")
            td = getattr(t, "_temp_dir", None)
            if td and os.path.exists(td):
                self.viol(case, "%s: the temporary directory %s survives close()" % (kind, td), True, "C18/archive/temp-dir")
        if kind in ("temp", "temp-noclean", "temp-strict"):
            m = parse_kv(self.drv.batch(["temp.close %d" % (1 if k.info["auto_clean"] else 0)])[0])
            exists = os.path.isdir(k.info["temp_dir"])
            rep.disagreements_checked += 1
            if exists != (m["dir"] == "1"):
                self.viol(case, "TempFS model says directory exists=%s, it is %s" % (m["dir"], exists), False, "C18/model/temp.close")
            if exists == k.info["auto_clean"]:
                self.viol(case, "%s: temporary directory exists=%s after close() with auto_clean=%s" % (kind, exists, k.info["auto_clean"]),
                          True, "C18/TempFS/auto_clean")
            if not k.info["auto_clean"]:
                R.outcome(f.clean)
                if os.path.isdir(k.info["temp_dir"]):
                    self.viol(case, "temp-noclean: clean() did not remove the directory", True, "C18/TempFS/clean")
        if "members" in k.info:
            m = parse_kv(self.drv.batch(["comp.close %d %d" % (1 if k.info["auto_close"] else 0, len(k.info["members"]))])[0])
            closed = [mf.isclosed() for mf in k.info["members"]]
            rep.disagreements_checked += 1
            if ["1" if c else "0" for c in closed] != m["members"].split(","):
                self.viol(case, "composite model says members closed=%s, they are %s" % (m["members"], closed), False, "C18/model/comp.close")
            if any(c != k.info["auto_close"] for c in closed):
                self.viol(case, "%s: members closed=%s with auto_close=%s" % (kind, closed, k.info["auto_close"]), True,
                          "C18/%s/auto_close" % type(f).__name__)
        if "closing" in k.info:
            m = parse_kv(self.drv.batch(["sub.close %d" % (1 if k.info["closing"] else 0)])[0])
            pc = k.info["parent"].isclosed()
            rep.disagreements_checked += 1
            if pc != (m["parent"] == "1"):
                self.viol(case, "view model says parent closed=%s, it is %s" % (m["parent"], pc), False, "C18/model/sub.close")
            if pc != k.info["closing"]:
                self.viol(case, "%s: parent closed=%s" % (kind, pc), True, "C18/%s/parent" % type(f).__name__)

    def failed_close(self, k, case, closes, cnt):
        """the archive writer raised during the first close()"""
        rep = self.rep
        f = k.fs
        m = parse_kv(self.drv.batch(["arch.run 1" + "0" * (len(closes) - 1)])[0])
        names = ["ok" if c[0] == "ok" else ("writeError" if c[1] in ("OSError", "IOError") else c[1]) for c in closes]
        rep.disagreements_checked += 1
        obs = {"closed": "1" if f.isclosed() else "0", "temp": "1" if k.info["temp_fs"].isclosed() else "0",
               "writes": str(cnt.completed), "attempts": str(cnt.calls), "outs": ",".join(names)}
        if obs != m:
            self.viol(dict(case, observed=obs, model=m), "archive finalisation model disagrees with the code after a failed write: "
                      "model %s, code %s" % (m, obs), False, "C18/model/arch.run-failed")
        # the property: close() may be called any number of times, and one complete archive is written
        bad = [n for n in names[1:] if n != "ok"]
        if bad or not f.isclosed():
            self.viol(dict(case, observed=obs), "%s: after the archive write failed once, later close() calls give %s, isclosed()=%s, "
                      "archives written: %d" % (k.kind, names[1:], f.isclosed(), cnt.completed), True,
                      "C18/known/archive-close-after-failed-write")


def wrap_step_correspondence(rep, drv, rng, n):
    """closed delegating wrappers against the model's Wrap.step on reference operations"""
    from fs.memoryfs import MemoryFS
    from fs.wrapfs import WrapFS
    from fs.wrap import read_only, cache_directory
    makers = {"WrapFS": lambda m: WrapFS(m), "SubFS": lambda m: m.opendir("/"), "WrapReadOnly": read_only,
              "WrapCachedDir": cache_directory}
    jobs = []
    tree = [("D", "a"), ("F", "a/x", b"1"), ("F", "b", b"2")]
    for cls, mk in makers.items():
        for _ in range(n):
            op = H.gen_op(rng, tree, ["a", "b", "c"])
            m = MemoryFS()
            for e in tree:
                (m.makedirs(e[1], recreate=True) if e[0] == "D" else m.writebytes(e[1], e[2]))
            w = mk(m)
            w.close()
            impl = H.apply_op(w, op)
            post = H.snapshot(m)
            m.close()
            jobs.append((cls, op, impl, post))
    reqs = []
    for cls, op, impl, post in jobs:
        a = H.op_request(op, False, H.enc_tree(tree)).split(" ", 3)
        reqs.append("wrap.step %s 1 0 %s %s" % (cls, a[2], a[3]))
    for (cls, op, impl, post), line in zip(jobs, drv.batch(reqs)):
        parts = [p.strip() for p in line.split(" | ")]
        mout, mtree = parts[0], parts[1]
        rep.evaluations += 1
        rep.disagreements_checked += 1
        rep.nontrivial("wrap.step", cls, op)
        case = {"class": cls, "op": H.op_json(op), "impl": list(impl[:2]), "model": mout}
        model_closed = mout == "err FilesystemClosed"
        impl_closed = impl[:2] == ("err", "FilesystemClosed")
        if model_closed != impl_closed and len(rep.violations) < 40:
            rep.violation(case, "closed %s, %s%r: model %s, code %s" % (cls, op[0], op[1:], mout, impl[:2]),
                          found_input=not impl_closed, signature="C18/wrap.step/%s/%s" % (cls, op[0]))
        if post is None or H.canon_tree(post) != H.canon_tree(tree):
            if len(rep.violations) < 40:
                rep.violation(case, "closed %s, %s%r changed the wrapped filesystem" % (cls, op[0], op[1:]), found_input=True,
                              signature="C18/%s/%s/answers-after-close" % (cls, op[0]))
    return len(jobs)


def member_close_raises(rep):
    """close() raising midway: a member filesystem of a composite fails to close.  After that
    first close() no call may read or change stored data any more."""
    from fs.memoryfs import MemoryFS
    from fs.mountfs import MountFS
    from fs.multifs import MultiFS

    class FailingClose(MemoryFS):
        def close(self):
            if not getattr(self, "_failed_once", False):
                self._failed_once = True
                raise OSError("disk full while finalising")
            return super(FailingClose, self).close()

    calls = [("exists", ("a",)), ("isdir", ("d",)), ("listdir", ("/",)), ("getinfo", ("a",)), ("readbytes", ("a",)),
             ("writebytes", ("new", b"x")), ("makedir", ("newdir",)), ("remove", ("a",)), ("writetext", ("t", u"x")),
             ("appendbytes", ("a", b"y")), ("scandir", ("/",)), ("opendir", ("d",))]
    for comp in ("multi-bad-first", "multi-bad-last", "mount-bad-first", "mount-bad-last"):
        for how in ("close", "with"):
            bad, good = FailingClose(), MemoryFS()
            for m in (bad, good):
                m.writebytes("a", b"data")
                m.makedir("d")
            if comp.startswith("multi"):
                c = MultiFS(auto_close=True)
                order = [("bad", bad), ("good", good)] if comp.endswith("first") else [("good", good), ("bad", bad)]
                for i, (n, m) in enumerate(order):
                    c.add_fs(n, m, write=(n == "good"), priority=10 - i)
            else:
                c = MountFS(auto_close=True)
                order = [("p", bad), ("q", good)] if comp.endswith("first") else [("q", good), ("p", bad)]
                for n, m in order:
                    c.mount(n, m)
            pre = H.snapshot(good) if not good.isclosed() else None

            def do_close():
                if how == "with":
                    with c:
                        pass
                else:
                    c.close()
            first = R.outcome(do_close)
            rep.evaluations += 1
            rep.nontrivial("member-close-raises", comp, how)
            rep.count("member-close-raises/%s" % ("raised" if first[0] == "err" else "returned"))
            leaks = []
            for name, args in calls:
                p = args[0] if comp.startswith("multi") else ("q/" + args[0].lstrip("/") if args[0] != "/" else "q")
                a = (p,) + tuple(args[1:])
                o = R.outcome(lambda: (list(getattr(c, name)(*a)) if name == "scandir" else getattr(c, name)(*a)))
                rep.evaluations += 1
                if not (o[0] == "err" and o[1] == "FilesystemClosed"):
                    leaks.append("%s%r -> %s" % (name, a, o[:2]))
            changed = (not good.isclosed()) and pre is not None and H.snapshot(good) != pre
            if leaks or changed:
                rep.violation({"composite": comp, "how": how, "first_close": list(first[:2]), "leaks": leaks, "member_changed": changed},
                              "%s(auto_close=True) whose member's close() raised (%s via %s): afterwards %s%s" % (
                                  "MultiFS" if comp.startswith("multi") else "MountFS", first[:2], how,
                                  "; ".join(leaks[:4]) or "no call answered", " — and a member's data changed" if changed else ""),
                              found_input=True, signature="C18/%s/member-close-raises" % ("MultiFS" if comp.startswith("multi") else "MountFS"))
            for m in (bad, good, c):
                try:
                    m.close()
                except Exception:
                    pass


def run(rep, tier, seed, deep=False):
    drv = vlib.Driver()
    rng = vlib.rng_for(seed, "c18")
    quick = tier == "quick"
    table = R.Table(drv)
    limit = 4 if quick else 14
    n_ops = 8 if quick else 25
    reps = 1 if quick else 12
    if deep:
        limit *= 3
        reps *= 2
    rep.rule = ("every kind in %s x close mode in %s (+ archive write failing once for write-mode archives), %d run(s) each after a "
                "seeded tree and %d random prior operations; then every public name of dir(obj) x up to %d argument combinations "
                "must raise FilesystemClosed (allow-list = `Guard.helpers`); storage snapshot before/after; archive re-opened and "
                "compared; write_zip/write_tar calls counted; TempFS directory / member / parent closed flags compared with the "
                "finalisation machines of the model" % (KINDS, MODES, reps, n_ops, limit))
    rep.assumptions = [
        "iterators obtained *before* close() and advanced afterwards are not explored",
        "garbage-collection-driven close (__del__) is not explored (timing is the interpreter's)",
        "the archive write is made to fail by replacing fs.zipfs.write_zip / fs.tarfs.write_tar (the names close() calls)",
        "FTPFS is not explored",
    ]
    os.makedirs(H.SCRATCH_ROOT, exist_ok=True)
    with open(os.path.join(H.SCRATCH_ROOT, ".alive"), "w") as fh:
        fh.write("c18\n")
    try:
        runner = Run(rep, drv, table, rng, limit, n_ops)
        for kind in KINDS:
            for mode in MODES + (["fail-once"] if kind in ARCH_W else []):
                for _ in range(reps):
                    runner.one(kind, mode)
        member_close_raises(rep)
        n = wrap_step_correspondence(rep, drv, rng, 40 if quick else 1500)
        rep.extra["wrap_step_cases"] = n
        rep.extra["table_rows"] = len(table.rows)
        rep.sample({"kind": "sub(mem)", "close_mode": "explicit", "method": "move", "kwargs": {"src_path": "f", "dst_path": "zz"}})
        rep.sample({"kind": "zip-w-temp", "close_mode": "fail-once"})
    finally:
        H.cleanup_scratch()


def replay(rep, case):
    c = case["case"]
    rep.tier = "replay"            # do not overwrite the replay file being replayed
    os.makedirs(H.SCRATCH_ROOT, exist_ok=True)
    open(os.path.join(H.SCRATCH_ROOT, ".alive"), "w").close()
    drv = vlib.Driver()
    if "kind" not in c:
        print("nothing to re-execute in this replay (it names a theorem / table row):", c)
        return 1
    table = R.Table(drv)
    runner = Run(rep, drv, table, vlib.rng_for(0, "replay"), 6, 0)
    k = build(c["kind"])
    try:
        f = k.fs
        for op in c.get("history", []):
            H.apply_op(f, H.fix_op_bytes(op))
        mode = c.get("close_mode", "explicit")
        if mode == "fail-once":
            with Counter(fail_first=True) as cnt:
                closes = [R.outcome(f.close), R.outcome(f.close), R.outcome(f.close)]
                runner.failed_close(k, dict(c), closes, cnt)
            print("close outcomes:", [x[:2] for x in closes], "isclosed:", f.isclosed())
        else:
            f.close()
            if "method" in c:
                name, kw = c["method"], c.get("kwargs", {})
                s0 = k.storage() if k.storage else None
                o = R.outcome(lambda: R.drain(getattr(f, name)(**R.materialise_kw(kw))))
                print("after close: %s(%s) ->" % (name, kw), o[:2] if o[0] == "err" else ("ok", repr(o[1])[:100]))
                if k.storage:
                    print("storage changed:", k.storage() != s0)
                if table.kind(name) != "helper" and not is_closed_err(o):
                    rep.violation(c, "replayed: %s after close gave %s" % (name, o[:2]), found_input=True,
                                  signature="C18/%s/%s/answers-after-close" % (type(f).__name__, name))
    finally:
        k.dispose()
        H.cleanup_scratch()
    return 1 if rep.violations else 0
