"""Shared by the checks whose model has a part regenerated from the source by a translator
(harness/extract/puregen.py, permgen.py): what the translator did on this run goes into the evidence, and
every refusal / new function becomes one *deferred* broken obligation `<Tag>.translate(<function>)` - printed as
`VIOLATION ... no-failing-input-found` only when the check's failing-input search found nothing (DESIGN §1).
"""
from __future__ import annotations

import json
import os

import vlib


def report(rep, prop, tag, eq_module, hand):
    path = os.path.join(vlib.LEAN, "FsModel", "Generated", "%s.status.json" % tag)
    key = tag.lower()
    try:
        with open(path) as fh:
            st = json.load(fh)
    except (OSError, ValueError) as ex:
        rep.extra.setdefault("translators", {})[key] = {"status": "missing", "error": str(ex)}
        rep.violation({"broken_obligation": "%s.translate(<module>)" % tag, "error": str(ex)},
                      "%s.translate(<module>): the translator left no status file (%s)" % (tag, ex),
                      found_input=False, signature="%s/%s.translate(<module>)" % (prop, tag))
        return
    rep.extra.setdefault("translators", {})[key] = {
        "source": st.get("source"),
        "translated": st.get("translated", []),
        "out_of_scope": st.get("out_of_scope", []),
        "refused": [r["obligation"] + ": " + r["message"] for r in st.get("refused", [])],
        "new_functions_without_hand_model": st.get("new_functions", []),
        "vanished_functions": st.get("vanished_functions", []),
        "equality_module": eq_module,
    }
    for r in st.get("refused", []):
        rep.violation({"broken_obligation": r["obligation"], "function": r["function"], "node": r["node"],
                       "message": r["message"]},
                      "%s: the source-to-Lean translator refused (%s); the equality theorems of %s no longer build, "
                      "the correspondence and the oracles found no failing input" % (r["obligation"], r["message"], eq_module),
                      found_input=False, signature="%s/%s" % (prop, r["obligation"]))
    for n in st.get("new_functions", []):
        rep.violation({"broken_obligation": "%s.coverage" % tag, "function": n},
                      "%s has a top-level name `%s` with no counterpart in the hand model %s (no equality theorem)"
                      % (st.get("source"), n, hand),
                      found_input=False, signature="%s/%s.coverage/%s" % (prop, tag, n))
