"""Shared driver for the history-based properties: generate histories on real backends,
ask the Lean reference model about every step, and hand each step to a property judge."""
from __future__ import annotations

import vlib
import fsharness as H

WRITABLE = ["mem", "os", "sub-mem", "sub-os", "wrap-mem", "mount", "mount-root", "multi", "zip-w", "tar-w", "temp"]

MOUNT_POINTS = {"mount": [["m1"], ["m2", "deep"]], "mount-root": [[]], "mount-nested": [["p", "q"], ["p"]]}


def _comps(p):
    import fs.path as P

    try:
        return [c for c in P.normpath(p).split("/") if c]
    except Exception:
        return None


def steer(kind, op):
    """False when the op falls into a class that is outside the reference contract for this
    backend (mount points cannot be removed or moved; they are fixtures of the composition)."""
    mps = MOUNT_POINTS.get(kind)
    if not mps:
        return True
    name = op[0]
    if name in ("remove", "removedir", "removetree", "move", "movedir"):
        cs = _comps(op[1])
        if cs is None:
            return True
        for mp in mps:
            if mp and mp[: len(cs)] == cs:  # the path is a mount point or an ancestor of one
                return False
    return True


def collect(kinds, n_hist, n_ops, rng, gen=H.gen_op, names=H.NAMES):
    steps = []
    hid = 0
    for kind in kinds:
        def g(r, snap, nm, _kind=kind):
            for _ in range(50):
                op = gen(r, snap, nm)
                if steer(_kind, op):
                    return op
            return ("exists", "a")

        # next to a mount point, names that merely share its characters (component- vs string-prefix)
        knames = names + ["m1x", "m", "m2x"] if kind == "mount" else names
        for _ in range(n_hist):
            steps += H.run_history(kind, rng, n_ops, hid, names=knames, gen=g)
            hid += 1
    return steps


def with_model(drv, steps):
    return list(zip(steps, H.model_replies(drv, steps)))


def exhaustive_small_ops(names=("a", "b")):
    """every op over the paths {"", a, b, a/a, a/b, b/a} with every flag"""
    paths = ["", "a", "b", "a/a", "a/b", "b/a"]
    ops = []
    for p in paths:
        for q in H.QUERIES + ["touch", "settimes", "remove", "removedir", "removetree"]:
            ops.append((q, p))
        for f in (False, True):
            ops.append(("makedir", p, f))
            ops.append(("makedirs", p, f))
            ops.append(("create", p, f))
        ops.append(("writebytes", p, b"new"))
        ops.append(("appendbytes", p, b"+"))
        for m in ("r", "w", "a", "x", "r+", "zz"):
            ops.append(("openbin", p, m))
        for d in paths:
            for f in (False, True):
                for n in H.MUT2:
                    ops.append((n, p, d, f))
    return ops


def small_trees():
    """all trees with <= 3 nodes over names {a, b} (files hold their own name as content)"""
    out = [[]]
    one = [[("D", "a")], [("F", "a", b"a")]]
    out += one
    two = []
    for k1 in ("D", "F"):
        for k2 in ("D", "F"):
            e1 = ("D", "a") if k1 == "D" else ("F", "a", b"a")
            e2 = ("D", "b") if k2 == "D" else ("F", "b", b"b")
            two.append([e1, e2])
    for k in ("D", "F"):
        e = ("D", "a/a") if k == "D" else ("F", "a/a", b"aa")
        two.append([("D", "a"), e])
        e = ("D", "a/b") if k == "D" else ("F", "a/b", b"ab")
        two.append([("D", "a"), e])
    out += two
    three = []
    for t in two:
        if t[0] == ("D", "a") and t[1][1] in ("a/a", "a/b"):
            three.append(t + [("F", "b", b"b")])
            three.append(t + [("D", "b")])
            if t[1][0] == "D":
                three.append(t + [("F", t[1][1] + "/a", b"deep")])
            other = "a/b" if t[1][1] == "a/a" else "a/a"
            three.append(t + [("F", other, b"o")])
        elif t[0][0] == "D" and t[1][0] == "D":
            three.append(t + [("F", "b/a", b"ba")])
    out += three
    return out


def exhaustive_steps(kind, trees, ops, limit=None):
    """apply every op to a fresh backend holding each tree"""
    steps = []
    hid = 10 ** 6
    for t in trees:
        for op in ops:
            if limit is not None and len(steps) >= limit:
                return steps
            if not steer(kind, op):
                continue
            b = H.build_state(kind, t)
            try:
                pre = H.snapshot(b.fs)
                impl = H.apply_op(b.fs, op, keep_order=True)
                post = H.snapshot(b.fs)
                steps.append(H.Step(kind, pre, op, impl, post, hid, 0))
            finally:
                b.close()
            hid += 1
    return steps


def known_class(s):
    """name of the open-known-finding class a step falls into, or None (see known_findings.json)"""
    op = s.op
    if op[0] == "movedir":
        a, d = _comps(op[1]), _comps(op[2])
        if a is not None and d is not None and len(d) < len(a) and a[: len(d)] == d:
            # destination is a proper ancestor of the source ...
            top = a[len(d)]
            src = "/".join(a)
            for e in s.pre:
                # ... and the source directory holds an entry named like its own top component
                if e[1] == src + "/" + top:
                    return "movedir-dst-ancestor-of-src-name-clash"
    return None
