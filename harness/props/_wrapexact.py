"""Exact correspondence for the functor model of WrapFS / SubFS (lean/FsModel/Wrap.lean).

The real `SubFS` (at `x/y` of a MemoryFS, as `fsharness.make_backend("sub-mem")` builds it) and
the real `WrapFS(MemoryFS)` are compared with `wrapm.step` (= `Wrap.step` over `Mem.step`)
EXACTLY: error class, listing order, and the resulting tree of the PARENT MemoryFS — everything
outside the sub-directory included, in the parent's own entry order.

`fsharness.Step` only records the view's tree, so every step is re-executed here on a fresh
backend of the same kind that holds the same view tree, with the parent snapshotted before and
after the call (`WStep`).  Besides the steps handed in by c01 a small directed corpus is run:
closed wrappers (every op must raise FilesystemClosed and leave the parent alone),
`ClosingSubFS.close`, `removetree("/")`, `getinfo("/")`, climbing paths, NUL paths (refused like the
reference does since the repair of `SubFS.delegate_path`: `sub_nul_path_repaired`), and the decided
exception classes of `FsProofs/WrapRefines.lean` (`nulRootTest`, `openbin` bad mode + invalid path,
`copydir` into itself).

Verdicts.  A model/code disagreement is `found_input=False` (broken correspondence: the
Ref-level judge of c01 has already looked at the same step; if it fired, the deferred report is
listed as explained by that replay).  Two property oracles that need no model run on every
re-executed step and are `found_input=True`: (frame) nothing outside the sub-directory of the
parent changes, whatever the path argument; (closed) a closed wrapper raises FilesystemClosed and
changes nothing.
"""
from __future__ import annotations

import vlib
import fsharness as H

SUB_PATH = "x/y"          # where make_backend("sub-mem") opens its SubFS
KINDS = {"sub-mem": "sub", "wrap-mem": "wrap"}
# `copy_dir` creates the directory structure first and the files afterwards; FsModel.Mem models it as
# a tree-level merge in source entry order, so the ENTRY ORDER after a bulk directory copy is not
# modelled: for these two operations the parent trees are compared as sets of entries
BULK_DIR = ("copydir", "movedir")


class WStep:
    """one re-executed call with the parent's trees around it"""
    __slots__ = ("kind", "mkind", "view_pre", "op", "closed", "impl", "parent_pre", "parent_post",
                 "wclosed_post", "pclosed_post", "view_post", "directed")

    def __init__(self, kind, mkind, view_pre, op, closed, directed=False):
        self.kind, self.mkind, self.view_pre, self.op, self.closed = kind, mkind, view_pre, op, closed
        self.directed = directed
        self.impl = self.parent_pre = self.parent_post = self.view_post = None
        self.wclosed_post = self.pclosed_post = None


def _make(kind, mkind):
    """(backend, parent MemoryFS) — `csub` is a ClosingSubFS at the same place as sub-mem"""
    if mkind == "csub":
        from fs.memoryfs import MemoryFS
        from fs.subfs import ClosingSubFS

        m = MemoryFS()
        m.makedirs(SUB_PATH)
        m.writebytes("outside", b"canary")
        return H.Backend("sub-mem", m.opendir(SUB_PATH, factory=ClosingSubFS), inner=[m]), m
    b = H.make_backend(kind)
    return b, b.inner[0]


def execute(ws):
    """re-execute one step on a fresh backend holding `ws.view_pre`; fills the parent trees"""
    b, parent = _make(ws.kind, ws.mkind)
    try:
        for e in ws.view_pre:
            if e[0] == "D":
                b.fs.makedirs(e[1], recreate=True)
            else:
                b.fs.writebytes(e[1], e[2])
        if ws.closed:
            # close the wrapper only (FS.close of a WrapFS/SubFS does not touch the parent)
            from fs.base import FS

            FS.close(b.fs)
        ws.parent_pre = H.snapshot(parent)
        ws.impl = H.apply_op(b.fs, ws.op, keep_order=True)
        ws.wclosed_post = bool(b.fs.isclosed())
        ws.view_post = None if ws.wclosed_post else H.snapshot(b.fs)
        ws.pclosed_post = bool(parent.isclosed())
        # a closed MemoryFS has dropped its tree (`MemoryFS.close` sets `root = None`): unobservable
        ws.parent_post = None if ws.pclosed_post else H.snapshot(parent)
    finally:
        b.close()
    return ws


def request(ws):
    a = [ws.op[0]]
    for x in ws.op[1:]:
        if isinstance(x, bool):
            a.append("1" if x else "0")
        else:
            a.append(vlib.hx(x))
    return "wrapm.step %s %s %s %s %s" % (ws.mkind, vlib.hx(SUB_PATH), "1" if ws.closed else "0",
                                          H.enc_tree(ws.parent_pre), " ".join(a))


def parse(line):
    parts = [p.strip() for p in line.split(" | ")]
    out = parts[0]
    res = ("ok", out[3:]) if out.startswith("ok ") else ("err", out[4:])
    return res, parts[1], parts[2] == "1", parts[3] == "1"


def _outside(snap, mkind):
    """the part of the parent tree a SubFS at SUB_PATH must never touch"""
    if snap is None:
        return None
    if mkind == "wrap":
        return []
    pre = SUB_PATH + "/"
    anc = set()
    cs = SUB_PATH.split("/")
    for i in range(1, len(cs) + 1):
        anc.add("/".join(cs[:i]))
    return [e for e in snap if not e[1].startswith(pre) and e[1] not in anc] + \
           [("D", a) for a in sorted(anc) if ("D", a) in snap]


def _case(ws, model=None):
    tj = lambda t: None if t is None else [[e[0], e[1]] + ([e[2].decode("latin-1")] if e[0] == "F" else []) for e in t]  # noqa
    return {
        "backend": ws.kind, "wrapm_kind": ws.mkind, "sub_path": SUB_PATH, "wrapper_closed": ws.closed,
        "pre_tree": tj(ws.view_pre), "op": H.op_json(ws.op),
        "parent_pre_tree": tj(ws.parent_pre), "parent_post_tree": tj(ws.parent_post),
        "impl": [ws.impl[0], ws.impl[1]], "model": model,
    }


def oracle(rep, ws):
    """property predicates on the real code only (no model)"""
    if ws.parent_pre is None:
        return
    if ws.op[0] == "close":
        return
    # frame: whatever the path, nothing outside the sub-directory changes
    if ws.mkind != "wrap" and ws.parent_post is not None:
        if _outside(ws.parent_pre, ws.mkind) != _outside(ws.parent_post, ws.mkind):
            rep.violation(_case(ws), "SubFS(%s).%s%r changed the parent OUTSIDE its sub-directory: %r -> %r"
                          % (SUB_PATH, ws.op[0], ws.op[1:], [e[:2] for e in ws.parent_pre][:10],
                             [e[:2] for e in (ws.parent_post or [])][:10]),
                          found_input=True, signature="C01/sub-frame/%s" % ws.op[0])
    if ws.closed:
        if ws.impl[:2] != ("err", "FilesystemClosed") or ws.parent_post != ws.parent_pre:
            rep.violation(_case(ws), "closed %s: %s%r -> %r (parent changed: %s); a closed wrapper must raise "
                          "FilesystemClosed and leave the wrapped filesystem alone"
                          % (ws.kind, ws.op[0], ws.op[1:], ws.impl[:2], ws.parent_post != ws.parent_pre),
                          found_input=True, signature="C01/wrap-closed/%s" % ws.op[0])


def compare(rep, ws, reply):
    (mout, mtree, mwclosed, mpclosed) = reply
    rep.count("wrap-exact/%s" % ws.mkind)
    rep.count("wrap-exact/%s/%s:%s" % (ws.mkind, ws.op[0], ws.impl[0]))
    if mout == ("err", "OperationFailed"):
        rep.count("wrap-exact/loose")
        return  # bulk operation fails mid-way: partial state not modelled (as for mem-exact)
    impl = tuple(ws.impl[:2])
    why = None
    if impl != tuple(mout):
        why = "outcome: real %s, model %s" % (impl, mout)
    elif ws.pclosed_post and mpclosed:
        pass   # ClosingSubFS.close closed the parent: its tree is gone, only the flags are compared
    elif ws.parent_post is None:
        why = "parent tree cannot be snapshotted after the call"
    elif (H.canon_tree(ws.parent_post) != H.canon_tree(H.dec_tree(mtree)) if ws.op[0] in BULK_DIR
          else H.enc_tree(ws.parent_post) != mtree):
        why = "PARENT tree/order: real %r, model %r" % ([e[:2] for e in ws.parent_post][:12],
                                                         [e[:2] for e in H.dec_tree(mtree)][:12])
    if why is None and (ws.wclosed_post, ws.pclosed_post) != (mwclosed, mpclosed):
        why = "closed flags (wrapper, parent): real %r, model %r" % ((ws.wclosed_post, ws.pclosed_post),
                                                                      (mwclosed, mpclosed))
    if why:
        rep.disagreements_checked += 1
        rep.violation(_case(ws, model=[list(mout), mtree]),
                      "correspondence FsModel.Wrap (transcription of fs/wrapfs.py + fs/subfs.py over FsModel.Mem) vs "
                      "the real %s.%s%r (wrapper closed=%s) from view tree %r broke — %s"
                      % ({"sub": "SubFS(MemoryFS,'x/y')", "csub": "ClosingSubFS(MemoryFS,'x/y')",
                          "wrap": "WrapFS(MemoryFS)"}[ws.mkind], ws.op[0], ws.op[1:], ws.closed,
                         [e[:2] for e in ws.view_pre][:10], why),
                      found_input=False, signature="C01/wrap-exact/%s/%s" % (ws.mkind, ws.op[0]))


# ----------------------------------------------------------------------------- directed corpus

_T = [("D", "a"), ("F", "a/f", b"af"), ("D", "a/d"), ("F", "a/d/g", b"g"), ("F", "b", b"bb"), ("D", "e")]

_DIRECTED_OPS = [
    ("getinfo", "/"), ("getinfo", ""), ("getinfo", "a/.."), ("getinfo", "a"), ("getinfo", "b"),
    ("listdir", "/"), ("isempty", "/"), ("isempty", "e"), ("isempty", "b"), ("isempty", "zz"),
    ("removetree", "/"), ("removetree", ""), ("removetree", "a/.."), ("removetree", "a"), ("removetree", "b"),
    ("removedir", "/"), ("removedir", "e"), ("removedir", "a"), ("removedir", ".."),
    ("remove", "/"), ("makedir", "/", False), ("makedir", "/", True), ("makedirs", "/", True),
    ("makedirs", "p/q/r", False), ("writebytes", "/", b"x"), ("openbin", "/", "w"), ("create", "", True),
    # climbing: rejected before the parent is touched
    ("exists", ".."), ("listdir", "../.."), ("readbytes", "../../outside"), ("writebytes", "../../outside", b"X"),
    ("remove", "../../outside"), ("removetree", ".."), ("removetree", "a/../.."), ("makedirs", "../z", True),
    ("move", "b", "../b", True), ("move", "../../outside", "o", True), ("copy", "b", "../../stolen", True),
    ("copy", "../../outside", "o", True), ("movedir", "a", "../a", True), ("copydir", "a", "../../a", True),
    ("copydir", "..", "z", True), ("movedir", "..", "z", True),
    # decided exception classes of WrapRefines
    ("exists", "z\x00/../b"), ("readbytes", "z\x00/../b"), ("writebytes", "z\x00/../n", b"n"),
    ("exists", "z\x00"), ("exists", "z\x00/../.."), ("move", "z\x00", "../x", False), ("copy", "..", "z\x00", False),
    ("removedir", "z\x00/../.."), ("removetree", "z\x00/../.."), ("removedir", "z\x00/.."), ("removetree", "z\x00/.."),
    ("remove", "z\x00/../b"), ("getinfo", "z\x00/.."), ("copy", "b", "z\x00/../n", True), ("openbin", "z\x00", "zz"),
    ("openbin", "../q", "zz"), ("openbin", "b", "zz"), ("openbin", "..", "r"),
    ("copydir", "a", "a/d/zz", False), ("copydir", "a", "a/d/zz", True), ("copydir", "nope", "nope/zz", False),
    ("copydir", "b", "b/zz", True), ("copydir", "a", "a", False), ("copydir", "a", "a/d", True),
    # copy / copydir / move / movedir through the wrapper's own pre-checks
    ("copy", "b", "a/f", False), ("copy", "b", "a/f", True), ("copy", "b", "b", True), ("copy", "b", "b", False),
    ("copy", "b", "/", True), ("copy", "b", "/", False), ("copy", "a", "n", True), ("copy", "zz", "n", False),
    ("copy", "b", "zz/n", True), ("copy", "b", "a", True), ("copy", "b", "n", False),
    ("copydir", "a", "e", False), ("copydir", "a", "n", False), ("copydir", "a", "n", True), ("copydir", "b", "e", False),
    ("copydir", "zz", "e", True), ("copydir", "a", "b", True), ("copydir", "a", "/", False), ("copydir", "/", "n", True),
    ("copydir", "a", "p/q", True), ("copydir", "a", "b/q", True), ("copydir", "e", "a", False),
    ("move", "b", "/", True), ("move", "b", "/", False), ("move", "b", "n", False), ("move", "/", "n", True),
    ("movedir", "a", "/", False), ("movedir", "a", "n", True), ("movedir", "a", "n", False), ("movedir", "/", "n", True),
    ("movedir", "a/d", "e", False), ("movedir", "e", "a/d", True), ("movedir", "a", "a/d/n", True),
    ("close",),
]

_CLOSED_OPS = [
    ("exists", "a"), ("isdir", "a"), ("isfile", "b"), ("listdir", "/"), ("getsize", "b"), ("gettype", "b"),
    ("isempty", "a"), ("getinfo", "/"), ("readbytes", "b"), ("makedir", "n", False), ("makedirs", "n/m", True),
    ("writebytes", "n", b"x"), ("appendbytes", "b", b"x"), ("create", "n", True), ("touch", "n"), ("settimes", "b"),
    ("openbin", "b", "r"), ("openbin", "n", "w"), ("remove", "b"), ("removedir", "e"), ("removetree", "a"),
    ("removetree", "/"), ("move", "b", "n", True), ("copy", "b", "n", True), ("movedir", "a", "n", True),
    ("copydir", "a", "n", True), ("exists", ".."), ("close",),
]


def directed():
    out = []
    for kind, mkind in (("sub-mem", "sub"), ("wrap-mem", "wrap"), ("sub-mem", "csub")):
        for op in _DIRECTED_OPS:
            if mkind == "csub" and op[0] not in ("close", "removetree", "getinfo"):
                continue
            out.append(WStep(kind, mkind, _T, op, False, directed=True))
        for op in _CLOSED_OPS:
            out.append(WStep(kind, mkind, _T, op, True, directed=True))
    return out


# ----------------------------------------------------------------------------- entry point


def judge_wrap_exact(rep, steps, drv, ref_judge=None):
    """`steps`: the fsharness.Step list of the c01 run; the sub-mem / wrap-mem ones are re-executed
    with parent snapshots and compared with `wrapm.step` exactly; then the directed corpus, which is
    also handed to the Ref-level judge of c01 (`ref_judge(rep, step, model_reply)`)."""
    todo = []
    for s in steps:
        mk = KINDS.get(s.kind)
        if mk is None or s.pre is None:
            continue
        todo.append(WStep(s.kind, mk, s.pre, s.op, False))
    todo += directed()
    done = []
    for ws in todo:
        execute(ws)
        if ws.parent_pre is None:
            continue
        oracle(rep, ws)
        done.append(ws)
    replies = [parse(r) for r in drv.batch([request(ws) for ws in done])]
    for ws, r in zip(done, replies):
        rep.evaluations += 1
        rep.nontrivial("wrap-exact", ws.mkind, ws.closed, ws.op, H.enc_tree(ws.parent_pre))
        compare(rep, ws, r)
    # the directed corpus against the reference itself (the property, on the view)
    if ref_judge is not None:
        dsteps = [H.Step(ws.kind, ws.view_pre, ws.op, ws.impl, ws.view_post, 2 * 10 ** 6 + i, 0)
                  for i, ws in enumerate(done)
                  if ws.directed and not ws.closed and ws.mkind != "csub" and ws.op[0] != "close"]
        for st, m in zip(dsteps, H.model_replies(drv, dsteps)):
            ref_judge(rep, st, m)
    return len(done)


def replay_case(rep, case, drv):
    """re-run one `wrap-exact` / oracle replay (cases written by this module carry `wrapm_kind`)"""
    pre = [tuple([e[0], e[1]] + ([e[2].encode("latin-1")] if e[0] == "F" else [])) for e in case["pre_tree"]]
    op = H.fix_op_bytes(tuple(case["op"]))
    ws = execute(WStep(case["backend"], case["wrapm_kind"], pre, op, bool(case.get("wrapper_closed"))))
    oracle(rep, ws)
    r = parse(drv.batch([request(ws)])[0])
    compare(rep, ws, r)
    print("impl:", ws.impl[:2], "model:", r[0])
    return ws, r
