"""C11 — equivalent spellings of a path are interchangeable everywhere.

Theorems: lean/FsProofs/C11.lean (Ref.step depends on a path only through its
normalisation; the rewrite steps used by the generator preserve normpath).
Oracle on the real code (metamorphic, needs no model): from identical states the same call
issued with different spellings of each path argument gives the same result / exception
class and the same resulting tree; the common outcome is also compared with Ref.step.
"""
from __future__ import annotations

import vlib
import fsharness as H
from props import _stateful as S
from props import _ftp as F

KINDS = ["mem", "os", "sub-mem", "sub-os", "wrap-mem", "mount", "mount-root", "multi", "zip-w", "temp"]


def spellings(rng, p, snap, k):
    """k spellings that normalise to the same absolute path as the clean relative path p"""
    comps = [c for c in p.split("/") if c]
    existing = [e[1].split("/")[-1] for e in snap] or ["q"]
    out = [p, "/" + p]
    base = "/".join(comps)

    def detour(name):
        i = rng.randint(0, len(comps))
        return "/".join(comps[:i] + [name, ".."] + comps[i:])

    cands = [
        base + "/" if base else "/",
        "./" + base,
        "/".join(comps[:1] + ["."] + comps[1:]) if comps else ".",
        base.replace("/", "//") if "/" in base else "//" + base,
        detour("zz-missing"),
        detour(rng.choice(existing)),
        "/" + base + "/.",
        "/./" + detour("x") + "/",
        base + "//",
    ]
    rng.shuffle(cands)
    for c in cands:
        if len(out) >= k:
            break
        if c not in out:
            out.append(c)
    return out


def clean_path(rng, snap):
    for _ in range(50):
        p = H.gen_path(rng, snap, ["a", "b", "c d"], spelling=False)
        if "\0" not in p and ".." not in p.split("/"):
            return "/".join(c for c in p.split("/") if c and c != ".")
    return "a"


def make_op(rng, name, snap):
    P = lambda: clean_path(rng, snap)  # noqa
    if name in ("makedir", "makedirs", "create"):
        return (name, P(), rng.random() < 0.5)
    if name in ("writebytes", "appendbytes"):
        return (name, P(), H.gen_bytes(rng))
    if name == "openbin":
        return (name, P(), rng.choice(["r", "w", "a", "x", "r+", "q"]))
    if name in H.MUT2:
        return (name, P(), P(), rng.random() < 0.5)
    return (name, P())


def norm(p):
    import fs.path as P

    return P.abspath(P.normpath(p))


def run_variant(kind, snap, op):
    b = H.build_state(kind, snap)
    try:
        impl = H.apply_op(b.fs, op)
        post = H.snapshot(b.fs)
    finally:
        b.close()
    return impl, post


QUERY_FUNCS = {
    "exists": lambda f, p: f.exists(p),
    "isdir": lambda f, p: f.isdir(p),
    "isfile": lambda f, p: f.isfile(p),
    "listdir": lambda f, p: sorted(f.listdir(p)),
    "isempty": lambda f, p: f.isempty(p),
    "getsize": lambda f, p: f.getsize(p) if f.isfile(p) else -1,
    "gettype": lambda f, p: int(f.gettype(p)),
    "getinfo": lambda f, p: _info_key(f.getinfo(p, namespaces=["details", "access"])),
    "scandir": lambda f, p: sorted(_info_key(i) for i in f.scandir(p, namespaces=["details", "access"])),
    "filterdir": lambda f, p: sorted(_info_key(i) for i in f.filterdir(p, namespaces=["details"])),
    "readbytes": lambda f, p: f.readbytes(p),
    "hash": lambda f, p: f.hash(p, "md5"),
    "getsyspath": lambda f, p: f.getsyspath(p),
    "hassyspath": lambda f, p: f.hassyspath(p),
    "islink": lambda f, p: f.islink(p),
    "getinfo-link": lambda f, p: repr(sorted((f.getinfo(p, namespaces=["link"]).raw.get("link") or {}).items())),
    # walkers report paths built on the spelling they were given: compared up to normalisation
    "walk.files": lambda f, p: sorted(norm(x) for x in f.walk.files(p)),
    "walk.dirs": lambda f, p: sorted(norm(x) for x in f.walk.dirs(p)),
    "opendir-listdir": lambda f, p: sorted(f.opendir(p).listdir("/")),
}


def _info_key(i):
    raw = i.raw
    d = dict(raw.get("details", {}))
    d.pop("accessed", None)
    d.pop("_write", None)
    return (i.name, i.is_dir, repr(sorted(d.items())), repr(sorted(raw.get("access", {}).items())))


def query_all(f, name, p):
    try:
        return ("ok", H.with_watchdog(lambda: QUERY_FUNCS[name](f, p), 10))
    except BaseException as e:  # noqa
        return ("err", H.exc_name(e))


def same_object_phase(rep, rng, kinds, n_hist, k):
    """queries are pure: on ONE live object, after any history, every equivalent spelling of a
    path must give the same answer (catches state kept per raw spelling: caches, mount tables)"""
    for kind in kinds:
        for h in range(n_hist):
            b = H.make_backend(kind)
            try:
                snap = H.snapshot(b.fs) or []
                log = []
                for i in range(rng.randint(4, 14)):
                    if rng.random() < 0.45:
                        # a query in ONE random spelling (this is what may poison per-spelling state)
                        qn = rng.choice(list(QUERY_FUNCS))
                        cp = clean_path(rng, snap)
                        sp = rng.choice(spellings(rng, cp, snap, k))
                        query_all(b.fs, qn, sp)
                        log.append([qn, sp])
                    else:
                        op = H.gen_op(rng, snap, ["a", "b", "c d"], spelling=False)
                        if not S.steer(kind, op) or op[0] in H.QUERIES:
                            continue
                        # mutate through the wrapped filesystem when there is one (the documented
                        # use of a directory cache is a filesystem that changes underneath)
                        target = b.inner[0] if kind.startswith("cachedir") and rng.random() < 0.7 else b.fs
                        H.apply_op(target, op)
                        log.append(H.op_json(op))
                        snap = H.snapshot(b.inner[0] if kind.startswith("cachedir") else b.fs) or snap
                # now compare all spellings of several paths for every query
                for _ in range(3):
                    cp = clean_path(rng, snap)
                    sps = [sp for sp in spellings(rng, cp, snap, k) if _same_norm(sp, cp)]
                    for qn in QUERY_FUNCS:
                        res = [(sp, query_all(b.fs, qn, sp)) for sp in sps]
                        rep.evaluations += len(res)
                        rep.nontrivial("same-object", kind, qn, cp, h)
                        ref = res[0]
                        for r in res[1:]:
                            if r[1] != ref[1]:
                                rep.violation({"backend": kind, "history": log[-12:], "query": qn, "spelling_a": ref[0], "spelling_b": r[0],
                                               "a": repr(ref[1])[:300], "b": repr(r[1])[:300]},
                                              "%s.%s: on one object, spellings %r and %r answer differently: %s vs %s (after %r)" % (
                                                  kind, qn, ref[0], r[0], repr(ref[1])[:120], repr(r[1])[:120], log[-5:]),
                                              found_input=True, signature="C11/%s/%s/same-object" % (kind, qn))
                                break
            finally:
                b.close()
            rep.programs += 1


def archive_read_phase(rep, rng, n_states, k):
    """read-mode ZipFS/TarFS (an archive written from a random tree, then reopened): every query,
    every equivalent spelling of every path of the tree and of a few missing ones, on the one
    read-only object; answers must coincide (member lookup by raw spelling is what this catches)"""
    import io
    from fs.zipfs import ZipFS
    from fs.tarfs import TarFS
    from fs.memoryfs import MemoryFS

    for kind, cls in (("zip-r", ZipFS), ("tar-r", TarFS)):
        for st in range(n_states):
            m = MemoryFS()
            snap = []
            for _ in range(rng.randint(2, 10)):
                op = H.gen_op(rng, snap, ["a", "b", "c d"], spelling=False)
                if op[0] in H.QUERIES or op[0] in ("settimes", "touch"):
                    continue
                H.apply_op(m, op)
                snap = H.snapshot(m) or snap
            bio = io.BytesIO()
            w = cls(bio, write=True)
            try:
                for e in snap:
                    if e[0] == "D":
                        w.makedirs(e[1], recreate=True)
                for e in snap:
                    if e[0] == "F":
                        w.writebytes(e[1], e[2])
            finally:
                w.close()
            m.close()
            bio.seek(0)
            r = cls(bio)
            rep.programs += 1
            try:
                paths = [e[1] for e in snap] + [clean_path(rng, snap) for _ in range(2)] + [""]
                for cp in paths:
                    sps = [sp for sp in spellings(rng, cp, snap, k) if _same_norm(sp, cp)]
                    if not sps:
                        continue
                    for qn in QUERY_FUNCS:
                        res = [(sp, query_all(r, qn, sp)) for sp in sps]
                        rep.evaluations += len(res)
                        rep.nontrivial("archive-read", kind, qn, cp, tuple(e[:2] for e in snap))
                        rep.count("archive-read/" + kind)
                        ref = res[0]
                        for x in res[1:]:
                            if x[1] != ref[1]:
                                rep.violation({"backend": kind, "tree": [[e[0], e[1]] + ([e[2].decode("latin-1")] if e[0] == "F" else []) for e in snap],
                                               "query": qn, "spelling_a": ref[0], "spelling_b": x[0], "a": repr(ref[1])[:300], "b": repr(x[1])[:300]},
                                              "%s.%s: on one read-mode archive, spellings %r and %r answer differently: %s vs %s (tree %r)" % (
                                                  kind, qn, ref[0], x[0], repr(ref[1])[:120], repr(x[1])[:120], [e[:2] for e in snap][:8]),
                                              found_input=True, signature="C11/%s/%s/archive-read" % (kind, qn))
                                break
            finally:
                r.close()


def _same_norm(a, b):
    try:
        return norm(a) == norm(b)
    except Exception:
        return False


def run(rep, tier, seed, deep=False):
    drv = vlib.Driver()
    rng = vlib.rng_for(seed, "c11")
    quick = tier == "quick"
    n_states, k = (30, 5) if quick else (160, 10)
    if deep:
        n_states *= 3
    rep.rule = ("%d states per backend %s (reached by random histories) x one call per method with each path argument replaced by %d "
                "equivalent spellings (leading/trailing/double slash, './', detours through existing and missing names), each on a fresh copy "
                "of the state; results, exception classes and resulting trees must coincide; distinct = distinct (backend, op, state)" % (n_states, KINDS, k))
    rep.assumptions = ["mount points are fixtures (steered)", "exists/isdir/isfile may return False instead of raising",
                       "read-mode ZipFS/TarFS: archives written from random trees and reopened; every query x every path x its spellings on the one read-only object",
                       "FTPFS (thorough tier only): loopback pyftpdlib 1.5.10 server, MLSD and LIST variants, 25 states x every method x 5 "
                       "spellings per path + 30 same-object histories each; connection errors are infrastructure (retried, never a verdict)"]
    all_ops = H.QUERIES + H.MUT1 + H.MUT2
    def variant_phase(kind, n_states, k):
        for st in range(n_states):
            steps = H.run_history(kind, rng, rng.randint(1, 10), st, gen=lambda r, sn, nm: H.gen_op(r, sn, ["a", "b", "c d"], spelling=False))
            snap = steps[-1].post if steps and steps[-1].post is not None else []
            rep.programs += 1
            for name in all_ops:
                base_op = None
                for _ in range(20):
                    op = make_op(rng, name, snap)
                    if S.steer(kind, op):
                        base_op = op
                        break
                if base_op is None:
                    continue
                npaths = 2 if name in H.MUT2 else 1
                results = []
                variants = []
                for pos in range(1, npaths + 1):
                    clean = "/".join(c for c in base_op[pos].split("/") if c and c != ".")
                    for sp in spellings(rng, clean, snap, k):
                        try:
                            if norm(sp) != norm(clean):
                                continue
                        except Exception:
                            continue
                        v = list(base_op)
                        v[pos] = sp
                        variants.append(tuple(v))
                for v in variants:
                    impl, post = run_variant(kind, snap, v)
                    if kind in H.FTP_KINDS and F.is_conn_error(impl):
                        # connection trouble is infrastructure: once more on a fresh server, else give the case up
                        rep.count("ftp/connection-error-retried")
                        impl, post = run_variant(kind, snap, v)
                        if F.is_conn_error(impl):
                            rep.count("ftp/connection-error-case-abandoned")
                            if rep.histogram["ftp/connection-error-case-abandoned"] > 5:
                                raise vlib.Infra("repeated connection errors against the loopback FTP server: %r" % (impl[1],))
                            results = []
                            break
                    rep.evaluations += 1
                    results.append((v, impl[:2], None if post is None else tuple(H.canon_tree(post))))
                rep.nontrivial(kind, name, H.enc_tree(snap), base_op[1:])
                rep.count(name)
                if not results:
                    continue
                ref = results[0]
                for r in results[1:]:
                    if (r[1] != ref[1] or r[2] != ref[2]):
                        what = "result" if r[1] != ref[1] else "tree"
                        rep.violation({"backend": kind, "pre_tree": [[e[0], e[1]] + ([e[2].decode("latin-1")] if e[0] == "F" else []) for e in snap],
                                       "op_a": H.op_json(ref[0]), "op_b": H.op_json(r[0]), "a": list(ref[1]), "b": list(r[1])},
                                      "%s.%s: spellings %r and %r differ in %s: %s vs %s (tree %r)" % (
                                          kind, name, ref[0][1:], r[0][1:], what, ref[1], r[1], [e[:2] for e in snap][:8]),
                                      found_input=True, signature="C11/%s/%s/%s" % (kind, name, what))
                        break

    try:
        for kind in KINDS:
            variant_phase(kind, n_states, k)
        same_object_phase(rep, rng, KINDS + ["cachedir-os", "mount-nested", "multi2"], 8 if quick else 60, k)
        same_object_phase(rep, rng, ["cachedir-mem", "mount", "mount-nested"], 60 if quick else 400, k)
        same_object_phase(rep, rng, ["os-links"], 10 if quick else 120, k)
        archive_read_phase(rep, rng, 12 if quick else 120, k)
        if not quick:
            # FTPFS against a loopback pyftpdlib server, MLSD and LIST variants (thorough tier only, small budget:
            # every variant runs on a server of its own, ~15 ms)
            import time as _time
            t_ftp = _time.time()
            for kind in F.KINDS:
                variant_phase(kind, 25 * (3 if deep else 1), 5)
            same_object_phase(rep, rng, F.KINDS, 30, 5)
            rep.extra["ftp_seconds"] = round(_time.time() - t_ftp, 1)
        rep.sample({"clean": "a/b", "spellings": spellings(rng, "a/b", [("D", "a"), ("F", "a/b", b"")], 8)})
    finally:
        H.cleanup_scratch()


def replay(rep, case):
    c = case["case"]
    if "tree" in c and c.get("backend") in ("zip-r", "tar-r"):
        import io
        from fs.zipfs import ZipFS
        from fs.tarfs import TarFS

        cls = ZipFS if c["backend"] == "zip-r" else TarFS
        bio = io.BytesIO()
        w = cls(bio, write=True)
        for e in c["tree"]:
            if e[0] == "D":
                w.makedirs(e[1], recreate=True)
        for e in c["tree"]:
            if e[0] == "F":
                w.writebytes(e[1], e[2].encode("latin-1"))
        w.close()
        bio.seek(0)
        r = cls(bio)
        ra, rb = query_all(r, c["query"], c["spelling_a"]), query_all(r, c["query"], c["spelling_b"])
        r.close()
        print(ra, rb)
        return 0 if ra == rb else 1
    snap = [tuple([e[0], e[1]] + ([e[2].encode("latin-1")] if e[0] == "F" else [])) for e in c["pre_tree"]]
    ra = run_variant(c["backend"], snap, H.fix_op_bytes(tuple(c["op_a"])))
    rb = run_variant(c["backend"], snap, H.fix_op_bytes(tuple(c["op_b"])))
    H.cleanup_scratch()
    print(ra[0][:2], rb[0][:2], ra[1] == rb[1])
    return 0 if (ra[0][:2] == rb[0][:2] and ra[1] == rb[1]) else 1
