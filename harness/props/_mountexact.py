"""Exact correspondence for the functor model of MountFS (lean/FsModel/MountFs.lean).

The real `MountFS` configurations of `fsharness` (`mount`: two sibling mounts `m1`, `m2/deep`;
`mount-root`: one mount at `/`; `mount-nested`: `p/q` then `p`, the outer mount registered after
the inner one) and two of this module (`mount-in-mount`: a MountFS mounted inside a MountFS — the
functor applied twice —, `mount-noauto`: `auto_close=False`) are compared with `mountfs.step`
(= `MountFs.step` over `Mem.step` for `default_fs` and every member) at the level of the MEMBERS:
error class, value (listing order included), the resulting tree of `default_fs` and of every
mounted filesystem separately (entry order included), every closed flag, the mount table.

`fsharness.Step` only records the glued view, so every step is re-executed here on a fresh
MountFS holding the same view, with all members snapshotted before and after the call (`MStep`).
Besides the steps handed in by c01 (its `mount` / `mount-root` histories and sweeps) the module
runs histories of its own on `mount-nested` and `mount-in-mount` and a directed corpus: paths
spelled with `./`, `x/../`, doubled and trailing slashes around mount points, names that share a
mount point's characters, operations on the fixtures themselves (mount points and their
ancestors as the thing to be removed / moved), cross-member `move/copy/movedir/copydir`, closed
MountFS objects (with and without `auto_close`), NUL paths.

Verdicts.  A model/code disagreement is `found_input=False` (broken correspondence; the Ref-level
judge of c01 sees the same steps).  Model-free property oracles, `found_input=True`:
(frame) a member that `_delegate` does not pick for any path argument and that holds no path below
an argument is unchanged; (closed) a closed MountFS raises and changes nothing; (nul) a path that
contains NUL is refused with InvalidCharsInPath and nothing changes — the oracle that found
`C01/mountfs-nul-normalised-away` (`exists('m1/z\\0/../f')` was True), FIXED in /repo 48e26ed
(findings/applied/); it stays as the regression oracle.
The `mount-in-mount` histories and the well-formed part of the directed corpus are also handed to
the Ref-level judge of c01 (the property itself on the glued view).
"""
from __future__ import annotations

import json
import os

import vlib
import fsharness as H
from props import _stateful as S

BULK_DIR = ("copydir", "movedir")

# kind -> (auto_close, [(mount path, member spec)]) ; member spec: "m" | ("n", [(path, "m"), ...])
CONFIGS = {
    "mount": (True, [("m1", "m"), ("m2/deep", "m")]),
    "mount-root": (True, [("/", "m")]),
    "mount-nested": (True, [("p/q", "m"), ("p", "m")]),
    "mount-noauto": (False, [("m1", "m"), ("m2/deep", "m")]),
    "mount-in-mount": (True, [("o1", ("n", [("i1", "m"), ("i2/x", "m")])), ("o2", "m")]),
}
# mount points as the user sees them (for steering and the Ref-level judge)
VIEW_MOUNT_POINTS = {
    "mount": [["m1"], ["m2", "deep"]],
    "mount-noauto": [["m1"], ["m2", "deep"]],
    "mount-root": [[]],
    "mount-nested": [["p", "q"], ["p"]],
    "mount-in-mount": [["o1"], ["o1", "i1"], ["o1", "i2", "x"], ["o2"]],
}
REF_KINDS = ("mount", "mount-root", "mount-noauto", "mount-in-mount")   # configurations that are a consistent view


def _load_proposed_findings(rep):
    """open findings proposed by this package count as known until merged into known_findings.json"""
    path = os.path.join(vlib.VERIF, "findings", "known_findings_additions.json")
    if os.path.exists(path):
        have = set(f["signature"] for f in rep.open_findings)
        for f in json.load(open(path)):
            if f.get("property") == rep.prop_id and f["signature"] not in have:
                rep.open_findings.append(f)


# ----------------------------------------------------------------------------- building / observing


def _build(kind):
    """a fresh MountFS of configuration `kind` -> (mountfs, [every FS object created, for disposal])"""
    from fs.memoryfs import MemoryFS
    from fs.mountfs import MountFS

    auto, mounts = CONFIGS[kind]
    made = []

    def mk(spec):
        if spec == "m":
            m = MemoryFS()
            made.append(m)
            return m
        inner = MountFS()
        made.append(inner)
        for p, s in spec[1]:
            inner.mount(p, mk(s))
        return inner

    top = MountFS(auto_close=auto)
    made.append(top)
    if kind == "mount-nested":
        # exactly fsharness.make_backend("mount-nested")
        a, b = mk("m"), mk("m")
        b.writebytes("inb", b"1")
        a.writebytes("ina", b"2")
        top.mount("p/q", b)
        try:
            top.mount("p", a)
        except Exception:
            pass
        return top, made
    for p, s in mounts:
        top.mount(p, mk(s))
    return top, made


def _dispose(made):
    for f in made:
        try:
            f.close()
        except Exception:
            pass


def _registry(mfs):
    """the member objects of a MountFS (recursively), captured while they are still mounted"""
    from fs.mountfs import MountFS

    out = []
    for key, f in list(mfs.mounts):
        out.append((key, f, _registry(f) if isinstance(f, MountFS) else None))
    return out


def _observe(mfs, reg):
    """member-level state of a MountFS: closed flags, default tree, every member (those `close()` dropped from the
    table are reported as `released`); a closed MemoryFS has deleted its tree: tree None"""
    from fs.mountfs import MountFS

    def one(key, f, sub):
        if isinstance(f, MountFS):
            return ("n", key, _observe(f, sub))
        c = bool(f.isclosed())
        return ("m", key, c, None if c else H.snapshot(f))

    mounted = [id(f) for _, f in mfs.mounts]
    dc = bool(mfs.default_fs.isclosed())
    return {
        "closed": bool(mfs.isclosed()), "auto": bool(mfs.auto_close), "dclosed": dc,
        "dtree": None if dc else H.snapshot(mfs.default_fs),
        "members": [one(k, f, sub) for (k, f, sub) in reg if id(f) in mounted],
        "released": [one(k, f, sub) for (k, f, sub) in reg if id(f) not in mounted],
    }


def _enc_state(st):
    def tree(t):
        return H.enc_tree(t or [])

    def member(m):
        if m[0] == "m":
            return "m %s %d %s" % (vlib.hx(m[1]), m[2], tree(m[3]))
        return "n %s %s" % (vlib.hx(m[1]), _enc_state(m[2]))

    return " ".join(["%d %d %d %s %d" % (st["closed"], st["auto"], st["dclosed"], tree(st["dtree"]), len(st["members"]))]
                    + [member(m) for m in st["members"]] + ["%d" % len(st["released"])]
                    + [member(m) for m in st["released"]])


def _dec_state(toks, i=0):
    st = {"closed": toks[i] == "1", "auto": toks[i + 1] == "1", "dclosed": toks[i + 2] == "1", "dtree": toks[i + 3]}
    n = int(toks[i + 4])
    i += 5

    def members(n, i):
        out = []
        for _ in range(n):
            if toks[i] == "m":
                out.append(("m", vlib.unhx(toks[i + 1]), toks[i + 2] == "1", toks[i + 3]))
                i += 4
            else:
                sub, j = _dec_state(toks, i + 2)
                out.append(("n", vlib.unhx(toks[i + 1]), sub))
                i = j
        return out, i

    st["members"], i = members(n, i)
    r = int(toks[i])
    st["released"], i = members(r, i + 1)
    return st, i


def _state_diff(real, model, bulk, path="mountfs"):
    """first difference between the observed state and the model's, or None (trees of closed filesystems are
    unobservable: flags only; after a bulk directory copy entries are compared as sets when `bulk`)"""
    for k in ("closed", "auto", "dclosed"):
        if real[k] != model[k]:
            return "%s.%s: real %r, model %r" % (path, k, real[k], model[k])

    def tree_diff(rt, mt, where):
        if rt is None:
            return None
        same = (H.canon_tree(rt) == H.canon_tree(H.dec_tree(mt))) if bulk else (H.enc_tree(rt) == mt)
        if not same:
            return "%s tree%s: real %r, model %r" % (where, "" if bulk else "/order", [e[:2] for e in rt][:12],
                                                     [e[:2] for e in H.dec_tree(mt)][:12])
        return None

    if not real["dclosed"]:
        d = tree_diff(real["dtree"], model["dtree"], path + ".default_fs")
        if d:
            return d
    for lst in ("members", "released"):
        if [m[:2] for m in real[lst]] != [m[:2] for m in model[lst]]:
            return "%s.%s: real %r, model %r" % (path, lst, [m[:2] for m in real[lst]], [m[:2] for m in model[lst]])
        for rm, mm in zip(real[lst], model[lst]):
            where = "%s[%s]" % (path, rm[1])
            if rm[0] == "m":
                if rm[2] != mm[2]:
                    return "%s.closed: real %r, model %r" % (where, rm[2], mm[2])
                if not rm[2]:
                    d = tree_diff(rm[3], mm[3], where)
                    if d:
                        return d
            else:
                d = _state_diff(rm[2], mm[2], bulk, where)
                if d:
                    return d
    return None


class MStep:
    """one re-executed call with every member's tree around it"""
    __slots__ = ("kind", "view_pre", "op", "closed", "directed", "impl", "pre", "post", "view_real", "view_post", "ok",
                 "build_error")

    def __init__(self, kind, view_pre, op, closed=False, directed=False):
        self.kind, self.view_pre, self.op, self.closed, self.directed = kind, view_pre, op, closed, directed
        self.impl = self.pre = self.post = self.view_real = self.view_post = None
        self.ok = False
        self.build_error = None


def execute(ms):
    """re-execute one step on a fresh MountFS of `ms.kind` holding `ms.view_pre`; `ms.ok` stays False (and
    `ms.build_error` is set) when the view cannot even be rebuilt through makedirs / writebytes"""
    mfs = made = None
    try:
        try:
            mfs, made = _build(ms.kind)
            reg = _registry(mfs)

            def build():
                for e in ms.view_pre:
                    if e[0] == "D":
                        mfs.makedirs(e[1], recreate=True)
                    else:
                        mfs.writebytes(e[1], e[2])
                if ms.closed:
                    mfs.close()

            H.with_watchdog(build, 10)
        except BaseException as e:  # noqa
            if isinstance(e, (KeyboardInterrupt, SystemExit)):
                raise
            ms.build_error = "%s: %s" % (H.exc_name(e), e)
            return ms
        ms.pre = _observe(mfs, reg)
        ms.view_real = None if mfs.isclosed() else H.snapshot(mfs)
        ms.impl = H.apply_op(mfs, ms.op, keep_order=True)
        ms.post = _observe(mfs, reg)
        ms.view_post = None if mfs.isclosed() else H.snapshot(mfs)
        ms.ok = all(t is not None for t in _trees(ms.pre))
    finally:
        _dispose(made or [])
    return ms


def _trees(st):
    """every observable tree of a state (None = snapshot failed)"""
    out = [] if st["dclosed"] else [st["dtree"]]
    for m in st["members"] + st["released"]:
        if m[0] == "m":
            if not m[2]:
                out.append(m[3])
        else:
            out += _trees(m[2])
    return out


def request(ms):
    a = [ms.op[0]]
    for x in ms.op[1:]:
        a.append(("1" if x else "0") if isinstance(x, bool) else vlib.hx(x))
    return "mountfs.step %s %s" % (_enc_state(ms.pre), " ".join(a))


def parse(line):
    out, state = [p.strip() for p in line.split(" | ")]
    res = ("ok", out[3:]) if out.startswith("ok ") else ("err", out[4:])
    st, _ = _dec_state(state.split(" "))
    return res, st


def _tj(t):
    return None if t is None else [[e[0], e[1]] + ([e[2].decode("latin-1")] if e[0] == "F" else []) for e in t]


def _sj(st):
    def member(m):
        return [m[0], m[1], m[2], _tj(m[3])] if m[0] == "m" else ["n", m[1], _sj(m[2])]

    return {"closed": st["closed"], "auto": st["auto"], "dclosed": st["dclosed"], "dtree": _tj(st["dtree"]),
            "members": [member(m) for m in st["members"]], "released": [member(m) for m in st["released"]]}


def _case(ms, model=None):
    return {"backend": ms.kind, "mountfs_kind": ms.kind, "mountfs_closed": ms.closed, "pre_tree": _tj(ms.view_pre),
            "op": H.op_json(ms.op), "members_pre": _sj(ms.pre), "members_post": _sj(ms.post),
            "impl": [ms.impl[0], ms.impl[1]], "model": model}


# ----------------------------------------------------------------------------- oracles (no model)


def _has_nul(op):
    return any(isinstance(x, str) and "\0" in x for x in op[1:2] + (op[2:3] if op[0] in H.MUT2 else ()))


def _member_trees(st, prefix=""):
    out = {prefix + "default": (st["dclosed"], st["dtree"])}
    for m in st["members"] + st["released"]:
        if m[0] == "m":
            out[prefix + m[1]] = (m[2], m[3])
        else:
            out.update(_member_trees(m[2], prefix + m[1] + ">"))
    return out


def oracle(rep, ms):
    op = ms.op
    if op[0] == "close":
        # auto_close (documented): the child filesystems are closed when the MountFS is closed
        if ms.impl[0] == "ok" and ms.pre["auto"] and not ms.closed:
            open_members = [k for k, (c, _t) in _member_trees(ms.post).items() if not c]
            if open_members or not ms.post["closed"]:
                rep.violation(_case(ms), "MountFS (%s, auto_close=True).close() returned but left open: %r (MountFS closed=%s)"
                              % (ms.kind, open_members, ms.post["closed"]), found_input=True,
                              signature="C01/mount-close/%s" % ms.kind)
        return
    pre, post = _member_trees(ms.pre), _member_trees(ms.post)
    changed = sorted(k for k in pre if pre[k] != post.get(k))
    if ms.closed:
        # a closed MountFS raises and changes nothing
        if ms.impl[0] != "err" or changed:
            rep.violation(_case(ms), "closed MountFS (%s): %s%r -> %r, members changed: %r; a closed MountFS must raise and "
                          "leave its members alone" % (ms.kind, op[0], op[1:], ms.impl[:2], changed),
                          found_input=True, signature="C01/mount-closed/%s" % op[0])
        return
    if _has_nul(op):
        # FS.validatepath: a path with an invalid character is refused, whatever it normalises to and whichever
        # filesystem it would be routed to (MountFS._delegate looks at the raw path first since /repo 48e26ed; before,
        # `exists('m1/z\0/../f')` was True: the fixed finding C01/mountfs-nul-normalised-away).  Class-only exception
        # of fs/mountfs.py that looks at another argument first: `openbin` validates its mode (ValueError).  (The
        # inherited `FS.removetree` used to normalise its path first — IllegalBackReference for a path that also
        # climbs, and `removetree('m1/z\0/..')` emptied `m1` —; since /repo 433aea4 it validates like every method.)
        ok_cls = {"InvalidCharsInPath"}
        if op[0] == "openbin":
            ok_cls.add("ValueError")
        # two documented conditions at once (one argument climbs above the root, the other carries the NUL):
        # either class is truthful (Ref.adm), whichever argument the method looks at first
        paths = [x for x in (op[1:2] + (op[2:3] if op[0] in H.MUT2 else ())) if isinstance(x, str)]
        if any(S._comps(x.replace("\0", "")) is None for x in paths):
            ok_cls.add("IllegalBackReference")
        if ms.impl[0] != "err" or ms.impl[1] not in ok_cls or changed:
            rep.violation(_case(ms), "MountFS (%s).%s%r with a NUL in the path -> %r (members changed: %r); every filesystem "
                          "refuses such a path with InvalidCharsInPath and changes nothing"
                          % (ms.kind, op[0], op[1:], ms.impl[:2], changed),
                          found_input=True, signature="C01/mount-nul/%s" % op[0])
        return
    # frame: only members that own a path argument, or hold something below one, may change
    if ms.kind in REF_KINDS:
        comps = [S._comps(x) for x in op[1:2] + (op[2:3] if op[0] in H.MUT2 else ())]
        if any(c is None for c in comps):
            if changed:
                rep.violation(_case(ms), "MountFS (%s).%s%r with a path that cannot be normalised changed members %r"
                              % (ms.kind, op[0], op[1:], changed), found_input=True, signature="C01/mount-frame/%s" % op[0])
            return
        owners = _owners(ms.kind, comps, op[0])
        bad = [k for k in changed if k not in owners]
        if bad:
            rep.violation(_case(ms), "MountFS (%s).%s%r changed member(s) %r which own no path argument (owners: %r)"
                          % (ms.kind, op[0], op[1:], bad, sorted(owners)), found_input=True,
                          signature="C01/mount-frame/%s" % op[0])


def _owners(kind, comps, name):
    """labels (as `_member_trees` builds them) of the members that may legitimately change: the owner of each path
    argument, the default trees on the way (makedirs creates placeholders nowhere, but `makedirs`/bulk copies create
    intermediate directories), and — for bulk operations — every member mounted below an argument"""
    _, mounts = CONFIGS[kind]
    out = set()
    import fs.path as P

    def walk(mounts, cs, prefix, bulk):
        hit = None
        for p, spec in mounts:
            key = P.forcedir(P.abspath(P.normpath(p)))
            mp = [c for c in key.split("/") if c]
            if hit is None and cs[: len(mp)] == mp:
                hit = (key, spec, mp)
            if bulk and mp[: len(cs)] == cs:      # mounted below the argument
                out.add(prefix + key)
                if spec != "m":
                    walk(spec[1], [], prefix + key + ">", True)
                    out.add(prefix + key + ">default")
        if hit is None:
            out.add(prefix + "default")
        else:
            key, spec, mp = hit
            if spec == "m":
                out.add(prefix + key)
            else:
                walk(spec[1], cs[len(mp):], prefix + key + ">", bulk)

    for cs in comps:
        walk(mounts, cs, "", name in ("removetree", "movedir", "copydir"))
    return out


# ----------------------------------------------------------------------------- comparison with the model


def compare(rep, ms, reply):
    mout, mstate = reply
    rep.count("mount-exact/%s" % ms.kind)
    rep.count("mount-exact/%s/%s:%s" % (ms.kind, ms.op[0], ms.impl[0]))
    impl = tuple(ms.impl[:2])
    why = None
    if impl != tuple(mout):
        why = "outcome: real %s, model %s" % (impl, mout)
    else:
        if any(t is None for t in _trees(ms.post)):
            why = "a member cannot be snapshotted after the call"
        else:
            why = _state_diff(ms.post, mstate, bulk=ms.op[0] in BULK_DIR)
    if why:
        rep.disagreements_checked += 1
        rep.violation(_case(ms, model=[list(mout), _enc_state_model(mstate)]),
                      "correspondence FsModel.MountFs (transcription of fs/mountfs.py + inherited fs/base.py defaults, over "
                      "FsModel.Mem members) vs the real MountFS (%s, closed=%s).%s%r from view %r broke — %s"
                      % (ms.kind, ms.closed, ms.op[0], ms.op[1:], [e[:2] for e in ms.view_pre][:10], why),
                      found_input=False, signature="C01/mount-exact/%s/%s" % (ms.kind, ms.op[0]))


def _enc_state_model(st):
    def member(m):
        return [m[0], m[1], m[2], m[3]] if m[0] == "m" else ["n", m[1], _enc_state_model(m[2])]

    return {"closed": st["closed"], "dclosed": st["dclosed"], "dtree": st["dtree"],
            "members": [member(m) for m in st["members"]], "released": [member(m) for m in st["released"]]}


# ----------------------------------------------------------------------------- directed corpus

_T_MOUNT = [("D", "m1/d"), ("F", "m1/f", b"f1"), ("F", "m1/d/g", b"g"), ("D", "m2/deep/e"), ("F", "m2/deep/h", b"hh"),
            ("F", "m2/side", b"s"), ("D", "a"), ("F", "a/x", b"ax"), ("F", "top", b"t"), ("D", "m1x"), ("F", "m1x/y", b"y"),
            ("D", "m")]
_T_ROOT = [("D", "a"), ("F", "a/x", b"ax"), ("F", "top", b"t"), ("D", "e")]
_T_NESTED = [("D", "p/d"), ("F", "p/f", b"pf"), ("F", "p/q/g", b"g"), ("D", "p/q/e"), ("F", "top", b"t"), ("D", "a")]
_T_INNER = [("F", "o1/i1/f", b"1"), ("D", "o1/i1/d"), ("F", "o1/i2/x/g", b"g"), ("F", "o1/i2/side", b"s"), ("F", "o1/own", b"o"),
            ("D", "o1/dd"), ("F", "o2/h", b"h"), ("F", "top", b"t"), ("D", "a"), ("F", "a/x", b"ax")]

_SPELL = ["m1", "m1/", "/m1", "./m1", "x/../m1", "m1/.", "m1//", "//m1", "m1/d/..", "m1x/../m1", "m2/deep", "m2/deep/",
          "m2/./deep", "m2/x/../deep", "m2//deep", "m2", "m2/", "m2/deep/..", "m1x", "m", "m1/f", "./m1/f", "m1//f",
          "m1/d/../f", "x/../m1/f", "m2/deep/h", "m2/deep/../side", "m2/deep/../deep/h", "", "/", ".", "m1/..", "..", "m1/../..",
          "m2/deep/../../..", "m1/zz", "m2/zz", "zz"]

_Q = ["exists", "isdir", "isfile", "listdir", "getsize", "gettype", "isempty", "getinfo", "readbytes"]


def _directed_ops_mount():
    ops = []
    for p in _SPELL:
        for q in _Q:
            ops.append((q, p))
        ops += [("makedir", p, False), ("makedir", p, True), ("makedirs", p, True), ("makedirs", p, False),
                ("writebytes", p, b"w"), ("appendbytes", p, b"+"), ("create", p, False), ("create", p, True),
                ("touch", p), ("settimes", p), ("openbin", p, "r"), ("openbin", p, "w"), ("openbin", p, "x"),
                ("openbin", p, "zz"), ("remove", p), ("removedir", p), ("removetree", p)]
    ops += [("makedirs", "m1/n/o/p", False), ("makedirs", "m2/deep/n/o", True), ("makedirs", "m2/n/o", False),
            ("makedirs", "n/o/p", False), ("makedirs", "m1/f/z", True), ("makedirs", "top/z", True),
            ("makedirs", "m1/d/../n/o", True), ("makedirs", "m2/deep/h", True)]
    # cross-member (and default <-> member) two-path operations, every direction
    files = ["m1/f", "m2/deep/h", "m2/side", "top", "a/x", "m1/d/g", "zz", "m1", "m2/deep", "a", "m1/d"]
    dsts = ["m1/n", "m2/deep/n", "m2/n", "n", "m1/f", "m2/deep/h", "top", "m1", "m2/deep", "a", "zz/n", "m1/zz/n", "",
            "./m2/deep/../deep/n"]
    for s in files:
        for d in dsts:
            for f in (False, True):
                ops.append(("move", s, d, f))
                ops.append(("copy", s, d, f))
    dirs = ["m1/d", "m2/deep/e", "a", "m1", "m2/deep", "m2", "m", "m1/f", "zz", ""]
    ddsts = ["m1/n", "m2/deep/n", "m2/n", "n", "a", "m1", "m2/deep", "m2", "m1/d", "top", "zz/n", "", "a/n/o"]
    for s in dirs:
        for d in ddsts:
            for f in (False, True):
                ops.append(("movedir", s, d, f))
                ops.append(("copydir", s, d, f))
    # NUL
    ops += [("exists", "m1/z\0/../f"), ("readbytes", "m1/z\0/../f"), ("writebytes", "m1/z\0/../n", b"n"),
            ("exists", "z\0/../m1/f"), ("exists", "m1/f\0"), ("exists", "q\0/../top"), ("exists", "q\0"),
            ("exists", "z\0/../.."), ("remove", "m1/z\0/../f"), ("removedir", "m1/z\0/../d"), ("getinfo", "m1/z\0/.."),
            ("copy", "top", "m1/z\0/../n", True), ("move", "m1/z\0/../f", "n", True), ("makedirs", "m2/deep/z\0/../k", True),
            ("listdir", "m1/z\0/.."), ("openbin", "m1/z\0/../f", "zz"), ("removetree", "z\0/../../.."),
            ("isempty", "m2/deep/\0/.."), ("touch", "m1/\0/../t"), ("copydir", "a", "m1/z\0/../c", True),
            ("removedir", "z\0/.."), ("removedir", "m2/deep/z\0/.."), ("removedir", "z\0/../.."), ("movedir", "m1/z\0/../d", "n", True),
            ("makedir", "m2/deep/z\0/../k", False), ("settimes", "m1/z\0/../f"), ("appendbytes", "m1/z\0/../f", b"+"),
            ("create", "m1/z\0/../n", True), ("gettype", "m2/z\0/../side"), ("listdir", "z\0/../m2/deep")]
    ops.append(("close",))
    return ops


_CLOSED_OPS = [
    ("exists", "m1/f"), ("isdir", "m1"), ("isfile", "top"), ("listdir", "/"), ("getsize", "top"), ("gettype", "m1/f"),
    ("isempty", "a"), ("getinfo", "m1"), ("readbytes", "m1/f"), ("makedir", "n", False), ("makedirs", "m1/n/m", True),
    ("writebytes", "m1/n", b"x"), ("appendbytes", "top", b"x"), ("create", "n", True), ("touch", "m1/n"), ("settimes", "top"),
    ("openbin", "top", "r"), ("openbin", "m1/n", "w"), ("openbin", "top", "zz"), ("remove", "m1/f"), ("removedir", "a"),
    ("removetree", "a"), ("removetree", "/"), ("removetree", "../.."), ("move", "m1/f", "n", True), ("copy", "m1/f", "m2/deep/n", True),
    ("movedir", "a", "m1/n", True), ("copydir", "m1/d", "n", True), ("exists", ".."), ("exists", "m1/z\0/../f"), ("close",),
]


def _directed_ops_root():
    ops = []
    for p in ["", "/", ".", "a", "a/", "./a", "a/..", "a/x", "zz", "e", "top", "..", "a/../.."]:
        for q in _Q:
            ops.append((q, p))
        ops += [("makedir", p, False), ("makedir", p, True), ("makedirs", p, True), ("writebytes", p, b"w"), ("create", p, True),
                ("touch", p), ("settimes", p), ("openbin", p, "w"), ("remove", p), ("removedir", p), ("removetree", p)]
    for s in ["a", "e", "", "top", "zz"]:
        for d in ["n", "a/n", "e", "", "a", "top"]:
            for f in (False, True):
                for n in H.MUT2:
                    ops.append((n, s, d, f))
    ops += [("exists", "z\0/../top"), ("exists", "top\0"), ("close",)]
    return ops


def _directed_ops_generic(tree, mps):
    """spellings around the given mount points + fixture operations + two-path operations between all areas"""
    ops = []
    pts = []
    for mp in mps:
        p = "/".join(mp)
        pts += [p, p + "/", "./" + p, "x/../" + p, p + "/..", p + "/zz", p + "/."]
    files = [e[1] for e in tree if e[0] == "F"]
    dirs = [e[1] for e in tree if e[0] == "D"]
    for p in pts + files + dirs + ["", "zz"]:
        for q in _Q:
            ops.append((q, p))
        ops += [("makedir", p, True), ("makedirs", p, True), ("writebytes", p, b"w"), ("create", p, False), ("touch", p),
                ("openbin", p, "w"), ("remove", p), ("removedir", p), ("removetree", p)]
    for s in files + dirs[:3] + [pts[0]]:
        for d in [x + "/n" for x in pts[::7]] + ["n", "a/n"] + files[:2] + dirs[:2]:
            for n in H.MUT2:
                ops.append((n, s, d, True))
                ops.append((n, s, d, False))
    ops.append(("close",))
    return ops


def directed():
    out = []
    for op in _directed_ops_mount():
        out.append(MStep("mount", _T_MOUNT, op, directed=True))
    for op in _CLOSED_OPS:
        out.append(MStep("mount", _T_MOUNT, op, closed=True, directed=True))
        out.append(MStep("mount-noauto", _T_MOUNT, op, closed=True, directed=True))
    for op in [("close",), ("exists", "m1/f"), ("writebytes", "m2/deep/n", b"n"), ("move", "m1/f", "top2", False)]:
        out.append(MStep("mount-noauto", _T_MOUNT, op, directed=True))
    for op in _directed_ops_root():
        out.append(MStep("mount-root", _T_ROOT, op, directed=True))
    for op in _CLOSED_OPS[:12] + [("close",)]:
        out.append(MStep("mount-root", _T_ROOT, op, closed=True, directed=True))
    for op in _directed_ops_generic(_T_NESTED, VIEW_MOUNT_POINTS["mount-nested"]):
        out.append(MStep("mount-nested", _T_NESTED, op, directed=True))
    for op in _directed_ops_generic(_T_INNER, VIEW_MOUNT_POINTS["mount-in-mount"]):
        out.append(MStep("mount-in-mount", _T_INNER, op, directed=True))
    for op in _CLOSED_OPS[:8] + [("close",)]:
        out.append(MStep("mount-in-mount", _T_INNER, op, closed=True, directed=True))
    return out


# ----------------------------------------------------------------------------- histories of this module


def _steer(kind, op):
    """as `_stateful.steer`, for the configurations of this module"""
    mps = VIEW_MOUNT_POINTS.get(kind) or []
    if op[0] in ("remove", "removedir", "removetree", "move", "movedir"):
        cs = S._comps(op[1])
        if cs is None:
            return True
        for mp in mps:
            if mp and mp[: len(cs)] == cs:
                return False
    return True


def touches_fixture(kind, op):
    return not _steer(kind, op)


def own_histories(rng, n_hist, n_ops):
    """random mostly-valid histories on `mount-in-mount` and `mount-nested` (steered around the fixtures), as
    (kind, view_pre, op) triples in history order"""
    out = []
    for kind in ("mount-in-mount", "mount-nested"):
        names = H.NAMES + (["o1", "o2", "i1", "i2", "x", "o1x"] if kind == "mount-in-mount" else ["p", "q", "pq"])
        for _ in range(n_hist):
            mfs, made = _build(kind)
            try:
                pre = H.snapshot(mfs)
                for _i in range(n_ops):
                    if pre is None:
                        break
                    for _try in range(50):
                        op = H.gen_op(rng, pre, names)
                        if _steer(kind, op):
                            break
                    else:
                        op = ("exists", "a")
                    out.append((kind, pre, op))
                    H.apply_op(mfs, op)
                    pre = H.snapshot(mfs)
            finally:
                _dispose(made)
    return out


# ----------------------------------------------------------------------------- entry point


def judge_mount_exact(rep, steps, drv, ref_judge=None, rng=None, n_hist=6, n_ops=20, max_steps=None):
    """`steps`: the fsharness.Step list of the c01 run; those on MountFS backends are re-executed with member-level
    snapshots and compared with `mountfs.step` exactly; then this module's histories and the directed corpus.  The
    consistent configurations are also handed to the Ref-level judge (`ref_judge(rep, step, model_reply)`)."""
    _load_proposed_findings(rep)
    todo = []
    for s in steps:
        if s.kind in CONFIGS and s.pre is not None:
            todo.append(MStep(s.kind, s.pre, s.op))
    if max_steps is not None and len(todo) > max_steps:
        # thorough tier: an evenly spaced sample of the (very many) history steps; every step stands on its own
        k = len(todo) / float(max_steps)
        todo = [todo[int(i * k)] for i in range(max_steps)]
    own = []
    if rng is not None:
        for kind, pre, op in own_histories(rng, n_hist, n_ops):
            ms = MStep(kind, pre, op)
            own.append(ms)
            todo.append(ms)
    todo += directed()
    done = []
    for ms in todo:
        execute(ms)
        for _retry in range(2):
            # a snapshot that times out under load is not a verdict: re-execute (every step stands on its own)
            if ms.build_error or ms.post is None or all(t is not None for t in _trees(ms.post)):
                break
            rep.count("mount-exact/snapshot-retry")
            ms.impl = ms.pre = ms.post = ms.view_real = ms.view_post = None
            ms.ok = False
            execute(ms)
        if ms.build_error:
            # the view was produced by this very implementation (or is a plain tree of the directed corpus): a
            # MountFS that cannot hold it through makedirs / writebytes is broken, whatever the model says
            rep.violation({"backend": ms.kind, "mountfs_kind": ms.kind, "mountfs_closed": ms.closed,
                           "pre_tree": _tj(ms.view_pre), "op": H.op_json(ms.op), "build_error": ms.build_error},
                          "MountFS (%s): the tree %r cannot be built through makedirs/writebytes on a fresh instance: %s"
                          % (ms.kind, [e[:2] for e in ms.view_pre][:10], ms.build_error),
                          found_input=True, signature="C01/mount-build/%s" % ms.kind)
            continue
        if not ms.ok:
            continue
        oracle(rep, ms)
        done.append(ms)
    replies = [parse(r) for r in drv.batch([request(ms) for ms in done])]
    for ms, r in zip(done, replies):
        rep.evaluations += 1
        rep.nontrivial("mount-exact", ms.kind, ms.closed, ms.op, _enc_state(ms.pre))
        compare(rep, ms, r)
    # the property itself on the glued view: histories of this module on the MountFS-in-MountFS and the directed
    # steps that stay clear of the fixtures and of closed objects (NUL paths included since /repo 48e26ed)
    if ref_judge is not None:
        dsteps = []
        for i, ms in enumerate(done):
            if ms.kind not in REF_KINDS or ms.closed or ms.op[0] == "close":
                continue
            if not (ms.directed or ms in own):
                continue
            if ms.view_real is None:
                continue
            if touches_fixture(ms.kind, ms.op):
                rep.count("mount-exact/fixture-op")
                continue
            dsteps.append(H.Step(ms.kind, ms.view_real, ms.op, ms.impl, ms.view_post,
                                 3 * 10 ** 6 + i, 0))
        for st, m in zip(dsteps, H.model_replies(drv, dsteps)):
            ref_judge(rep, st, m)
    return len(done)


def replay_case(rep, case, drv):
    pre = [tuple([e[0], e[1]] + ([e[2].encode("latin-1")] if e[0] == "F" else [])) for e in case["pre_tree"]]
    op = H.fix_op_bytes(tuple(case["op"]))
    _load_proposed_findings(rep)
    ms = execute(MStep(case["mountfs_kind"], pre, op, closed=bool(case.get("mountfs_closed"))))
    oracle(rep, ms)
    r = parse(drv.batch([request(ms)])[0])
    compare(rep, ms, r)
    print("impl:", ms.impl[:2], "model:", r[0])
    return ms, r
