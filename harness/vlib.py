"""Shared plumbing of the verification harness.

* build / audit discipline for the Lean project (``ensure_built``)
* the line-protocol client for the compiled model driver (``Driver``)
* evidence writer, violation reporting, known-findings handling
"""
from __future__ import annotations

import fcntl
import hashlib
import json
import os
import random
import re
import subprocess
import sys
import time

VERIF = os.path.dirname(os.path.dirname(os.path.abspath(__file__)))
LEAN = os.path.join(VERIF, "lean")
REPO = os.environ.get("VERIF_REPO", "/repo")
DRIVER = os.path.join(LEAN, ".lake", "build", "bin", "driver")
EVIDENCE = os.path.join(VERIF, "evidence")
REPLAYS = os.path.join(VERIF, "replays")
ALLOWED_AXIOMS = {"propext", "Classical.choice", "Quot.sound"}
FORBIDDEN = re.compile(
    r"\bsorry\b|\badmit\b|^\s*axiom\s|native_decide|bv_decide|implemented_by|\bunsafe\s|maxHeartbeats\s+0\b"
)


class Infra(Exception):
    """Infrastructure failure (exit 2): not a verdict about the property."""


# --------------------------------------------------------------------------- hex protocol


def hx(s) -> str:
    if isinstance(s, str):
        s = s.encode("utf-8")
    return s.hex() if s else "-"


def unhx(s: str) -> str:
    return "" if s == "-" else bytes.fromhex(s).decode("utf-8")


def unhxb(s: str) -> bytes:
    return b"" if s == "-" else bytes.fromhex(s)


def hxlist(items) -> str:
    return "L" + ",".join(hx(i) for i in items)


def unhxlist(s: str):
    assert s.startswith("L"), s
    body = s[1:]
    return [] if not body else [unhx(i) for i in body.split(",")]


# --------------------------------------------------------------------------- build + audit


def _run(cmd, cwd=None, timeout=3600, env=None):
    p = subprocess.run(
        cmd, cwd=cwd, stdout=subprocess.PIPE, stderr=subprocess.STDOUT, text=True, timeout=timeout, env=env
    )
    return p.returncode, p.stdout


class BuildLock:
    def __enter__(self):
        self.f = open(os.path.join(VERIF, ".build.lock"), "w")
        fcntl.flock(self.f, fcntl.LOCK_EX)
        return self

    def __exit__(self, *a):
        fcntl.flock(self.f, fcntl.LOCK_UN)
        self.f.close()


def strip_comments(src: str) -> str:
    """Remove Lean comments (nested block comments and line comments)."""
    out = []
    i, n, depth = 0, len(src), 0
    while i < n:
        if src.startswith("/-", i):
            depth += 1
            i += 2
        elif depth and src.startswith("-/", i):
            depth -= 1
            i += 2
        elif depth:
            if src[i] == "\n":
                out.append("\n")
            i += 1
        elif src.startswith("--", i):
            while i < n and src[i] != "\n":
                i += 1
        else:
            out.append(src[i])
            i += 1
    return "".join(out)


def forbidden_tokens():
    hits = []
    for root, _dirs, files in os.walk(LEAN):
        if ".lake" in root:
            continue
        for f in files:
            if not f.endswith(".lean"):
                continue
            path = os.path.join(root, f)
            body = strip_comments(open(path, encoding="utf-8").read())
            for ln, line in enumerate(body.split("\n"), 1):
                if FORBIDDEN.search(line):
                    hits.append("%s:%d: %s" % (os.path.relpath(path, VERIF), ln, line.strip()))
    return hits


def generate_tables():
    """Regenerate FsModel/Generated/*.lean from $VERIF_REPO (the translator part)."""
    gen = os.path.join(VERIF, "harness", "extract", "generate.py")
    if os.path.exists(gen):
        rc, out = _run([sys.executable, gen], cwd=VERIF)
        if rc != 0:
            raise Infra("table generation failed:\n" + out)


def lake_build(targets=None):
    """Build the model, the proofs and the driver.  Returns (ok, log)."""
    with BuildLock():
        generate_tables()
        cmd = ["lake", "build"] + (targets or [])
        rc, out = _run(cmd, cwd=LEAN, timeout=3000)
    return rc == 0, out


_AX_RE = re.compile(r"'([^']+)' depends on axioms: \[([^\]]*)\]")
_NOAX_RE = re.compile(r"'([^']+)' does not depend on any axioms")


def audit(prop_id: str, module: str, theorems):
    """`#print axioms` for every property theorem.  Returns dict name -> list of axioms
    (None when the theorem is missing / did not elaborate)."""
    os.makedirs(os.path.join(LEAN, ".lake", "audit"), exist_ok=True)
    path = os.path.join(LEAN, ".lake", "audit", "%s.lean" % prop_id)
    with open(path, "w") as f:
        f.write("import %s\n" % module)
        for t in theorems:
            f.write("#print axioms %s\n" % t)
    with BuildLock():  # a build of another check must not replace the .olean files under the audit
        rc, out = _run(["lake", "env", "lean", path], cwd=LEAN, timeout=1200)
    res = {t: None for t in theorems}
    flat = re.sub(r"\s+", " ", out)
    for m in _AX_RE.finditer(flat):
        res[m.group(1)] = [a.strip() for a in m.group(2).split(",") if a.strip()]
    for m in _NOAX_RE.finditer(flat):
        res[m.group(1)] = []
    return res, out


def theorem_names(module_file: str):
    """Names of the `theorem`s declared in a property file (namespace-qualified)."""
    src = strip_comments(open(module_file, encoding="utf-8").read())
    ns = []
    names = []
    for line in src.split("\n"):
        m = re.match(r"\s*namespace\s+(\S+)", line)
        if m:
            ns.append(m.group(1))
            continue
        m = re.match(r"\s*end\s+(\S+)", line)
        if m and ns and ns[-1] == m.group(1):
            ns.pop()
            continue
        m = re.match(r"\s*(?:@\[[^\]]*\]\s*)?(?:private\s+|protected\s+)?theorem\s+(\S+)", line)
        if m:
            names.append(".".join(ns + [m.group(1)]))
    return names


class ProofStatus:
    def __init__(self):
        self.built = False
        self.build_log = ""
        self.obligations = 0
        self.discharged = 0
        self.bad = []  # (theorem, reason)
        self.theorems = []
        self.forbidden = []

    @property
    def ok(self):
        return self.built and not self.bad and not self.forbidden and self.obligations == self.discharged


def ensure_built(prop_id: str, extra_modules=()) -> ProofStatus:
    """Build everything from the files on disk, then audit the property's theorems."""
    st = ProofStatus()
    # build only what this property needs: the executable model/driver and its own proof modules
    # (a broken obligation of another property must not alarm this one)
    targets = ["driver", "FsProofs.%s" % prop_id] + list(extra_modules)
    ok, log = lake_build(targets)
    st.built, st.build_log = ok, log
    if not ok:
        # the driver must exist even when a proof module fails: build it alone
        with BuildLock():
            rc, out = _run(["lake", "build", "driver"], cwd=LEAN, timeout=3000)
        if rc != 0:
            raise Infra("the model driver does not build:\n" + out[-2000:])
    st.forbidden = forbidden_tokens()
    files = [os.path.join(LEAN, "FsProofs", "%s.lean" % prop_id)]
    mods = ["FsProofs.%s" % prop_id]
    for m in extra_modules:
        files.append(os.path.join(LEAN, *m.split(".")) + ".lean")
        mods.append(m)
    for f, mod in zip(files, mods):
        if not os.path.exists(f):
            st.bad.append((mod, "module missing"))
            continue
        names = theorem_names(f)
        st.theorems += names
        st.obligations += len(names)
        if not names:
            continue
        res, out = audit(prop_id + "_" + mod.replace(".", "_"), mod, names)
        for t in names:
            ax = res.get(t)
            if ax is None:
                st.bad.append((t, "did not elaborate: " + out[-400:]))
            elif not set(ax) <= ALLOWED_AXIOMS:
                st.bad.append((t, "axioms " + ",".join(ax)))
            else:
                st.discharged += 1
    return st


# --------------------------------------------------------------------------- driver client


_PRIVATE_DRIVER = None


def driver_path():
    """a private copy of the compiled driver, taken once per process: a rebuild running at the same time
    (another check, another seed) replaces the file under .lake while a long run is still using it"""
    global _PRIVATE_DRIVER
    if _PRIVATE_DRIVER and os.path.exists(_PRIVATE_DRIVER):
        return _PRIVATE_DRIVER
    if not os.path.exists(DRIVER):
        raise Infra("driver executable missing: " + DRIVER)
    import atexit, shutil, tempfile
    d = tempfile.mkdtemp(prefix="verif-drv-")
    dst = os.path.join(d, "driver")
    shutil.copy2(DRIVER, dst)
    atexit.register(shutil.rmtree, d, True)
    _PRIVATE_DRIVER = dst
    return dst


class Driver:
    """Batch client: send all request lines, read all reply lines."""

    def __init__(self):
        driver_path()

    def batch(self, lines):
        if not lines:
            return []
        data = ("\n".join(lines) + "\n").encode("ascii")
        p = subprocess.run([driver_path()], input=data, stdout=subprocess.PIPE, stderr=subprocess.PIPE, timeout=3000)
        if p.returncode != 0:
            raise Infra("driver crashed: rc=%s %s" % (p.returncode, p.stderr[-500:]))
        out = p.stdout.decode("ascii").split("\n")
        if out and out[-1] == "":
            out.pop()
        if len(out) != len(lines):
            raise Infra("driver returned %d lines for %d requests" % (len(out), len(lines)))
        return out


class LiveDriver:
    """Interactive client (one reply per request, flushed)."""

    def __init__(self):
        self.p = subprocess.Popen([driver_path(), "-i"], stdin=subprocess.PIPE, stdout=subprocess.PIPE)

    def ask(self, line: str) -> str:
        self.p.stdin.write(line.encode("ascii") + b"\n")
        self.p.stdin.flush()
        out = self.p.stdout.readline()
        if not out:
            raise Infra("driver died on: " + line)
        return out.decode("ascii").rstrip("\n")

    def close(self):
        try:
            self.p.stdin.close()
            self.p.wait(timeout=10)
        except Exception:
            self.p.kill()


# --------------------------------------------------------------------------- verdict plumbing


def load_known_findings():
    path = os.path.join(VERIF, "known_findings.json")
    if not os.path.exists(path):
        return {"open": [], "fixed": []}
    return json.load(open(path))


class Report:
    """Collects what a check run covered and found; writes evidence; decides the exit code."""

    def __init__(self, prop_id, tier, seed):
        self.prop_id = prop_id
        self.tier = tier
        self.seed = seed
        self.t0 = time.time()
        self.evaluations = 0
        self.programs = 0
        self.disagreements_checked = 0
        self.distinct = set()
        self.samples = []
        self.histogram = {}
        self.violations = []  # dict(replay=..., note=..., found_input=bool)
        self.known_hits = []
        self.extra = {}
        self.assumptions = []
        self.trusted_base = []
        self.rule = ""
        self.checker_cmd = ""
        kf = load_known_findings()
        self.open_findings = [f for f in kf.get("open", []) if f.get("property") == prop_id]
        self._known_printed = set()
        self._deferred = []
        self.cap_found = 6
        self.cap_nofound = 4

    # -- counting
    def count(self, key, n=1):
        self.histogram[key] = self.histogram.get(key, 0) + n

    def nontrivial(self, *key):
        h = hashlib.blake2b(repr(key).encode("utf-8", "surrogatepass"), digest_size=8).digest()
        self.distinct.add(h)

    def sample(self, s, limit=8):
        if len(self.samples) < limit:
            self.samples.append(s)

    # -- findings
    def match_known(self, signature: str):
        for f in self.open_findings:
            if f["signature"] == signature:
                return f
        return None

    def known(self, finding, what=None):
        sig = finding["signature"]
        if sig not in self._known_printed:
            self._known_printed.add(sig)
            print("KNOWN-FINDING: property=%s %s" % (self.prop_id, what or finding.get("what", sig)))
            sys.stdout.flush()
        self.known_hits.append(sig)

    def violation(self, case, note, found_input=True, signature=None):
        """Record a violation (unless its signature is an open known finding)."""
        if signature:
            f = self.match_known(signature)
            if f is not None:
                self.known(f)
                return False
        same = [v for v in self.violations + self._deferred if v["found_input"] == found_input]
        if len(same) >= (self.cap_found if found_input else self.cap_nofound):
            return False
        os.makedirs(REPLAYS, exist_ok=True)
        n = len(self.violations) + len(self._deferred)
        path = os.path.join(REPLAYS, "%s-%s-%d-%d.json" % (self.prop_id, self.tier, self.seed, n))
        with open(path, "w") as fh:
            json.dump(
                {
                    "property": self.prop_id,
                    "signature": signature,
                    "note": note,
                    "found_failing_input": found_input,
                    "case": case,
                },
                fh,
                indent=1,
                default=repr,
            )
        v = {"replay": path, "note": note, "found_input": found_input, "signature": signature}
        if not found_input:
            # a broken correspondence / proof is not yet a violation: it is reported at the end
            # of the run only if the failing-input search produced no concrete replay
            self._deferred.append(v)
            return True
        self.violations.append(v)
        print("VIOLATION property=%s replay=%s" % (self.prop_id, path))
        print("  " + note[:600])
        sys.stdout.flush()
        return True

    def flush_deferred(self):
        if self._deferred and not any(v["found_input"] for v in self.violations):
            for v in self._deferred:
                self.violations.append(v)
                print("VIOLATION property=%s replay=%s no-failing-input-found" % (self.prop_id, v["replay"]))
                print("  " + v["note"][:600])
        elif self._deferred:
            self.extra["correspondence_breaks_explained_by_replays"] = [v["note"][:300] for v in self._deferred]
            print("(%d model/implementation disagreements are explained by the failing inputs above)" % len(self._deferred))
        self._deferred = []
        sys.stdout.flush()

    # -- finish
    def finish(self, proof: ProofStatus | None):
        self.flush_deferred()
        wall = time.time() - self.t0
        cov = {
            "obligations": proof.obligations if proof else 0,
            "discharged": proof.discharged if proof else 0,
            "checker_cmd": self.checker_cmd
            or "cd lean && lake build && lake env lean .lake/audit/%s_*.lean  (#print axioms)" % self.prop_id,
            "trusted_base": self.trusted_base
            or [
                "Lean 4.33.0 kernel + elaborator",
                "axioms allowed: propext, Classical.choice, Quot.sound (audited per theorem)",
                "hand-written model FsModel/*.lean, tied to /repo by the correspondence run below",
                "harness (generators, canonicaliser) and the compiled Lean driver",
            ],
            "theorems": proof.theorems if proof else [],
            "programs": self.programs,
            "disagreements_checked": self.disagreements_checked,
            "evaluations": self.evaluations,
            "distinct_nontrivial": len(self.distinct),
            "rule": self.rule,
            "samples": self.samples,
            "histogram": self.histogram,
            "known_findings_hit": sorted(set(self.known_hits)),
        }
        cov.update(self.extra)
        ev = {
            "property_id": self.prop_id,
            "tier": self.tier,
            "seed": self.seed,
            "level": "proof",
            "coverage": cov,
            "assumptions": self.assumptions,
            "wall_s": round(wall, 2),
            "violations": len(self.violations),
        }
        os.makedirs(EVIDENCE, exist_ok=True)
        # development runs without the proof build/audit do not overwrite the evidence
        name = "%s.json" % self.prop_id if proof is not None else ".nobuild-%s.json" % self.prop_id
        if os.path.realpath(REPO) != "/repo":
            # a run against a scratch tree (tools/try_seeded.sh): never the committed evidence
            name = ".altrepo-%s.json" % self.prop_id
        with open(os.path.join(EVIDENCE, name), "w") as fh:
            json.dump(ev, fh, indent=1, default=repr, sort_keys=True)
        return 1 if self.violations else 0


def rng_for(seed: int, stream: str) -> random.Random:
    return random.Random("%d/%s" % (seed, stream))


def repo_on_path():
    """Import the repository under test in-process (working tree, not an installed copy)."""
    if REPO not in sys.path:
        sys.path.insert(0, REPO)
    import warnings

    warnings.filterwarnings("ignore")
    import fs  # noqa

    got = os.path.dirname(os.path.abspath(fs.__file__))
    want = os.path.join(os.path.abspath(REPO), "fs")
    if got != want:
        raise Infra("imported fs from %s, expected %s" % (got, want))
    return fs
