"""PathFlowTable extractor (DESIGN §4.6; used by C03 and C11).

For every method of `OSFS` (fs/osfs.py) and `FTPFS` (fs/ftpfs.py) — found by parsing the source
with `ast`, never by importing it — list each *sink*, i.e. each call that hands path data to the
outside world:

    self._to_sys_path(x)   self.getsyspath(x)   os.*(…)   io.open(…)   shutil.*(…)
    names imported from os (scandir, sendfile)   self.ftp.*(…) / ftp.*(…)   _encode(x, …)
    FTPFile(self, x, …)

and say where the path data in its arguments comes from:

    validated  only from `self.validatepath(…)` / `normpath(…)` results (values computed from
               them, object attributes, constants, names the OS returned for such a path)
    raw        a raw path parameter (name contains "path") of a public method reaches it
    unknown    syntax the extractor does not understand (never guessed)

The analysis is a small abstract interpretation over sets of atoms
(`V`, `R:<method>.<param>`, `U:<why>`, `P:<method>#<i>` = "whatever callers pass as the i-th
parameter of this private helper"), flow-sensitive for straight-line code, joining at
branches/loops, with per-method summaries (what flows into the return value / into the
method's own sinks) so that `sys_path = self._to_sys_path(_path)`,
`_src, _dst = self._check_copy(src_path, dst_path)` and helpers like `_gettarget(sys_path)`
are followed through.  Parameters of private helpers are resolved from all their call sites
in the class; parameters of public methods are raw by definition.

Branches guarded by a test that is statically false on the platform the harness runs on
(Linux, CPython >= 3.8, not Python 2, `os.scandir` present, not type-checking) are still
analysed but their sinks are emitted with `live := false` and the guard as `deadWhy`.

Output: lean/FsModel/Generated/PathFlowTable.lean (+ PathFlowTable.json for the harness).
"""
from __future__ import annotations

import ast
import json
import os

VALIDATORS = {"self.validatepath", "normpath"}
CONVERTERS = {"_to_sys_path", "getsyspath"}
FTP_RECEIVERS = ("self.ftp.", "ftp.", "_ftp.")
SINK_FUNCS = {"io.open", "_encode", "FTPFile"}
SINK_PREFIXES = ("os.", "shutil.")
CLASSES = [("fs/osfs.py", "OSFS", "osfsMethods"), ("fs/ftpfs.py", "FTPFS", "ftpfsMethods")]
SKIP_METHODS = {"__init__"}  # the constructor argument *defines* the root; it is not a path inside it

PLATFORM = "Linux, CPython >= 3.8 (not Python 2), os.scandir available, not TYPE_CHECKING"


# ----------------------------------------------------------------------------- helpers


def dotted(node):
    """`a.b.c` for Name/Attribute chains, else None."""
    parts = []
    while isinstance(node, ast.Attribute):
        parts.append(node.attr)
        node = node.value
    if isinstance(node, ast.Name):
        parts.append(node.id)
        return ".".join(reversed(parts))
    return None


class _Unknown(Exception):
    pass


def static_value(node):
    """Value of an expression that is fixed by the assumed platform; raises _Unknown otherwise.
    `sys.version_info` is represented by two witnesses (3.8 and 3.99) that must agree."""
    if isinstance(node, ast.Constant):
        return node.value
    if isinstance(node, ast.Tuple):
        return tuple(static_value(e) for e in node.elts)
    name = dotted(node)
    if name is not None:
        table = {
            "_WINDOWS_PLATFORM": False,
            "six.PY2": False,
            "six.PY3": True,
            "typing.TYPE_CHECKING": False,
            "TYPE_CHECKING": False,
            "sys.platform": "linux",
            "scandir": True,
        }
        if name in table:
            return table[name]
        raise _Unknown(name)
    raise _Unknown(type(node).__name__)


def _version_witnesses(node):
    """[(3, 8, 0), (3, 99, 0)] sliced like the expression, if it is sys.version_info[...]"""
    if dotted(node) == "sys.version_info":
        return [(3, 8, 0), (3, 99, 0)]
    if isinstance(node, ast.Subscript) and dotted(node.value) == "sys.version_info":
        sl = node.slice
        if isinstance(sl, ast.Slice) and sl.lower is None and sl.step is None and isinstance(sl.upper, ast.Constant):
            return [(3, 8, 0)[: sl.upper.value], (3, 99, 0)[: sl.upper.value]]
    return None


def static_test(node):
    """True / False when the test is decided by the assumed platform, else None."""
    try:
        if isinstance(node, ast.BoolOp):
            vals = [static_test(v) for v in node.values]
            if isinstance(node.op, ast.And):
                if any(v is False for v in vals):
                    return False
                return True if all(v is True for v in vals) else None
            if any(v is True for v in vals):
                return True
            return False if all(v is False for v in vals) else None
        if isinstance(node, ast.UnaryOp) and isinstance(node.op, ast.Not):
            v = static_test(node.operand)
            return None if v is None else (not v)
        if isinstance(node, ast.Compare) and len(node.ops) == 1:
            ops = {
                ast.Eq: lambda a, b: a == b, ast.NotEq: lambda a, b: a != b, ast.Lt: lambda a, b: a < b,
                ast.LtE: lambda a, b: a <= b, ast.Gt: lambda a, b: a > b, ast.GtE: lambda a, b: a >= b,
            }
            fn = ops.get(type(node.ops[0]))
            if fn is None:
                return None
            lw = _version_witnesses(node.left)
            if lw is not None:
                right = static_value(node.comparators[0])
                res = {fn(w, right) for w in lw}
                return res.pop() if len(res) == 1 else None
            return bool(fn(static_value(node.left), static_value(node.comparators[0])))
        return bool(static_value(node))
    except (_Unknown, TypeError):
        return None


def lean_str(s):
    out = ['"']
    for ch in s:
        if ch == "\\":
            out.append("\\\\")
        elif ch == '"':
            out.append('\\"')
        elif ch == "\n":
            out.append("\\n")
        elif ord(ch) < 32 or ord(ch) > 126:
            out.append("?")
        else:
            out.append(ch)
    out.append('"')
    return "".join(out)


# ----------------------------------------------------------------------------- class model


class MethodDef:
    def __init__(self, cls, node, live, dead_why):
        self.cls = cls
        self.node = node
        self.name = node.name
        self.live = live
        self.dead_why = dead_why
        self.public = (not node.name.startswith("_")) or (node.name.startswith("__") and node.name.endswith("__"))
        a = node.args
        params = [x.arg for x in a.posonlyargs + a.args]
        if params and params[0] in ("self", "cls"):
            params = params[1:]
        self.params = params
        self.kwonly = [x.arg for x in a.kwonlyargs]
        # results of the analysis
        self.sinks = []
        self.ret = frozenset()
        self.calls = []  # (callee name, {param index or name: atoms})

    @property
    def key(self):
        return "%s@%d" % (self.name, self.node.lineno)


def collect_methods(cls_name, body, live=True, why=""):
    out = []
    for st in body:
        if isinstance(st, (ast.FunctionDef, ast.AsyncFunctionDef)):
            out.append(MethodDef(cls_name, st, live, why))
        elif isinstance(st, ast.If):
            t = static_test(st.test)
            txt = ast.unparse(st.test)
            out += collect_methods(cls_name, st.body, live and t is not False, why if t is not False else (why or txt))
            out += collect_methods(cls_name, st.orelse, live and t is not True,
                                   why if t is not True else (why or "not (" + txt + ")"))
        elif isinstance(st, ast.Try):
            for blk in [st.body, st.orelse, st.finalbody] + [h.body for h in st.handlers]:
                out += collect_methods(cls_name, blk, live, why)
    return out


class Analysis:
    """One pass over one method body (summaries of the other methods come from `table`)."""

    def __init__(self, table, m, os_aliases):
        self.table = table
        self.m = m
        self.os_aliases = os_aliases
        self.env = {}
        self.sinks = []
        self.ret = set()
        self.calls = []
        self.live = [(m.live, m.dead_why)]
        for i, p in enumerate(m.params):
            self.env[p] = frozenset(["P:%s#%d" % (m.name, i)])
        for p in m.kwonly:
            self.env[p] = frozenset(["P:%s#%s" % (m.name, p)])
        va, kw = m.node.args.vararg, m.node.args.kwarg
        for x in (va, kw):
            if x is not None:
                self.env[x.arg] = frozenset()

    # -- liveness
    def is_live(self):
        return all(l for l, _ in self.live)

    def dead_why(self):
        for l, w in self.live:
            if not l:
                return w
        return ""

    # -- expressions
    def ev(self, node):
        if node is None:
            return frozenset()
        if isinstance(node, ast.Constant):
            return frozenset()
        if isinstance(node, ast.Name):
            return self.env.get(node.id, frozenset())
        if isinstance(node, ast.Attribute):
            if isinstance(node.value, ast.Name) and node.value.id in ("self", "cls"):
                return frozenset()
            return self.ev(node.value)
        if isinstance(node, ast.Call):
            return self.ev_call(node)
        if isinstance(node, (ast.BinOp,)):
            return self.ev(node.left) | self.ev(node.right)
        if isinstance(node, ast.BoolOp):
            return self.union(node.values)
        if isinstance(node, ast.UnaryOp):
            return self.ev(node.operand)
        if isinstance(node, ast.Compare):
            return self.ev(node.left) | self.union(node.comparators)
        if isinstance(node, ast.IfExp):
            return self.ev(node.test) | self.ev(node.body) | self.ev(node.orelse)
        if isinstance(node, ast.Subscript):
            return self.ev(node.value) | self.ev(node.slice)
        if isinstance(node, ast.Slice):
            return self.ev(node.lower) | self.ev(node.upper) | self.ev(node.step)
        if isinstance(node, (ast.Tuple, ast.List, ast.Set)):
            return self.union(node.elts)
        if isinstance(node, ast.Dict):
            return self.union([k for k in node.keys if k is not None]) | self.union(node.values)
        if isinstance(node, ast.JoinedStr):
            return self.union(node.values)
        if isinstance(node, ast.FormattedValue):
            return self.ev(node.value)
        if isinstance(node, ast.Starred):
            return self.ev(node.value)
        if isinstance(node, ast.Lambda):
            saved = dict(self.env)
            for a in node.args.posonlyargs + node.args.args + node.args.kwonlyargs:
                self.env[a.arg] = frozenset()
            r = self.ev(node.body)
            self.env = saved
            return r
        if isinstance(node, (ast.ListComp, ast.SetComp, ast.GeneratorExp, ast.DictComp)):
            saved = dict(self.env)
            acc = frozenset()
            for g in node.generators:
                it = self.ev(g.iter)
                self.bind(g.target, it)
                for c in g.ifs:
                    acc |= self.ev(c)
            if isinstance(node, ast.DictComp):
                acc |= self.ev(node.key) | self.ev(node.value)
            else:
                acc |= self.ev(node.elt)
            self.env = saved
            return acc
        if isinstance(node, (ast.Yield, ast.YieldFrom)):
            self.ret |= self.ev(node.value)
            return frozenset()
        return frozenset(["U:expr-" + type(node).__name__])

    def union(self, nodes):
        acc = frozenset()
        for n in nodes:
            acc |= self.ev(n)
        return acc

    def is_sink_name(self, fname):
        if fname is None:
            return False
        if fname in SINK_FUNCS or fname in self.os_aliases:
            return True
        if fname.startswith(SINK_PREFIXES) or fname.startswith(FTP_RECEIVERS):
            return True
        return False

    def add_sink(self, node, callee, atoms, argnodes, argsets):
        """One row per call site (a loop body is walked twice: rows are merged)."""
        args = [(ast.unparse(a), frozenset(s)) for a, s in zip(argnodes, argsets)]
        for s in self.sinks:
            if s["callee"] == callee and s["line"] == node.lineno and s["col"] == node.col_offset:
                s["atoms"] |= frozenset(atoms)
                s["args"] = [(t, a | b) for (t, a), (_t, b) in zip(s["args"], args)]
                return
        self.sinks.append(
            {"callee": callee, "line": node.lineno, "col": node.col_offset, "args": args,
             "atoms": frozenset(atoms), "live": self.is_live(), "deadWhy": self.dead_why()}
        )

    def ev_call(self, node):
        fname = dotted(node.func)
        argnodes = list(node.args) + [k.value for k in node.keywords]
        argsets = [self.ev(a) for a in argnodes]
        allargs = frozenset().union(*argsets) if argsets else frozenset()

        # validators: the result is clean whatever went in (or an exception is raised)
        is_super_validate = (
            isinstance(node.func, ast.Attribute) and node.func.attr == "validatepath"
            and isinstance(node.func.value, ast.Call) and dotted(node.func.value.func) == "super"
        )
        if fname in VALIDATORS or is_super_validate:
            return frozenset(["V"]) | frozenset(a for a in allargs if a.startswith("U:"))

        # calls to methods of the same class: follow them through their summaries
        if fname is not None and (fname.startswith("self.") or fname.startswith("cls.")) and fname.count(".") == 1:
            mname = fname.split(".", 1)[1]
            targets = self.table.by_name.get(mname)
            if targets:
                binding = {}
                for i, a in enumerate(node.args):
                    binding[i] = self.ev(a)
                for k in node.keywords:
                    if k.arg is not None:
                        binding[k.arg] = self.ev(k.value)
                self.calls.append((mname, binding, self.is_live()))
                result = frozenset()
                uses = frozenset()
                for t in targets:
                    if not t.live and len(targets) > 1:
                        continue
                    result |= self.table.subst(t, t.ret, binding)
                    uses |= self.table.subst(t, self.table.uses(t), binding)
                if mname in CONVERTERS and allargs:
                    self.add_sink(node, fname, uses, argnodes, argsets)
                return result
            # a method inherited from the base class (self.exists, self.opendir, self.check…):
            # it validates by itself; its result carries whatever its arguments carried
            return allargs

        if self.is_sink_name(fname):
            recv = frozenset()
            if allargs:
                self.add_sink(node, fname, allargs, argnodes, argsets)
            return allargs | recv

        if isinstance(node.func, ast.Attribute):
            # method call on some object: x.lstrip("/"), _path.replace(…), dir_entry.stat()
            return self.ev(node.func.value) | allargs
        if isinstance(node.func, ast.Name):
            return self.env.get(node.func.id, frozenset()) | allargs
        return self.ev(node.func) | allargs

    # -- binding
    def bind(self, target, val, weak=False):
        if isinstance(target, ast.Name):
            self.env[target.id] = (self.env.get(target.id, frozenset()) | val) if weak else val
        elif isinstance(target, (ast.Tuple, ast.List)):
            for e in target.elts:
                self.bind(e, val, weak)
        elif isinstance(target, ast.Starred):
            self.bind(target.value, val, weak)
        elif isinstance(target, (ast.Attribute, ast.Subscript)):
            base = target
            while isinstance(base, (ast.Attribute, ast.Subscript)):
                base = base.value
            if isinstance(base, ast.Name) and base.id not in ("self", "cls"):
                self.env[base.id] = self.env.get(base.id, frozenset()) | val
            if isinstance(target, ast.Subscript):
                self.ev(target.slice)

    # -- statements
    def merge(self, *envs):
        out = {}
        for e in envs:
            for k, v in e.items():
                out[k] = out.get(k, frozenset()) | v
        return out

    def block(self, stmts):
        for st in stmts:
            self.stmt(st)

    def stmt(self, st):
        if isinstance(st, ast.Assign):
            v = self.ev(st.value)
            for t in st.targets:
                self.bind(t, v)
        elif isinstance(st, ast.AnnAssign):
            if st.value is not None:
                self.bind(st.target, self.ev(st.value))
        elif isinstance(st, ast.AugAssign):
            self.bind(st.target, self.ev(st.value), weak=True)
        elif isinstance(st, ast.Expr):
            self.ev(st.value)
        elif isinstance(st, ast.Return):
            self.ret |= self.ev(st.value)
        elif isinstance(st, ast.If):
            self.ev(st.test)
            t = static_test(st.test)
            txt = ast.unparse(st.test)
            pre = dict(self.env)
            self.live.append((t is not False, txt))
            self.block(st.body)
            self.live.pop()
            env_body = self.env
            self.env = dict(pre)
            self.live.append((t is not True, "not (" + txt + ")"))
            self.block(st.orelse)
            self.live.pop()
            env_else = self.env
            if t is True:
                self.env = env_body
            elif t is False:
                self.env = env_else
            else:
                self.env = self.merge(env_body, env_else)
        elif isinstance(st, (ast.For, ast.AsyncFor)):
            it = self.ev(st.iter)
            pre = dict(self.env)
            for _ in range(2):
                self.bind(st.target, it)
                self.block(st.body)
            self.block(st.orelse)
            self.env = self.merge(pre, self.env)
        elif isinstance(st, ast.While):
            pre = dict(self.env)
            for _ in range(2):
                self.ev(st.test)
                self.block(st.body)
            self.block(st.orelse)
            self.env = self.merge(pre, self.env)
        elif isinstance(st, (ast.With, ast.AsyncWith)):
            for item in st.items:
                v = self.ev(item.context_expr)
                if item.optional_vars is not None:
                    self.bind(item.optional_vars, v)
            self.block(st.body)
        elif isinstance(st, ast.Try):
            pre = dict(self.env)
            self.block(st.body)
            after_body = self.env
            outs = [after_body]
            for h in st.handlers:
                self.env = self.merge(pre, after_body)
                if h.type is not None:
                    self.ev(h.type)
                if h.name:
                    self.env[h.name] = frozenset()
                self.block(h.body)
                outs.append(self.env)
            self.env = dict(after_body)
            self.block(st.orelse)
            outs.append(self.env)
            self.env = self.merge(*outs)
            self.block(st.finalbody)
        elif isinstance(st, ast.Raise):
            self.ev(st.exc)
            self.ev(st.cause)
        elif isinstance(st, ast.Assert):
            self.ev(st.test)
        elif isinstance(st, ast.Delete):
            pass
        elif isinstance(st, (ast.FunctionDef, ast.AsyncFunctionDef)):
            # nested function: analysed in place (closure over the current environment);
            # calling it later yields "unknown" together with its arguments
            saved = dict(self.env)
            for a in st.args.posonlyargs + st.args.args + st.args.kwonlyargs:
                self.env[a.arg] = frozenset()
            saved_ret = set(self.ret)
            self.block(st.body)
            inner_ret = frozenset(self.ret - saved_ret)
            self.ret = saved_ret
            self.env = saved
            self.env[st.name] = inner_ret
        elif isinstance(st, (ast.Pass, ast.Break, ast.Continue, ast.Import, ast.ImportFrom, ast.Global, ast.Nonlocal)):
            pass
        else:
            self.sinks.append(
                {"callee": "<unknown syntax %s>" % type(st).__name__, "line": st.lineno, "col": st.col_offset,
                 "args": [], "atoms": frozenset(["U:stmt-" + type(st).__name__]), "live": self.is_live(),
                 "deadWhy": self.dead_why()}
            )


class ClassTable:
    def __init__(self, cls_name, methods, os_aliases):
        self.cls = cls_name
        self.methods = methods
        self.os_aliases = os_aliases
        self.by_name = {}
        for m in methods:
            self.by_name.setdefault(m.name, []).append(m)

    def uses(self, m):
        acc = frozenset(m.ret)
        for s in m.sinks:
            if s["live"]:
                acc |= s["atoms"]
        return acc

    def subst(self, callee, atoms, binding):
        """Replace the callee's own parameter atoms by what the call site passes."""
        out = set()
        for a in atoms:
            if a.startswith("P:%s#" % callee.name):
                idx = a.split("#", 1)[1]
                if idx.isdigit():
                    i = int(idx)
                    name = callee.params[i] if i < len(callee.params) else None
                    out |= binding.get(i, binding.get(name, frozenset()))
                else:
                    out |= binding.get(idx, frozenset())
            else:
                out.add(a)
        return frozenset(out)

    def analyse(self):
        for _round in range(6):
            changed = False
            for m in self.methods:
                a = Analysis(self, m, self.os_aliases)
                a.block(m.node.body)
                new = (frozenset(a.ret), [(s["callee"], s["line"], s["atoms"], s["live"]) for s in a.sinks])
                old = (m.ret, [(s["callee"], s["line"], s["atoms"], s["live"]) for s in m.sinks])
                if new != old:
                    changed = True
                m.ret, m.sinks, m.calls = frozenset(a.ret), a.sinks, a.calls
            if not changed:
                break

    # -- parameter resolution
    def resolve(self, atoms, seen=()):
        out = set()
        for a in atoms:
            if not a.startswith("P:"):
                out.add(a)
                continue
            mname, idx = a[2:].split("#", 1)
            if a in seen:
                continue
            for m in self.by_name.get(mname, []):
                pname = idx
                i = None
                if idx.isdigit():
                    i = int(idx)
                    pname = m.params[i] if i < len(m.params) else idx
                if m.public:
                    # callable from outside: a path parameter is raw by definition, other
                    # parameters (mode, info, namespaces, file objects …) carry no path
                    if "path" in pname:
                        out.add("R:%s.%s" % (m.name, pname))
                sites = 0
                for caller in self.methods:
                    for (callee, binding, _live) in caller.calls:
                        if callee != mname:
                            continue
                        sites += 1
                        passed = binding.get(i, frozenset()) | binding.get(pname, frozenset()) if i is not None else binding.get(pname, frozenset())
                        out |= self.resolve(passed, seen + (a,))
                if not m.public and sites == 0 and "path" in pname:
                    out.add("R:%s.%s" % (m.name, pname))  # nobody calls it here: assume the worst
        return frozenset(out)


def classify(atoms):
    if any(a.startswith("U:") for a in atoms):
        return "unknown"
    if any(a.startswith("R:") for a in atoms):
        return "raw"
    if "V" in atoms:
        return "validated"
    return "const"


def os_aliases_of(tree):
    names = set()
    for node in ast.walk(tree):
        if isinstance(node, ast.ImportFrom) and node.module == "os":
            for a in node.names:
                names.add(a.asname or a.name)
    return names


def extract_class(repo_root, rel, cls_name):
    path = os.path.join(repo_root, rel)
    with open(path, encoding="utf-8") as fh:
        tree = ast.parse(fh.read(), filename=path)
    cls = None
    for node in ast.walk(tree):
        if isinstance(node, ast.ClassDef) and node.name == cls_name:
            cls = node
            break
    if cls is None:
        return None
    table = ClassTable(cls_name, collect_methods(cls_name, cls.body), os_aliases_of(tree))
    table.analyse()
    rows = []
    for m in table.methods:
        if m.name in SKIP_METHODS:
            continue
        sinks = []
        consts = 0
        for s in m.sinks:
            atoms = table.resolve(s["atoms"])
            src = classify(atoms)
            if src == "const":
                consts += 1
                continue
            argtext = ", ".join(t for t, a in s["args"] if classify(table.resolve(a)) != "const")
            sinks.append(
                {"callee": s["callee"], "line": s["line"], "arg": argtext, "source": src,
                 "live": bool(s["live"]), "deadWhy": "" if s["live"] else s["deadWhy"],
                 "from": sorted(a for a in atoms if not a == "V")}
            )
        rows.append(
            {"cls": cls_name, "name": m.name, "line": m.node.lineno, "public": m.public, "live": m.live,
             "deadWhy": m.dead_why, "sinks": sinks, "constSinks": consts}
        )
    return rows


def render(tables):
    out = []
    out.append("/-")
    out.append("  GENERATED by harness/extract/pathflow.py from fs/osfs.py and fs/ftpfs.py — do not edit.")
    out.append("  Sinks and the provenance of their path arguments; dead = statically unreachable on:")
    out.append("  " + PLATFORM)
    out.append("-/")
    out.append("import FsModel.PathFlow")
    out.append("")
    out.append("namespace Fs.PathFlow")
    out.append("")
    for (_rel, cls, defname), rows in tables:
        out.append("def %s : List Method := [" % defname)
        mlines = []
        for r in rows or []:
            sl = []
            for s in r["sinks"]:
                sl.append(
                    "      { callee := %s, line := %d, arg := %s, source := .%s, live := %s, deadWhy := %s }"
                    % (lean_str(s["callee"]), s["line"], lean_str(s["arg"]), s["source"],
                       "true" if s["live"] else "false", lean_str(s["deadWhy"]))
                )
            body = "[\n" + ",\n".join(sl) + " ]" if sl else "[]"
            mlines.append(
                "  { cls := %s, name := %s, line := %d, isPublic := %s, live := %s,\n    sinks := %s }"
                % (lean_str(cls), lean_str(r["name"]), r["line"], "true" if r["public"] else "false",
                   "true" if r["live"] else "false", body)
            )
        out.append(",\n".join(mlines))
        out.append("]")
        out.append("")
        out.append("/-- the source file of `%s` could be parsed and the class was found -/" % cls)
        out.append("def %sFound : Bool := %s" % (defname, "true" if rows is not None else "false"))
        out.append("")
    out.append("end Fs.PathFlow")
    return "\n".join(out) + "\n"


def write_if_changed(path, text):
    try:
        with open(path, encoding="utf-8") as fh:
            if fh.read() == text:
                return False
    except OSError:
        pass
    tmp = path + ".tmp%d" % os.getpid()
    with open(tmp, "w", encoding="utf-8") as fh:
        fh.write(text)
    os.replace(tmp, path)
    return True


def build_tables(repo_root):
    tables = []
    for rel, cls, defname in CLASSES:
        try:
            rows = extract_class(repo_root, rel, cls)
        except (OSError, SyntaxError):
            rows = None
        tables.append(((rel, cls, defname), rows))
    return tables


def generate(repo_root, out_dir):
    tables = build_tables(repo_root)
    write_if_changed(os.path.join(out_dir, "PathFlowTable.lean"), render(tables))
    js = {defname: rows for (_rel, _cls, defname), rows in tables}
    js["platform"] = PLATFORM
    write_if_changed(os.path.join(out_dir, "PathFlowTable.json"), json.dumps(js, indent=1, sort_keys=True) + "\n")


if __name__ == "__main__":
    import sys

    for (_rel, cls, _d), rows in build_tables(sys.argv[1] if len(sys.argv) > 1 else "/repo"):
        for r in rows or []:
            for s in r["sinks"]:
                print("%-6s %-22s l.%-4d %-22s %-9s %s %s  <- %s" % (
                    cls, r["name"], s["line"], s["callee"], s["source"], "live" if s["live"] else "DEAD(%s)" % s["deadWhy"],
                    s["arg"][:50], ",".join(s["from"])))
