"""Regenerate lean/FsModel/Generated/*.lean from $VERIF_REPO (the translator part, DESIGN §4.6).

Tiny dispatcher: every module `harness/extract/*.py` that exposes
`generate(repo_root, out_dir)` is imported and called.  Invoked before every `lake build`
by `harness/vlib.py:generate_tables()`.
"""
from __future__ import annotations

import importlib.util
import os
import sys

HERE = os.path.dirname(os.path.abspath(__file__))
VERIF = os.path.dirname(os.path.dirname(HERE))


def main():
    repo_root = os.environ.get("VERIF_REPO", "/repo")
    out_dir = os.path.join(VERIF, "lean", "FsModel", "Generated")
    os.makedirs(out_dir, exist_ok=True)
    if HERE not in sys.path:
        sys.path.insert(0, HERE)
    for fn in sorted(os.listdir(HERE)):
        if not fn.endswith(".py") or fn in ("generate.py", "__init__.py"):
            continue
        name = fn[:-3]
        spec = importlib.util.spec_from_file_location("extract_" + name, os.path.join(HERE, fn))
        mod = importlib.util.module_from_spec(spec)
        spec.loader.exec_module(mod)
        gen = getattr(mod, "generate", None)
        if callable(gen):
            gen(repo_root, out_dir)
    return 0


if __name__ == "__main__":
    sys.exit(main())
