#!/usr/bin/env python3
"""Source-to-Lean translation of the `Mode` class of $VERIF_REPO/fs/mode.py
->  lean/FsModel/Generated/ModeGen.lean (namespace Fs.ModeGen), with the engine of pathgen.py.

A `Mode` object has one field, `self._mode` (set by `__init__`, which then calls `self.validate()`), so
every method `m(self, …)` becomes a Lean function `m (self : Str) …` and `self._mode` is `self`.
`"x" in self` is the call of the translated `__contains__` (Lean name `contains`); `six.PY2` is `false`
(the interpreter under test is CPython 3); the default argument `_valid_chars=frozenset("…")` of `validate`
is inlined as a local constant.  `lean/FsProofs/ModeGenEq.lean` proves the generated predicates equal to the
hand-written `Fs.File.Mode.*` and ties `Fs.Ref.parseBinMode` to `validate_bin` + the flag properties.

Refusals are handled as in pathgen.py: recorded in the generated file and in ModeGen.status.json (the
equality module then no longer builds and C16 reports `ModeGen.translate(<method>)`); exit status 3 when
run as a script.
"""
from __future__ import annotations

import ast
import json
import os
import sys

HERE = os.path.dirname(os.path.abspath(__file__))
if HERE not in sys.path:
    sys.path.insert(0, HERE)

import pathgen as PG  # noqa: E402

VERIF = os.path.dirname(os.path.dirname(HERE))
REPO = os.environ.get("VERIF_REPO", "/repo")
OUT_DIR = os.path.join(VERIF, "lean", "FsModel", "Generated")

SOURCE = "fs/mode.py"
CLASS = "Mode"
FIELD = "_mode"
# methods that are translated; the remaining ones are listed in the generated file
WANTED = ["__contains__", "to_platform", "to_platform_bin", "validate", "validate_bin", "create", "reading",
          "writing", "appending", "updating", "truncate", "exclusive", "binary", "text"]
NOT_MODELLED = {"__init__": "stores the mode string and calls validate()", "__repr__": "presentation", "__str__": "returns the mode string"}
LEAN_NAMES = {"__contains__": "contains"}


def method_deps(fdef, names):
    out = set()
    for n in ast.walk(fdef):
        if isinstance(n, ast.Attribute) and isinstance(n.value, ast.Name) and n.value.id == "self" and n.attr in names:
            out.add(n.attr)
        if isinstance(n, ast.Compare) and any(isinstance(o, (ast.In, ast.NotIn)) for o in n.ops) \
                and any(isinstance(c, ast.Name) and c.id == "self" for c in n.comparators):
            out.add("__contains__")
    out.discard(fdef.name)
    return out


class ModeModule:
    def __init__(self, repo):
        self.repo = repo
        self.refusals = []
        self.translated = []
        self.defs_text = []
        self.other_methods = []

    def build(self):
        try:
            with open(os.path.join(self.repo, SOURCE), encoding="utf-8") as fh:
                tree = ast.parse(fh.read(), type_comments=True)
        except (OSError, SyntaxError) as ex:
            self.refusals.append(("<module>", "-", "cannot read/parse %s: %s" % (SOURCE, ex)))
            return
        cdef = None
        for node in tree.body:
            if isinstance(node, ast.ClassDef) and node.name == CLASS:
                cdef = node
        if cdef is None:
            self.refusals.append(("<module>", "-", "class %s not found in %s" % (CLASS, SOURCE)))
            return
        defs, props = {}, set()
        for node in cdef.body:
            if isinstance(node, ast.Expr) and isinstance(node.value, ast.Constant):
                continue
            if isinstance(node, ast.FunctionDef):
                decos = [ast.unparse(d) for d in node.decorator_list]
                if decos == ["property"]:
                    props.add(node.name)
                elif decos:
                    r = PG.Refuse(node.name, node, "decorator %s" % decos)
                    self.refusals.append((node.name, r.where, str(r)))
                    continue
                defs[node.name] = node
                continue
            r = PG.Refuse("<class>", node, "class-level statement")
            self.refusals.append(("<class>", r.where, str(r)))
        # the field: __init__ must be `self._mode = mode; self.validate()`
        init = defs.get("__init__")
        ok_init = False
        if init is not None:
            body = [s for s in init.body if not (isinstance(s, ast.Expr) and isinstance(s.value, ast.Constant))]
            ok_init = (len(body) == 2 and ast.unparse(body[0]) == "self.%s = mode" % FIELD
                       and ast.unparse(body[1]) == "self.validate()")
        if not ok_init:
            r = PG.Refuse("__init__", init, "__init__ is not `self.%s = mode; self.validate()`" % FIELD)
            self.refusals.append(("__init__", r.where, str(r)))
        self.other_methods = sorted(n for n in defs if n not in WANTED)
        unexpected = [n for n in self.other_methods if n not in NOT_MODELLED]
        for n in unexpected:
            r = PG.Refuse(n, defs[n], "method of %s that the translator was not told about" % CLASS)
            self.refusals.append((n, r.where, str(r)))
        for n in WANTED:
            if n not in defs:
                self.refusals.append((n, "-", "method %s.%s not found" % (CLASS, n)))
        wanted = {n: defs[n] for n in WANTED if n in defs}
        mod = PG.Module("mode")
        mod.self_class, mod.self_field, mod.properties = CLASS, FIELD, props
        deps = {n: {d for d in method_deps(f, set(defs)) if d in wanted} for n, f in wanted.items()}
        try:
            order = PG.toposort(wanted, deps)
        except PG.Refuse as r:
            self.refusals.append((r.func, r.where, str(r)))
            return
        for n in order:
            missing = [d for d in method_deps(wanted[n], set(defs)) if d not in mod.methods]
            if missing:
                self.refusals.append((n, "Call", "method %s: uses %s, which could not be translated" % (n, ", ".join(sorted(missing)))))
                continue
            try:
                tr = PG.FnTranslator(mod, wanted[n], n, self_param=True)
                info, text = tr.translate()
            except PG.Refuse as r:
                if r.func == "?":
                    r = PG.Refuse(n, r.node, r.msg)
                self.refusals.append((n, r.where, str(r)))
                continue
            except Exception as ex:     # a translator bug is a refusal, not an infrastructure error
                self.refusals.append((n, "-", "method %s: internal translator error %s: %s" % (n, type(ex).__name__, ex)))
                continue
            info.lean_name = PG.lean_ident(LEAN_NAMES.get(n, n))
            info.is_method = True
            mod.methods[n] = info
            self.translated.append(n)
            self.defs_text.append("/-- `%s` `%s.%s` (line %d)%s -/\n%s" % (
                SOURCE, CLASS, n, wanted[n].lineno, " [property]" if n in props else "", PG.render_def(info, text)))

    def emit(self):
        L = []
        w = L.append
        w("/-")
        w("  GENERATED by harness/extract/modegen.py from $VERIF_REPO/%s (class %s) - do not edit." % (SOURCE, CLASS))
        w("  A Mode object is its mode string: `self.%s` is the parameter `self`." % FIELD)
        w("  translated (%d): %s" % (len(self.translated), ", ".join(self.translated)))
        w("  methods not translated: %s" % ", ".join("%s (%s)" % (n, NOT_MODELLED.get(n, "?")) for n in self.other_methods))
        if self.refusals:
            w("  REFUSED:")
            for fn, where, msg in self.refusals:
                w("    ModeGen.translate(%s): %s" % (fn, msg.replace("-/", "- /")))
        w("-/")
        w("import FsModel.PyStr")
        w("")
        w("set_option linter.unusedVariables false")
        w("")
        w("namespace Fs.ModeGen")
        w("open Fs Fs.PyStr")
        w("")
        w("def translated : List String := [%s]" % ", ".join('"%s"' % n for n in sorted(self.translated)))
        w("")
        w("def refused : List (String × String) := [%s]" % ", ".join('("%s", "%s")' % (fn, where) for fn, where, _m in self.refusals))
        w("")
        for d in self.defs_text:
            w(d)
            w("")
        w("end Fs.ModeGen")
        return "\n".join(L) + "\n"

    def status(self):
        return {
            "source": SOURCE,
            "class": CLASS,
            "translated": self.translated,
            "not_translated": self.other_methods,
            "refused": [{"obligation": "ModeGen.translate(%s)" % fn, "function": fn, "node": where, "message": msg}
                        for fn, where, msg in self.refusals],
        }


def run(repo_root, out_dir):
    mm = ModeModule(repo_root)
    mm.build()
    os.makedirs(out_dir, exist_ok=True)
    PG.write_if_changed(os.path.join(out_dir, "ModeGen.lean"), mm.emit())
    PG.write_if_changed(os.path.join(out_dir, "ModeGen.status.json"), json.dumps(mm.status(), indent=1, sort_keys=True) + "\n")
    return mm


def generate(repo_root, out_dir):
    """entry point of the dispatcher; a refusal never fails the run (see pathgen.generate)"""
    run(repo_root, out_dir)
    return 0


def main():
    mm = run(REPO, OUT_DIR)
    if "-v" in sys.argv:
        print("translated:", ", ".join(mm.translated))
    if mm.refusals:
        for fn, where, msg in mm.refusals:
            sys.stderr.write("modegen: REFUSED ModeGen.translate(%s): %s\n" % (fn, msg))
        return 3
    return 0


if __name__ == "__main__":
    sys.exit(main())
