#!/usr/bin/env python3
"""Source-to-Lean translator for the pure string code of the repository under test.

    $VERIF_REPO/fs/path.py  ->  lean/FsModel/Generated/PathGen.lean   (namespace Fs.PathGen)
    $VERIF_REPO/fs/mode.py  ->  lean/FsModel/Generated/ModeGen.lean   (namespace Fs.ModeGen; see modegen.py)

The source is parsed with ``ast`` (nothing is imported or executed) and every top-level function is
translated *syntax-directed* into a Lean ``def`` over the primitives of ``lean/FsModel/PyStr.lean``.
``lean/FsProofs/PathGenEq.lean`` then proves, on every run, that each generated definition equals
the hand-written transcription ``FsModel/Path.lean`` the C12 theorems are stated over, so those
theorems are theorems about the definitions regenerated from the source.

The translation scheme (design.d/PATHGEN.md has the full table):

* types come from the ``# type:`` comments of the ``def`` (``Text`` -> Str, ``bool``, ``List[..]``,
  ``Tuple[..]``) and from the expressions for locals; Python ints are ``Nat`` (``len``, non-negative
  literals, sums) or ``Int`` (differences, ``str.find``) - a variable assigned both becomes ``Int``;
* a function that can raise (a ``raise``, a partial primitive such as ``l[i]`` / ``l.pop()`` /
  ``a, b = l``, a ``while`` loop, a call of such a function) returns ``Res t``, any other ``t``;
* statements are translated with an explicit continuation: ``x = e; K`` -> ``let x := e; K``,
  ``if c: A else: B; K`` -> ``if c then [A; K] else [B; K]``; effectful sub-expressions are bound
  left-to-right in front of the statement that contains them (short-circuit operands with an
  effect turn the test into nested ``if``s);
* ``for`` / ``while`` become ``pyFor`` / ``pyWhile`` over the tuple of loop-carried variables (in
  order of first mutation) with a body returning ``Flow`` (next / break / return / exception);
  ``while`` needs a termination hint (``WHILE_FUEL``), exhausted fuel is ``Err.Leak``;
* ``try: B except X: H`` -> ``match [B] with | .err .X => [H] | ...`` (``H`` must end in ``raise`` /
  ``return``; no ``return`` inside ``B``).

Extensions used by the other module translators (puregen.py, permgen.py, modegen.py; design.d/GEN2.md): joined
``if`` in front of a loop, nested ``while``, two-sided slices, ``%`` / ``"".join`` / multi-character ``split``,
comprehensions (``List.map`` / ``pyMapM`` / filter+map), ``any(...)``, ``enumerate`` / ``range``, ``re.escape`` /
``re.compile`` / ``pattern.match`` (FsModel/PyRe.lean), the LRU-cache idiom (translated away), ``lambda`` /
``partial`` / functions as values, ``Optional`` parameters with ``is None`` narrowing, classes with one set-valued
field (FsModel/PySet.lean), bit operations, ``l[i] = v``, file objects with ``iter(callable, None)`` loops.

Anything else is REFUSED: ``Refuse`` names the function, the AST node and the line.  Run as a script
the translator then exits non-zero; run from the dispatcher (``generate``) it still writes the
generated file - without the refused definition and with the refusal recorded in the file and in
``PathGen.status.json`` - so that the equality module no longer builds and C12 reports the broken
obligation ``PathGen.translate(<function>)`` after its failing-input search.
"""
from __future__ import annotations

import ast
import json
import os
import sys

HERE = os.path.dirname(os.path.abspath(__file__))
VERIF = os.path.dirname(os.path.dirname(HERE))
REPO = os.environ.get("VERIF_REPO", "/repo")
OUT_DIR = os.path.join(VERIF, "lean", "FsModel", "Generated")

# the one regular expression of fs/path.py; its Lean meaning is PyStr.reSearchRequiresNormalization
KNOWN_REGEX = r"(^|/)\.\.?($|/)|//"
KNOWN_REGEX_FLAGS = ("", "re.UNICODE")

# termination hints for `while` loops: function -> one Python expression per loop (in source order),
# evaluated at loop entry.  Untrusted: a bound that is too small makes the generated function return
# Err.Leak, which the equality theorem to the hand model then refutes.
WHILE_FUEL = {
    "recursepath": ["len(path) + 1"],
    "isparent": ["len(bits1) + 1"],
    # index-driven scanners: every round of the outer loop advances `i`, every round of the inner one `j`
    "wildcard._translate": ["len(pattern) + 1", "len(pattern) + 1"],
    "glob._translate": ["len(pattern) + 1", "len(pattern) + 1"],
}

# termination hints for `for x in iter(callable, None)` loops, as Lean text over the variables in scope (the bound
# depends on the state of an opaque object, which no Python expression of the subset can name).  Untrusted, like
# WHILE_FUEL: exhausted fuel is Err.Leak.
FOR_ITER_FUEL = {
    "tools.copy_file_data": ["src_file.data.length + 1"],
}

# exception classes that exist in FsModel.Basic.Err
ERR_CLASSES = {
    "IllegalBackReference", "ValueError", "IndexError", "TypeError", "ResourceNotFound", "FileExpected",
    "DirectoryExpected", "DirectoryExists", "FileExists", "DestinationExists", "DirectoryNotEmpty",
    "RemoveRootError", "IllegalDestination", "InvalidCharsInPath", "ResourceReadOnly", "FilesystemClosed",
    "Unsupported", "NoSysPath", "NoURL", "ParseError", "OperationFailed",
}

# classes an `except` may name: Err is a flat enum, so only classes none of whose sub-/superclasses are in Err
CATCHABLE = {"IndexError", "ResourceNotFound"}

LEAN_KEYWORDS = {
    "prefix", "infix", "infixl", "infixr", "postfix", "from", "at", "end", "open", "instance", "where", "fun",
    "let", "in", "do", "then", "else", "if", "match", "with", "theorem", "def", "namespace", "section",
    "import", "export", "variable", "universe", "class", "structure", "deriving", "macro", "syntax",
    "notation", "local", "private", "protected", "mutual", "show", "have", "by", "for", "return", "Type",
    "Prop", "Sort", "example", "axiom", "abbrev", "inductive", "extends", "using", "calc", "this", "true",
    "false", "suffices", "obtain", "attribute", "unless", "try", "catch", "finally", "mut", "break",
    "continue", "nomatch", "nofun", "partial", "unsafe", "opaque", "set_option", "omit", "include",
}


class Refuse(Exception):
    def __init__(self, func, node, msg):
        self.func, self.node, self.msg = func, node, msg
        line = getattr(node, "lineno", "?")
        kind = type(node).__name__ if node is not None else "-"
        snippet = ""
        if node is not None:
            try:
                snippet = ast.unparse(node).split("\n")[0][:80]
            except Exception:
                snippet = ""
        self.where = "%s at line %s" % (kind, line)
        super().__init__("function %s: %s `%s`: %s" % (func, self.where, snippet, msg))


class NeedRes(Exception):
    """internal: the function being translated as pure needs the Res monad"""


class EffectInCond(Exception):
    """internal: an effectful sub-expression in a conditionally evaluated position"""


# ----------------------------------------------------------------------------------- types

STR, BOOL, NAT, INT, UNIT, CHARSET = "str", "bool", "nat", "int", "unit", "charset"
REGEX = "regex"          # a compiled pattern object (re.compile(...)): Fs.Regex.Regex
NONE = "none"            # the type of the literal None inside a conditional expression (-> Option)


BYTES = "bytes"          # a bytes value (what read() returns): Fs.Bytes
READER = "reader"        # a file object open for reading: Fs.File.Reader (remaining data + short-read oracle)
WRITER = "writer"        # a file object open for writing: the bytes written so far
FSSTAT = "fsstat"        # a filesystem object *as far as one path is concerned*: Option (Option Int) = not found /
                         # found with its (optional) modification time
INFOREC = "inforec"      # an Info object as (size, modified): Nat x Option Int
ANY = "any"              # a dynamically typed value of a raw info dictionary: Fs.Info.JVal (modules with `dynamic`)
RAWD = "rawdict"         # the raw info dictionary: Fs.Info.Raw (namespace -> NS)
NSD = "nsdict"           # one namespace of it: Fs.Info.NS (key -> JVal)
DTM = "datetime"         # a datetime object: Fs.Info.DT
PERMS = "permissions"    # a Permissions object: Fs.Info.Permissions
STRSET = ("set", STR)     # a Python set of strings; in Lean a `List Str` whose order and multiplicity are not observable


def topt(t):
    return ("opt", t)


def tfn(args, ret):
    """a callable value; in Lean always `a1 -> ... -> Res ret`"""
    return ("fn", tuple(args), ret)


def tlist(t):
    return ("list", t)


def ttuple(*ts):
    return ("tuple", tuple(ts))


def lean_type(t):
    if t is None:
        return "_"          # only in a pass whose output is discarded (types not yet stable)
    if t == STR:
        return "Str"
    if t == BOOL:
        return "Bool"
    if t == NAT:
        return "Nat"
    if t == INT:
        return "Int"
    if t == UNIT:
        return "Unit"
    if t == CHARSET:
        return "List Char"
    if t == REGEX:
        return "Regex.Regex"
    if t == STRSET:
        return "List Str"
    if t in (BYTES, WRITER):
        return "Bytes"
    if t == READER:
        return "File.Reader"
    if t == FSSTAT:
        return "Option (Option Int)"
    if t in _DYN_LEAN:
        return _DYN_LEAN[t]
    if t == INFOREC:
        return "(Nat × Option Int)"
    if isinstance(t, tuple) and t[0] == "opt":
        return "Option %s" % (lean_type(t[1]) if " " not in lean_type(t[1]) else "(%s)" % lean_type(t[1]))
    if isinstance(t, tuple) and t[0] == "fn":
        r = lean_type(t[2])
        return "(" + " → ".join([lean_type(a) for a in t[1]] + ["Res %s" % (r if " " not in r or r.startswith("(") else "(%s)" % r)]) + ")"
    if isinstance(t, tuple) and t[0] == "list":
        return "List (%s)" % lean_type(t[1]) if " " in lean_type(t[1]) else "List %s" % lean_type(t[1])
    if isinstance(t, tuple) and t[0] == "tuple":
        return "(" + " × ".join(lean_type(x) for x in t[1]) + ")"
    raise AssertionError(t)


_DYN_LEAN = {ANY: "Info.JVal", RAWD: "Info.Raw", NSD: "Info.NS", DTM: "Info.DT", PERMS: "Info.Permissions"}
# static types with a JVal constructor
_TO_ANY = {STR: "Info.JVal.str", BOOL: "Info.JVal.bool", INT: "Info.JVal.int"}


def join_types(a, b):
    if a == b:
        return a
    if ANY in (a, b) and (a in (STR, BOOL, INT, NAT, NONE, ANY) and b in (STR, BOOL, INT, NAT, NONE, ANY)):
        return ANY
    if {a, b} == {NAT, INT}:
        return INT
    if a == NONE and b != NONE:
        return b if isinstance(b, tuple) and b[0] == "opt" else topt(b)
    if b == NONE and a != NONE:
        return a if isinstance(a, tuple) and a[0] == "opt" else topt(a)
    if isinstance(a, tuple) and isinstance(b, tuple) and a[0] == b[0] == "opt":
        j = join_types(a[1], b[1])
        return topt(j) if j is not None else None
    # an empty list literal has element type None until it meets a typed one
    if isinstance(a, tuple) and isinstance(b, tuple) and a[0] == b[0] == "list":
        if a[1] is None:
            return b
        if b[1] is None:
            return a
    return None


def lean_char(c):
    o = ord(c)
    if c == "'":
        return "'\\''"
    if c == "\\":
        return "'\\\\'"
    if c == "\n":
        return "'\\n'"
    if c == "\t":
        return "'\\t'"
    if c == "\r":
        return "'\\r'"
    if 32 <= o < 127:
        return "'%s'" % c
    return "'\\u{%x}'" % o


def lean_str_lit(s):
    """a Lean `String` literal (identifiers only)"""
    assert s.replace("_", "a").isalnum(), s
    return '"%s"' % s


def lean_str(s):
    if s == "":
        return "([] : Str)"
    return "[" + ", ".join(lean_char(c) for c in s) + "]"


RESERVED_NAMES = {
    "List", "Int", "Nat", "Str", "Res", "Flow", "LoopOut", "Empty", "Unit", "Bool", "Char", "Fs", "decide", "not",
    "translated", "allNames", "refused", "reSearchRequiresNormalization", "findGo", "clampIdx",
}


def reserved(name):
    """a Python identifier the generated code cannot use for a local (it would shadow something the
    translation itself refers to)"""
    return name in RESERVED_NAMES or name.startswith("py")


def lean_ident(name):
    if name in LEAN_KEYWORDS:
        return "«%s»" % name
    return name


def ind(text, n=2):
    pad = " " * n
    return "\n".join(pad + ln if ln else ln for ln in text.split("\n"))


# ----------------------------------------------------------------------------------- contexts


class Ctx:
    kind = "?"

    def ret(self, t):
        raise NotImplementedError

    def raise_(self, cls):
        raise NotImplementedError

    def reraise(self, var):
        raise NotImplementedError

    def bind(self, res, pat, body):
        raise NotImplementedError


class PureCtx(Ctx):
    kind = "pure"

    def ret(self, t):
        return t

    def raise_(self, cls):
        raise NeedRes()

    def reraise(self, var):
        raise NeedRes()

    def bind(self, res, pat, body):
        raise NeedRes()


class ResCtx(Ctx):
    kind = "res"

    def ret(self, t):
        return "(.ok %s)" % t

    def raise_(self, cls):
        return "(.err .%s)" % cls

    def reraise(self, var):
        return "(.err %s)" % var

    def bind(self, res, pat, body):
        return "(match %s with\n  | .err e' => (.err e')\n  | .ok %s =>\n%s)" % (res, pat, ind(body, 4))


class LoopCtx(Ctx):
    """body of a for/while loop: results are `Flow σ ρ`"""
    kind = "loop"

    def __init__(self, state_tuple):
        self.state_tuple = state_tuple   # text of the tuple of the loop-carried variables

    def ret(self, t):
        return "(.ret %s)" % t

    def raise_(self, cls):
        return "(.exc .%s)" % cls

    def reraise(self, var):
        return "(.exc %s)" % var

    def bind(self, res, pat, body):
        return "(match %s with\n  | .err e' => (.exc e')\n  | .ok %s =>\n%s)" % (res, pat, ind(body, 4))

    def next(self):
        return "(.next %s)" % self.state_tuple

    def brk(self):
        return "(.brk %s)" % self.state_tuple


class JoinPureCtx(PureCtx):
    """branch of a joined `if` without effects: the value is the tuple of the assigned variables"""
    kind = "joinpure"

    def ret(self, t):
        raise Refuse("?", None, "`return` inside a joined `if`")


class JoinResCtx(ResCtx):
    """branch of a joined `if` with effects: a Res of that tuple"""
    kind = "joinres"

    def ret(self, t):
        raise Refuse("?", None, "`return` inside a joined `if`")


class TryCtx(ResCtx):
    """body of a `try`: a Res of the tuple of the variables it assigns; no `return` inside"""
    kind = "try"

    def ret(self, t):
        raise Refuse("?", None, "`return` inside a `try` body")


# ----------------------------------------------------------------------------------- function translator


class FuncInfo:
    def __init__(self, name, lean_name, params, ret, raises, vararg=False, defaults=None, is_method=False):
        self.name, self.lean_name = name, lean_name
        self.params = params          # [(name, type)]
        self.ret, self.raises = ret, raises
        self.vararg = vararg          # last parameter collects *args
        self.defaults = defaults or {}  # name -> lean text
        self.is_method = is_method
        self.self_type = STR


class Module:
    """what the translator knows about the module being translated"""

    def __init__(self, modname):
        self.modname = modname
        self.funcs = {}        # python name -> FuncInfo (translated so far)
        self.consts = {}       # module-level constant name -> (lean name, type)
        self.regex_preds = {}  # module-level name -> lean predicate (Str -> Bool)
        self.self_class = None # when translating methods: name of the class
        self.methods = {}      # method python name -> FuncInfo
        self.properties = set()
        self.caches = set()    # module-level names bound to LRUCache(n) (the compiled-pattern caches)
        self.self_field = None
        self.self_type = STR   # the Lean type of an object of the class being translated (= of its one field)
        self.class_consts = {} # class-level constant name -> (lean name, type)
        self.ctor = None       # FuncInfo of __init__ (for `cls(...)`)


class FnTranslator:
    def __init__(self, module, fdef, qualname, self_param=None):
        self.m = module
        self.f = fdef
        self.name = qualname
        self.self_param = self_param
        self.tmp = 0
        self.vartypes = {}      # joined types of the locals (fixpoint over passes)
        self.changed = False
        self.while_index = 0
        self.binds = []         # pending effect binds of the statement being translated [(pat, res_text)]
        self.aliases = {}       # local name -> (object name, method)

    # -- helpers
    def refuse(self, node, msg):
        raise Refuse(self.name, node, msg)

    def fresh(self):
        # generated binders end in an apostrophe: no Python identifier can collide with them
        self.tmp += 1
        return "t%d'" % self.tmp

    def declare(self, env, name, ty, node):
        if reserved(name):
            self.refuse(node, "the local name `%s` collides with a name the generated code uses" % name)
        old = self.vartypes.get(name)
        if old is None:
            new = ty
        else:
            new = join_types(old, ty)
            if new is None:
                self.refuse(node, "variable `%s` is assigned values of different types (%s, %s)" % (name, old, ty))
        if new != old:
            self.vartypes[name] = new
            self.changed = True
        env = dict(env)
        env[name] = new
        return env, new

    def coerce(self, text, frm, to, node):
        if frm == to:
            return text
        if to == ANY:
            if frm in _TO_ANY:
                return "(%s %s)" % (_TO_ANY[frm], text)
            if frm == NAT:
                return "(Info.JVal.int (Int.ofNat %s))" % text
            if frm in (NONE, UNIT) and text in ("none", "()"):
                return "Info.JVal.null"
            if frm == ttuple():
                return "(Info.JVal.list [])"
        if frm == NAT and to == INT:
            return "(Int.ofNat %s)" % text
        if frm == NONE and isinstance(to, tuple) and to[0] == "opt":
            return "none"
        if isinstance(to, tuple) and to[0] == "opt" and isinstance(frm, tuple) and frm[0] == "opt":
            if frm[1] == NAT and to[1] == INT:
                return "(Option.map Int.ofNat %s)" % text
        if isinstance(to, tuple) and to[0] == "opt" and not (isinstance(frm, tuple) and frm[0] == "opt"):
            return "(some %s)" % self.coerce(text, frm, to[1], node)
        if isinstance(to, tuple) and isinstance(frm, tuple) and to[0] == frm[0] == "tuple" and len(to[1]) == len(frm[1]) \
                and any(a != b for a, b in zip(frm[1], to[1])):
            n = len(frm[1])
            parts = []
            for k, (a, b) in enumerate(zip(frm[1], to[1])):
                proj = "%s%s" % (self.atom(text), ".2" * k + (".1" if k < n - 1 else ""))
                parts.append(self.coerce(proj, a, b, node))
            return "(" + ", ".join(parts) + ")"
        j = join_types(frm, to)
        if j == to:
            return text
        self.refuse(node, "cannot use a value of type %s where %s is expected" % (frm, to))

    # -- signature
    def signature(self):
        f = self.f
        a = f.args
        if a.kwonlyargs or a.kwarg or a.posonlyargs:
            self.refuse(f, "keyword-only / ** parameters")
        names = [x.arg for x in a.args]
        if self.self_param:
            first = "cls" if self.self_param == "classmethod" else "self"
            if not names or names[0] != first:
                self.refuse(f, "method without %s" % first)
            names = names[1:]
        if not f.type_comment:
            self.refuse(f, "no `# type:` comment (parameter types unknown)")
        try:
            ft = ast.parse(f.type_comment, mode="func_type")
        except SyntaxError:
            self.refuse(f, "unparsable type comment %r" % f.type_comment)
        if len(ft.argtypes) == 1 and isinstance(ft.argtypes[0], ast.Constant) and ft.argtypes[0].value is Ellipsis:
            # `# type: (...) -> T` with one `# type:` comment per parameter
            ptypes = []
            for x in a.args[(1 if self.self_param else 0):]:
                if not x.type_comment:
                    self.refuse(f, "parameter `%s` has no type comment" % x.arg)
                try:
                    ptypes.append(self.pytype(ast.parse(x.type_comment, mode="eval").body))
                except SyntaxError:
                    self.refuse(f, "unparsable type comment %r" % x.type_comment)
        else:
            ptypes = [self.pytype(t) for t in ft.argtypes]
        allnames = names + ([a.vararg.arg] if a.vararg else [])
        if len(ptypes) != len(allnames):
            self.refuse(f, "type comment has %d parameter types for %d parameters" % (len(ptypes), len(allnames)))
        params = []
        override = getattr(self.m, "param_types", {}).get(self.f.name, {})
        for n, t in zip(names, ptypes):
            params.append((n, override.get(n, t)))
        vararg = False
        if a.vararg:
            params.append((a.vararg.arg, tlist(ptypes[-1])))
            vararg = True
        ret = self.pytype(ft.returns)
        # defaults
        defaults = {}
        const_params = {}
        nd = len(a.defaults)
        dnames = [x.arg for x in a.args][len(a.args) - nd:] if nd else []
        for n, d in zip(dnames, a.defaults):
            if isinstance(d, ast.Constant) and isinstance(d.value, bool):
                defaults[n] = "true" if d.value else "false"
            elif isinstance(d, ast.Constant) and isinstance(d.value, str):
                defaults[n] = lean_str(d.value)
            elif isinstance(d, ast.Constant) and d.value is None and isinstance(dict(params).get(n), tuple) \
                    and dict(params)[n][0] == "opt":
                defaults[n] = "none"
            elif isinstance(d, ast.Constant) and d.value is None and dict(params).get(n) == ANY:
                defaults[n] = "Info.JVal.null"
            elif self.is_charset_ctor(d):
                const_params[n] = d
            else:
                self.refuse(d, "default value of parameter `%s`" % n)
        return params, ret, vararg, defaults, const_params

    def is_charset_ctor(self, d):
        return (isinstance(d, ast.Call) and isinstance(d.func, ast.Name) and d.func.id in ("frozenset", "set")
                and len(d.args) == 1 and not d.keywords and isinstance(d.args[0], ast.Constant)
                and isinstance(d.args[0].value, str))

    def pytype(self, t):
        if isinstance(t, ast.Name):
            if t.id in ("Text", "str", "unicode"):
                return STR
            if t.id == "bool":
                return BOOL
            if t.id == "int":
                return INT
            if t.id == "FS" and self.f.name in getattr(self.m, "fs_roles", {}):
                return FSSTAT
            if t.id == "Info" and self.f.name in getattr(self.m, "info_roles", ()):
                return INFOREC
            if getattr(self.m, "dynamic", False):
                if t.id in ("Any", "T"):
                    return ANY      # `T` is the TypeVar of `get`'s default
                if t.id == "datetime":
                    return DTM
                if t.id == "Permissions":
                    return PERMS
                if t.id == "ResourceType":
                    return NAT      # the enum member, as its value
            if t.id == "datetime":
                return INT          # a point in time, as the integer the hand models use
            if t.id == "IO":
                role = getattr(self.m, "io_roles", {}).get(self.f.name, [])
                k = self._io_seen = getattr(self, "_io_seen", 0) + 1
                if k <= len(role):
                    return role[k - 1]
                self.refuse(t, "a file-object parameter whose role (reader / writer) the translator was not told")
            if t.id == "object":
                return STR      # `__contains__(self, character: object)` asserts isinstance(character, Text)
            if self.m.self_class is not None and t.id == self.m.self_class and self.m.self_type != STR:
                return self.m.self_type
        if isinstance(t, ast.Constant) and t.value is None:
            return UNIT
        if isinstance(t, ast.Subscript) and isinstance(t.value, ast.Name):
            if t.value.id in ("List", "Iterable"):
                return tlist(self.pytype(t.slice))
            if t.value.id == "Optional":
                inner = self.pytype(t.slice)
                return ANY if inner == ANY else topt(inner)     # None is a JVal
            if (t.value.id == "Callable" and isinstance(t.slice, ast.Tuple) and len(t.slice.elts) == 2
                    and isinstance(t.slice.elts[0], ast.List)):
                return tfn([self.pytype(x) for x in t.slice.elts[0].elts], self.pytype(t.slice.elts[1]))
            if t.value.id == "Tuple" and isinstance(t.slice, ast.Tuple):
                return ttuple(*[self.pytype(x) for x in t.slice.elts])
            if t.value.id == "Union":
                elts = t.slice.elts if isinstance(t.slice, ast.Tuple) else [t.slice]
                if all(ast.unparse(e) in ("Set[Text]", "FrozenSet[Text]") for e in elts):
                    return CHARSET
        self.refuse(t, "unsupported type annotation")

    # -- the passes
    def translate(self):
        params, ret, vararg, defaults, const_params = self.signature()
        self.mutates = self.self_param in ("method", "init", True) and self.m.self_type != STR and self.mutates_self()
        if self.self_param == "init" or (self.mutates and ret == UNIT):
            ret = self.m.self_type          # a mutator / the constructor returns the (new) object
            self.returns_self = True
        else:
            self.returns_self = False
        self.mut_params = [n for n, t in params if t in (READER, WRITER)]
        if self.mut_params:
            if ret != UNIT:
                self.refuse(self.f, "a function over file objects that also returns a value")
            ret = ttuple(*[dict(params)[n] for n in self.mut_params]) if len(self.mut_params) > 1 else dict(params)[self.mut_params[0]]
        self.ret_type = ret
        self.field_aliases = set()
        body = list(self.f.body)
        if body and isinstance(body[0], ast.Expr) and isinstance(body[0].value, ast.Constant) and isinstance(body[0].value.value, str):
            body = body[1:]
        self.scan_aliases(body)
        real_params = [(n, t) for (n, t) in params if n not in const_params]
        for n, _t in params:
            if reserved(n):
                self.refuse(self.f, "the parameter name `%s` collides with a name the generated code uses" % n)
        result = None
        for ctx_cls in (PureCtx, ResCtx):
            try:
                for _ in range(6):
                    self.changed = False
                    self.tmp = 0
                    self.while_index = 0
                    self.binds = []
                    self.aliases = {}
                    env = {}
                    self.field_aliases = set()
                    if self.self_param and self.self_param not in ("classmethod", "init"):
                        env["self"] = self.m.self_type
                    for n, t in real_params:
                        env[n] = t
                        self.vartypes.setdefault(n, t)
                    pre = []
                    for n, d in const_params.items():
                        env[n] = CHARSET
                        pre.append("let %s : List Char := pySet %s" % (lean_ident(n), lean_str(d.args[0].value)))
                    ctx = ctx_cls()
                    text = self.S(body, env, ctx, self.fall_off_end(ctx))
                    if pre:
                        text = "\n".join(pre) + "\n" + text
                    if not self.changed:
                        break
                else:
                    self.refuse(self.f, "types of the local variables do not stabilise")
                result = (ctx_cls is ResCtx, text)
                break
            except NeedRes:
                continue
        assert result is not None
        raises, text = result
        return FuncInfo(self.f.name, None, real_params, self.ret_type, raises, vararg, defaults), text

    SET_MUTATORS = ("update", "add", "difference_update", "discard")

    def is_field(self, node):
        """`self.<field>` or a local alias of it"""
        if isinstance(node, ast.Attribute) and isinstance(node.value, ast.Name) and node.value.id == "self" \
                and node.attr == self.m.self_field:
            return True
        return isinstance(node, ast.Name) and node.id in getattr(self, "field_aliases", ())

    def mutates_self(self):
        for n in ast.walk(self.f):
            if isinstance(n, (ast.Assign, ast.AugAssign)):
                tgts = n.targets if isinstance(n, ast.Assign) else [n.target]
                if any(isinstance(t, ast.Attribute) and isinstance(t.value, ast.Name) and t.value.id == "self" for t in tgts):
                    return True
            if isinstance(n, ast.Call) and isinstance(n.func, ast.Attribute) and n.func.attr in self.SET_MUTATORS \
                    and isinstance(n.func.value, ast.Attribute) and isinstance(n.func.value.value, ast.Name) \
                    and n.func.value.value.id == "self":
                return True
        return False

    def fall_off_end(self, ctx):
        def k(env):
            if getattr(self, "mut_params", None):
                return ctx.ret("(" + ", ".join(lean_ident(n) for n in self.mut_params) + ")")
            if getattr(self, "returns_self", False):
                if "self" not in env:
                    self.refuse(self.f, "the object's field is not assigned on every path")
                return ctx.ret("self")
            if self.ret_type == UNIT:
                return ctx.ret("()")
            self.refuse(self.f, "control can reach the end of the function without `return`")
        return k

    def scan_aliases(self, body):
        """names bound to a bound method (`find = path.find`): the object must not be rebound later"""
        mod = ast.Module(body=body, type_ignores=[])
        alias_nodes = [n for n in ast.walk(mod)
                       if isinstance(n, ast.Assign) and len(n.targets) == 1 and isinstance(n.targets[0], ast.Name)
                       and isinstance(n.value, ast.Attribute) and isinstance(n.value.value, ast.Name)
                       and n.value.attr in ("find", "append", "pop", "read", "write")]
        for an in alias_nodes:
            obj = an.value.value.id
            for n in ast.walk(mod):
                if isinstance(n, ast.Name) and n.id == obj and isinstance(n.ctx, (ast.Store, ast.Del)) \
                        and (n.lineno, n.col_offset) > (an.lineno, an.col_offset):
                    self.refuse(n, "`%s` is rebound after its bound method was aliased as `%s`" % (obj, an.targets[0].id))
            for n in ast.walk(mod):
                if isinstance(n, ast.Name) and n.id == an.targets[0].id and isinstance(n.ctx, ast.Store) and n is not an.targets[0]:
                    self.refuse(n, "the method alias `%s` is assigned more than once" % n.id)

    # -- statements -------------------------------------------------------------------
    def wrap_binds(self, ctx, mark, body):
        """wrap `body` with the effect binds pushed since `mark` (innermost last)"""
        new = self.binds[mark:]
        del self.binds[mark:]
        for b in reversed(new):
            if len(b) == 3 and b[2] == "let":
                body = "(match %s with\n  | %s =>\n%s)" % (b[1], b[0], ind(body, 4))
            else:
                body = ctx.bind(b[1], b[0], body)
        return body

    def S(self, stmts, env, ctx, k):
        """Lean text for executing `stmts` in `env`, then `k(env')` on fall-through"""
        if not stmts:
            return k(env)
        st, rest = stmts[0], stmts[1:]

        def cont(env2):
            return self.S(rest, env2, ctx, k)

        h = getattr(self, "S_" + type(st).__name__, None)
        if h is None:
            self.refuse(st, "unsupported statement")
        self.cur_rest = rest
        try:
            return h(st, env, ctx, cont)
        except EffectInCond:
            self.refuse(st, "an operation that can raise sits in a conditionally evaluated position "
                            "(right operand of and/or, branch of a conditional expression, generator body)")

    def S_Pass(self, st, env, ctx, cont):
        return cont(env)

    def S_Return(self, st, env, ctx, cont):
        if isinstance(ctx, TryCtx):
            self.refuse(st, "`return` inside a `try` body")
        mark = len(self.binds)
        if st.value is None and getattr(self, "returns_self", False) and "self" in env:
            return ctx.ret("self")
        if st.value is None:
            if self.ret_type != UNIT:
                self.refuse(st, "bare `return` in a function returning a value")
            return ctx.ret("()")
        text, ty = self.E(st.value, env, expect=self.ret_type)
        if ty == ANY and self.ret_type != ANY and getattr(self.m, "dynamic", False) and self.ret_type != UNIT:
            # the annotation of a function that hands out a raw value is a claim about well-formed raw data, not a
            # run-time check (`cast` returns its argument): the translated function returns the raw value
            self.ret_type = ANY
            self.changed = True
        text = self.coerce(text, ty, self.ret_type, st)
        return self.wrap_binds(ctx, mark, ctx.ret(text))

    def S_Raise(self, st, env, ctx, cont):
        exc = st.exc
        if st.cause is not None or exc is None:
            self.refuse(st, "`raise` without a class / with `from`")
        cls = None
        if isinstance(exc, ast.Call) and isinstance(exc.func, ast.Name):
            cls = exc.func.id
            for a in exc.args:
                if not self.harmless_exc_arg(a):
                    self.refuse(a, "argument of the exception constructor")
            if exc.keywords:
                self.refuse(exc, "keyword argument of the exception constructor")
        elif isinstance(exc, ast.Name):
            cls = exc.id
        if cls not in getattr(self.m, "err_classes", ERR_CLASSES):
            self.refuse(st, "exception class `%s` has no counterpart in the module's error type" % cls)
        return ctx.raise_(cls)

    def harmless_exc_arg(self, a):
        if isinstance(a, (ast.Constant, ast.Name)):
            return True
        if (isinstance(a, ast.Call) and isinstance(a.func, ast.Attribute) and a.func.attr == "format"
                and isinstance(a.func.value, ast.Constant) and all(isinstance(x, ast.Name) for x in a.args)
                and not a.keywords):
            return True
        return False

    def S_Expr(self, st, env, ctx, cont):
        v = st.value
        if isinstance(v, ast.Constant) and isinstance(v.value, str):
            return cont(env)
        if not isinstance(v, ast.Call):
            self.refuse(st, "expression statement")
        # list mutation through a method or an alias of one
        target = None
        if isinstance(v.func, ast.Attribute) and isinstance(v.func.value, ast.Name) and v.func.attr in ("append", "pop"):
            lty0 = env.get(v.func.value.id)
            if isinstance(lty0, tuple) and lty0[0] == "list":
                target = (v.func.value.id, v.func.attr)
        elif isinstance(v.func, ast.Name) and v.func.id in self.aliases:
            obj, meth = self.aliases[v.func.id]
            if meth in ("append", "pop"):
                target = (obj, meth)
        if target:
            obj, meth = target
            lty = env.get(obj)
            if not (isinstance(lty, tuple) and lty[0] == "list"):
                self.refuse(st, "`%s` is not a list" % obj)
            if v.keywords:
                self.refuse(st, "keyword arguments")
            mark = len(self.binds)
            if meth == "append":
                if len(v.args) != 1:
                    self.refuse(st, "append takes one argument")
                a, aty = self.E(v.args[0], env, expect=lty[1])
                elt = lty[1] if lty[1] is not None else aty
                if lty[1] is not None:
                    a = self.coerce(a, aty, lty[1], st)
                env2, nty = self.declare(env, obj, tlist(elt), st)
                body = "let %s : %s := %s ++ [%s]\n%s" % (lean_ident(obj), lean_type(nty), lean_ident(obj), a, cont(env2))
                return self.wrap_binds(ctx, mark, body)
            if v.args:
                self.refuse(st, "pop with an argument")
            return ctx.bind("pyPop %s" % lean_ident(obj), "(%s, _)" % lean_ident(obj), cont(env))
        wcall = v
        if isinstance(v.func, ast.Name) and v.func.id in self.aliases and self.aliases[v.func.id][1] == "write":
            wcall = ast.Call(func=ast.Attribute(value=ast.Name(id=self.aliases[v.func.id][0], ctx=ast.Load()), attr="write",
                                                ctx=ast.Load()), args=v.args, keywords=v.keywords)
        if isinstance(wcall.func, ast.Attribute) and wcall.func.attr == "write" and isinstance(wcall.func.value, ast.Name) \
                and env.get(wcall.func.value.id) == WRITER and len(wcall.args) == 1 and not wcall.keywords:
            mark = len(self.binds)
            a, aty = self.E(wcall.args[0], env)
            if aty != BYTES:
                self.refuse(st, "write() of a %s" % (aty,))
            obj = lean_ident(wcall.func.value.id)
            return self.wrap_binds(ctx, mark, "let %s : Bytes := (%s ++ %s)\n%s" % (obj, obj, a, cont(env)))
        if isinstance(v.func, ast.Attribute) and v.func.attr in self.SET_MUTATORS and self.self_param \
                and self.m.self_type == STRSET and self.is_field(v.func.value):
            if v.keywords or len(v.args) != 1 or "self" not in env:
                self.refuse(st, "set mutator form")
            mark = len(self.binds)
            meth = v.func.attr
            if meth in ("add", "discard"):
                a, aty = self.E(v.args[0], env)
                if aty != STR:
                    self.refuse(st, ".%s of a %s" % (meth, aty))
                new = "(self ++ [%s])" % a if meth == "add" else "(pySetDiff self [%s])" % a
            else:
                a, aty = self.set_operand(v.args[0], env)
                new = "(self ++ %s)" % a if meth == "update" else "(pySetDiff self %s)" % a
            return self.wrap_binds(ctx, mark, "let self : List Str := %s\n%s" % (new, cont(env)))
        # a call evaluated for its effect (e.g. self.validate())
        mark = len(self.binds)
        text, ty = self.E(v, env)
        if ty != UNIT:
            self.refuse(st, "value of the call is discarded")
        return self.wrap_binds(ctx, mark, cont(env))

    def S_Assert(self, st, env, ctx, cont):
        t = st.test
        # `assert x is not None` for a parameter of a non-optional type, `assert isinstance(x, Text)` for a Str
        if (isinstance(t, ast.Compare) and len(t.ops) == 1 and isinstance(t.ops[0], ast.IsNot)
                and isinstance(t.left, ast.Name) and isinstance(t.comparators[0], ast.Constant)
                and t.comparators[0].value is None and env.get(t.left.id) in (STR, BOOL, NAT, INT)):
            return cont(env)
        if (isinstance(t, ast.Call) and isinstance(t.func, ast.Name) and t.func.id == "isinstance" and len(t.args) == 2
                and isinstance(t.args[0], ast.Name) and env.get(t.args[0].id) == STR
                and isinstance(t.args[1], ast.Name) and t.args[1].id in ("Text", "str")):
            return cont(env)
        self.refuse(st, "assert (only `x is not None` / `isinstance(x, Text)` on typed names are understood)")

    def S_Delete(self, st, env, ctx, cont):
        if len(st.targets) == 1:
            t = st.targets[0]
            if (isinstance(t, ast.Subscript) and isinstance(t.value, ast.Name) and isinstance(t.slice, ast.Slice)
                    and t.slice.lower is None and t.slice.upper is None and t.slice.step is None):
                name = t.value.id
                ty = env.get(name)
                if isinstance(ty, tuple) and ty[0] == "list":
                    return "let %s : %s := []\n%s" % (lean_ident(name), lean_type(self.vartypes.get(name, ty)), cont(env))
        self.refuse(st, "del (only `del <list>[:]`)")

    def S_Assign(self, st, env, ctx, cont):
        field_t = [t for t in st.targets if isinstance(t, ast.Attribute) and isinstance(t.value, ast.Name)
                   and t.value.id == "self" and self.self_param and t.attr == self.m.self_field]
        if field_t:
            # self.<field> = e   /   name = self.<field> = e  (the name is a second handle on the same set)
            others = [t for t in st.targets if t not in field_t]
            if len(field_t) != 1 or not all(isinstance(t, ast.Name) for t in others) or self.m.self_type == STR:
                self.refuse(st, "assignment to the object's field")
            mark = len(self.binds)
            text, ty = self.E(st.value, env, expect=self.m.self_type)
            text = self.coerce(text, ty, self.m.self_type, st)
            for t in others:
                if t.id in env:
                    self.refuse(st, "`%s` already names something else" % t.id)
                self.field_aliases.add(t.id)
            env2 = dict(env)
            env2["self"] = self.m.self_type
            return self.wrap_binds(ctx, mark, "let self : %s := %s\n%s" % (lean_type(self.m.self_type), text, cont(env2)))
        if len(st.targets) != 1:
            self.refuse(st, "chained assignment")
        tgt = st.targets[0]
        if isinstance(tgt, ast.Name) and tgt.id in getattr(self, "field_aliases", ()):
            self.refuse(st, "`%s` is a handle on the object's field and is rebound" % tgt.id)
        if isinstance(tgt, ast.Subscript) and isinstance(tgt.value, ast.Name) and not isinstance(tgt.slice, ast.Slice):
            # l[i] = e
            name = tgt.value.id
            lty = env.get(name)
            if not (isinstance(lty, tuple) and lty[0] == "list"):
                self.refuse(st, "item assignment on a %s" % (lty,))
            mark = len(self.binds)
            i, ity = self.E(tgt.slice, env, expect=INT)
            v, vty = self.E(st.value, env, expect=lty[1])
            v = self.coerce(v, vty, lty[1], st)
            body = ctx.bind("pySetItem %s %s %s" % (lean_ident(name), self.coerce(i, ity, INT, st), self.atom(v)),
                            lean_ident(name), cont(env))
            return self.wrap_binds(ctx, mark, body)
        if isinstance(tgt, ast.Name):
            name = tgt.id
            # alias of a bound method
            v = st.value
            if isinstance(v, ast.Attribute) and isinstance(v.value, ast.Name) and v.value.id in env \
                    and v.attr in ("find", "append", "pop", "read", "write"):
                self.aliases[name] = (v.value.id, v.attr)
                return cont(env)
            if name == "self" or name in self.m.funcs and False:
                self.refuse(st, "assignment to `self`")
            mark = len(self.binds)
            text, ty = self.E(v, env, expect=self.vartypes.get(name))
            if isinstance(v, ast.Name) and isinstance(ty, tuple) and ty[0] == "list" and not self.dead_after(v.id, st):
                self.refuse(st, "a second name for a mutable list")
            if isinstance(ty, tuple) and ty[0] == "list" and ty[1] is None and self.vartypes.get(name) in (None, ty):
                # `x = []`: element type from the variable's other assignments (next pass)
                if name not in self.vartypes:
                    self.vartypes[name] = ty
                self.changed = True
                env2 = dict(env)
                env2[name] = self.vartypes[name]
                return self.wrap_binds(ctx, mark, "let %s := %s\n%s" % (lean_ident(name), text, cont(env2)))
            env2, nty = self.declare(env, name, ty, st)
            text = self.coerce(text, ty, nty, st)
            if isinstance(nty, tuple) and nty[0] == "list" and nty[1] is None:
                self.refuse(st, "element type of the list `%s` is never determined" % name)
            body = "let %s : %s := %s\n%s" % (lean_ident(name), lean_type(nty), text, cont(env2))
            return self.wrap_binds(ctx, mark, body)
        if isinstance(tgt, ast.Tuple) and all(isinstance(e, ast.Name) for e in tgt.elts):
            names = [e.id for e in tgt.elts]
            mark = len(self.binds)
            text, ty = self.E(st.value, env)
            env2 = env
            if isinstance(ty, tuple) and ty[0] == "tuple":
                if len(ty[1]) != len(names):
                    self.refuse(st, "tuple of %d values unpacked into %d names" % (len(ty[1]), len(names)))
                for n, t in zip(names, ty[1]):
                    env2, _ = self.declare(env2, n, t, st)
                pat = "(" + ", ".join(lean_ident(n) for n in names) + ")"
                body = "(match %s with\n  | %s =>\n%s)" % (text, pat, ind(cont(env2), 4))
                return self.wrap_binds(ctx, mark, body)
            if isinstance(ty, tuple) and ty[0] == "list" and len(names) == 2:
                for n in names:
                    env2, _ = self.declare(env2, n, ty[1], st)
                pat = "(" + ", ".join(lean_ident(n) for n in names) + ")"
                body = ctx.bind("pyUnpack2 %s" % text, pat, cont(env2))
                return self.wrap_binds(ctx, mark, body)
            self.refuse(st, "unpacking a value of type %s" % (ty,))
        self.refuse(st, "assignment target")

    def dead_after(self, name, st):
        """`name` is never used again after statement `st` (and `st` is not inside a loop): `x = name` then only
        renames the list"""
        for loop in ast.walk(self.f):
            if isinstance(loop, (ast.For, ast.While)) and any(n is st for n in ast.walk(loop)):
                return False
        end = (st.end_lineno, st.end_col_offset)
        for n in ast.walk(self.f):
            if isinstance(n, ast.Name) and n.id == name and (n.lineno, n.col_offset) > end:
                return False
        return True

    def S_AugAssign(self, st, env, ctx, cont):
        if isinstance(st.target, ast.Name) and isinstance(st.op, ast.BitOr) and st.target.id in env:
            name = st.target.id
            mark = len(self.binds)
            text, ty = self.E(ast.BinOp(left=ast.Name(id=name, ctx=ast.Load()), op=ast.BitOr(), right=st.value), env)
            env2, nty = self.declare(env, name, ty, st)
            body = "let %s : %s := %s\n%s" % (lean_ident(name), lean_type(nty), self.coerce(text, ty, nty, st), cont(env2))
            return self.wrap_binds(ctx, mark, body)
        if not isinstance(st.target, ast.Name) or not isinstance(st.op, ast.Add):
            self.refuse(st, "augmented assignment (only `name += e`, `name |= e`)")
        name = st.target.id
        if name not in env:
            self.refuse(st, "`%s` is not defined" % name)
        if any(o == name for (o, _m) in self.aliases.values()) and env[name] == STR:
            self.refuse(st, "`%s` is rebound while a bound method of it is aliased" % name)
        mark = len(self.binds)
        text, ty = self.binop_add(ast.Name(id=name, ctx=ast.Load()), st.value, env, st)
        env2, nty = self.declare(env, name, ty, st)
        text = self.coerce(text, ty, nty, st)
        body = "let %s : %s := %s\n%s" % (lean_ident(name), lean_type(nty), text, cont(env2))
        return self.wrap_binds(ctx, mark, body)

    def S_If(self, st, env, ctx, cont):
        rest = self.cur_rest
        t = st.test
        if (isinstance(t, ast.Compare) and len(t.ops) == 1 and isinstance(t.ops[0], (ast.Is, ast.IsNot))
                and isinstance(t.left, ast.Name) and isinstance(t.comparators[0], ast.Constant)
                and t.comparators[0].value is None and isinstance(env.get(t.left.id), tuple)
                and env[t.left.id][0] == "opt"):
            name = t.left.id
            env_some = dict(env)
            env_some[name] = env[name][1]
            some_b, none_b = (st.body, st.orelse) if isinstance(t.ops[0], ast.IsNot) else (st.orelse, st.body)
            S = self.S(some_b, env_some, ctx, cont)
            N = self.S(none_b, dict(env), ctx, cont)
            return "(match %s with\n  | some %s =>\n%s\n  | none =>\n%s)" % (
                lean_ident(name), lean_ident(name), ind(S, 4), ind(N, 4))
        if self.wants_join(st, rest):
            return self.S_If_join(st, env, ctx, cont)
        T = self.S(st.body, dict(env), ctx, cont)
        F = self.S(st.orelse, dict(env), ctx, cont)
        return self.cond(st.test, env, ctx, T, F)

    def wants_join(self, st, rest):
        """`if` whose branches cannot leave the block and whose continuation contains a loop: the branches are
        joined (they yield the tuple of the variables they assign) instead of duplicating the continuation"""
        exits = (ast.Return, ast.Break, ast.Continue, ast.Raise)
        for b in st.body + st.orelse:
            for n in ast.walk(b):
                if isinstance(n, exits):
                    return False
        return any(isinstance(n, (ast.For, ast.While)) for r in rest for n in ast.walk(r))

    def S_If_join(self, st, env, ctx, cont):
        state = [n for n in self.mutated_names(st.body + st.orelse) if n in env]
        tup, typ, _ = self.state_texts(state, env)
        joined = None
        for pure in (True, False):
            save = list(self.binds)
            jctx = JoinPureCtx() if pure else JoinResCtx()
            fall = (lambda e: tup) if pure else (lambda e: "(.ok %s)" % tup)
            try:
                T = self.S(st.body, dict(env), jctx, fall)
                F = self.S(st.orelse, dict(env), jctx, fall)
                joined = self.cond(st.test, env, jctx, T, F)
                break
            except NeedRes:
                self.binds = save
        env2 = self.env_with_joined(env, state)
        # the types of the joined variables are the joined types: re-read after the branches declared them
        tup, typ, _ = self.state_texts(state, env2)
        K = cont(env2)
        if pure:
            return "(match (%s : %s) with\n  | %s =>\n%s)" % ("\n" + ind(joined, 4), typ, tup, ind(K, 4))
        if isinstance(ctx, PureCtx):
            raise NeedRes()
        return ctx.bind("(%s : Res (%s))" % ("\n" + ind(joined, 4), typ), tup, K)

    def S_Break(self, st, env, ctx, cont):
        if not isinstance(ctx, LoopCtx):
            self.refuse(st, "`break` outside a loop body")
        return ctx.brk()

    def S_Continue(self, st, env, ctx, cont):
        if not isinstance(ctx, LoopCtx):
            self.refuse(st, "`continue` outside a loop body")
        return ctx.next()

    # loops
    def mutated_names(self, body):
        """names (re)bound or mutated in `body`, in order of first occurrence"""
        out = []

        def add(n):
            if n not in out:
                out.append(n)

        class V(ast.NodeVisitor):
            def visit_Assign(v, node):
                for t in node.targets:
                    for x in ast.walk(t):
                        if isinstance(x, ast.Name):
                            add(x.id)
                v.generic_visit(node)

            def visit_AugAssign(v, node):
                if isinstance(node.target, ast.Name):
                    add(node.target.id)
                v.generic_visit(node)

            def visit_Delete(v, node):
                for t in node.targets:
                    if isinstance(t, ast.Subscript) and isinstance(t.value, ast.Name):
                        add(t.value.id)

            def visit_Expr(v, node):
                c = node.value
                if isinstance(c, ast.Call):
                    if isinstance(c.func, ast.Attribute) and isinstance(c.func.value, ast.Name) and c.func.attr in ("append", "pop"):
                        add(c.func.value.id)
                    elif isinstance(c.func, ast.Name) and c.func.id in self.aliases and self.aliases[c.func.id][1] in ("append", "pop"):
                        add(self.aliases[c.func.id][0])
                v.generic_visit(node)

            def visit_Call(v, node):
                fn = node.func
                if isinstance(fn, ast.Attribute) and isinstance(fn.value, ast.Name) and fn.attr in ("read", "write"):
                    add(fn.value.id)
                elif isinstance(fn, ast.Name) and fn.id in self.aliases and self.aliases[fn.id][1] in ("read", "write"):
                    add(self.aliases[fn.id][0])
                v.generic_visit(node)

            def visit_For(v, node):
                for x in ast.walk(node.target):
                    if isinstance(x, ast.Name):
                        add(x.id)
                v.generic_visit(node)

        vis = V()
        for s in body:
            vis.visit(s)
        return out

    def has_return(self, body):
        return any(isinstance(n, ast.Return) for s in body for n in ast.walk(s))

    def loop_state(self, st, body, env, exclude=()):
        names = [n for n in self.mutated_names(body) if n not in exclude]
        state = []
        for n in names:
            if n in env:
                state.append(n)
        return state

    def state_texts(self, state, env):
        if not state:
            return "()", "Unit", []
        tup = "(" + ", ".join(lean_ident(n) for n in state) + ")" if len(state) > 1 else lean_ident(state[0])
        typ = " × ".join(lean_type(self.vartypes.get(n, env[n])) for n in state)
        if len(state) > 1:
            typ = "(" + typ + ")"
        # projections for `fun s => ...`
        lets = []
        for i, n in enumerate(state):
            if len(state) == 1:
                proj = "st'"
            else:
                proj = "st'" + ".2" * i + (".1" if i < len(state) - 1 else "")
            lets.append("let %s : %s := %s" % (lean_ident(n), lean_type(self.vartypes.get(n, env[n])), proj))
        return tup, typ, lets

    def check_locals_after(self, st, body, env, target_names):
        """variables first bound inside the loop may not be read after it"""
        inside = [n for n in self.mutated_names(body) if n not in env] + list(target_names)
        return set(inside)

    def loop_result(self, call, state_tup, ctx, env_after, cont, has_ret):
        done = cont(env_after)
        if has_ret:
            ret_arm = ctx.ret("r'") if not isinstance(ctx, TryCtx) else None
            if ret_arm is None:
                self.refuse(self.f, "`return` inside a loop inside a `try` body")
        else:
            ret_arm = "nomatch r'"
        return "(match %s with\n  | .done %s =>\n%s\n  | .ret r' => %s\n  | .exc e' => %s)" % (
            call, state_tup, ind(done, 4), ret_arm, ctx.reraise("e'"))

    def S_For_iter_sentinel(self, st, env, ctx, cont):
        """`for x in iter(lambda: e, None): body`  =  `while True: x = e; if x is None: break; body`"""
        lam = st.iter.args[0]
        fname = self.name.split(".")[-1]
        hints = FOR_ITER_FUEL.get("%s.%s" % (self.m.modname, fname), [])
        loops = sorted((n for n in ast.walk(self.f) if isinstance(n, ast.For) and self.is_iter_sentinel(n)),
                       key=lambda n: (n.lineno, n.col_offset))
        k = loops.index(st)
        if k >= len(hints):
            self.refuse(st, "`for ... in iter(callable, None)` without a termination hint (FOR_ITER_FUEL)")
        if not isinstance(st.target, ast.Name) or st.target.id in env or reserved(st.target.id):
            self.refuse(st.target, "loop target")
        state = self.loop_state(st, [ast.Expr(value=lam.body)] + st.body, env, exclude=[st.target.id])
        tup, typ, slets = self.state_texts(state, env)
        lctx = LoopCtx(tup)
        mark = len(self.binds)
        v, vty = self.E(lam.body, env)
        if not (isinstance(vty, tuple) and vty[0] == "opt"):
            self.refuse(lam, "the callable of iter(callable, None) does not yield an optional value")
        env_body = dict(env)
        env_body[st.target.id] = vty[1]
        body = self.S(st.body, env_body, lctx, lambda e: lctx.next())
        step = "(match %s with\n  | none => %s\n  | some %s =>\n%s)" % (v, lctx.brk(), lean_ident(st.target.id), ind(body, 4))
        step = self.wrap_binds(lctx, mark, step)
        has_ret = self.has_return(st.body)
        rho = lean_type(self.ret_type) if has_ret else "Empty"
        fn = "(fun st' =>\n%s)" % ind("\n".join(slets + [step]), 4)
        call = "pyWhile (σ := %s) (ρ := %s) (%s) %s\n%s" % (typ, rho, hints[k], tup, ind(fn, 4))
        self.loop_locals = getattr(self, "loop_locals", set()) | self.check_locals_after(st, st.body, env, [st.target.id])
        return self.loop_result(call, tup, ctx, self.env_with_joined(env, state), cont, has_ret)

    def is_iter_sentinel(self, st):
        it = st.iter
        return (isinstance(it, ast.Call) and isinstance(it.func, ast.Name) and it.func.id == "iter" and len(it.args) == 2
                and not it.keywords and isinstance(it.args[0], ast.Lambda) and not it.args[0].args.args
                and isinstance(it.args[1], ast.Constant) and it.args[1].value is None)

    def S_For(self, st, env, ctx, cont):
        if isinstance(ctx, PureCtx):
            raise NeedRes()
        if st.orelse:
            self.refuse(st, "for ... else")
        if self.is_iter_sentinel(st):
            return self.S_For_iter_sentinel(st, env, ctx, cont)
        mark = len(self.binds)
        it_text, it_ty = self.iterable(st.iter, env)
        if not (isinstance(it_ty, tuple) and it_ty[0] == "list"):
            self.refuse(st.iter, "iteration over a value of type %s" % (it_ty,))
        elt = it_ty[1]
        # target
        tlets = []
        env_body = dict(env)
        if isinstance(st.target, ast.Name):
            tnames = [st.target.id]
            tlets.append("let %s : %s := it'" % (lean_ident(st.target.id), lean_type(elt)))
            env_body[st.target.id] = elt
        elif isinstance(st.target, ast.Tuple) and all(isinstance(e, ast.Name) for e in st.target.elts) \
                and isinstance(elt, tuple) and elt[0] == "tuple" and len(elt[1]) == len(st.target.elts) == 2:
            tnames = [e.id for e in st.target.elts]
            for i, (n, t) in enumerate(zip(tnames, elt[1])):
                tlets.append("let %s : %s := it'.%d" % (lean_ident(n), lean_type(t), i + 1))
                env_body[n] = t
        else:
            self.refuse(st.target, "loop target")
        for n in tnames:
            if n in env:
                self.refuse(st.target, "loop variable `%s` shadows an existing variable" % n)
            if reserved(n):
                self.refuse(st.target, "the loop variable `%s` collides with a name the generated code uses" % n)
        state = self.loop_state(st, st.body, env, exclude=tnames)
        tup, typ, slets = self.state_texts(state, env)
        lctx = LoopCtx(tup)
        body = self.S(st.body, env_body, lctx, lambda e: lctx.next())
        has_ret = self.has_return(st.body)
        rho = lean_type(self.ret_type) if has_ret else "Empty"
        fn = "(fun it' st' =>\n%s)" % ind("\n".join(tlets + slets + [body]), 4)
        call = "pyFor (σ := %s) (ρ := %s) %s %s\n%s" % (typ, rho, it_text, tup, ind(fn, 4))
        env_after = self.env_with_joined(env, state)
        self.loop_locals = getattr(self, "loop_locals", set()) | self.check_locals_after(st, st.body, env, tnames)
        out = self.loop_result(call, tup, ctx, env_after, cont, has_ret)
        return self.wrap_binds(ctx, mark, out)

    def S_While(self, st, env, ctx, cont):
        if isinstance(ctx, PureCtx):
            raise NeedRes()
        if st.orelse:
            self.refuse(st, "while ... else")
        fname = self.name.split(".")[-1]
        hints = WHILE_FUEL.get("%s.%s" % (self.m.modname, fname), WHILE_FUEL.get(fname, []))
        whiles = sorted((n for n in ast.walk(self.f) if isinstance(n, ast.While)), key=lambda n: (n.lineno, n.col_offset))
        windex = whiles.index(st)      # hints are per loop in source order (the translation may visit a loop twice)
        if windex >= len(hints):
            self.refuse(st, "`while` loop without a termination hint (WHILE_FUEL)")
        hint = hints[windex]
        mark = len(self.binds)
        try:
            hexpr = ast.parse(hint, mode="eval").body
        except SyntaxError:
            self.refuse(st, "unparsable termination hint %r" % hint)
        ftext, fty = self.E(hexpr, env)
        if fty != NAT:
            self.refuse(st, "termination hint %r is not a natural number" % hint)
        state = self.loop_state(st, st.body, env)
        tup, typ, slets = self.state_texts(state, env)
        lctx = LoopCtx(tup)
        body = self.S(st.body, dict(env), lctx, lambda e: lctx.next())
        step = self.cond(st.test, env, lctx, body, lctx.brk())
        has_ret = self.has_return(st.body)
        rho = lean_type(self.ret_type) if has_ret else "Empty"
        fn = "(fun st' =>\n%s)" % ind("\n".join(slets + [step]), 4)
        call = "pyWhile (σ := %s) (ρ := %s) %s %s\n%s" % (typ, rho, ftext, tup, ind(fn, 4))
        self.loop_locals = getattr(self, "loop_locals", set()) | self.check_locals_after(st, st.body, env, [])
        out = self.loop_result(call, tup, ctx, self.env_with_joined(env, state), cont, has_ret)
        return self.wrap_binds(ctx, mark, out)

    def env_with_joined(self, env, names):
        env2 = dict(env)
        for n in names:
            env2[n] = self.vartypes.get(n, env2.get(n))
        return env2

    def cache_idiom(self, st):
        """try: X = CACHE[k]  except KeyError: ...; CACHE[k] = X [= e]   for a module-level LRUCache:
        returns the statements of the handler with the store removed (`CACHE[k] = X = e` becomes `X = e`),
        i.e. the function *modulo the cache*, or None.  Transparency of the cache is a separate theorem (C14)."""
        if st.finalbody or st.orelse or len(st.handlers) != 1 or len(st.body) != 1:
            return None
        h = st.handlers[0]
        b = st.body[0]
        if not (isinstance(h.type, ast.Name) and h.type.id == "KeyError" and h.name is None):
            return None
        if not (isinstance(b, ast.Assign) and len(b.targets) == 1 and isinstance(b.value, ast.Subscript)
                and isinstance(b.value.value, ast.Name) and b.value.value.id in self.m.caches):
            return None
        cache, key, tgt = b.value.value.id, ast.unparse(b.value.slice), ast.unparse(b.targets[0])
        if not h.body:
            return None
        last = h.body[-1]
        if not (isinstance(last, ast.Assign) and isinstance(last.targets[0], ast.Subscript)
                and isinstance(last.targets[0].value, ast.Name) and last.targets[0].value.id == cache
                and ast.unparse(last.targets[0].slice) == key):
            self.refuse(st, "cache idiom: the `except KeyError` block does not end by storing under the key that was looked up")
        for n in h.body[:-1]:
            for x in ast.walk(n):
                if isinstance(x, ast.Name) and x.id == cache:
                    self.refuse(st, "cache idiom: the cache is used inside the `except KeyError` block")
        if len(last.targets) == 2 and ast.unparse(last.targets[1]) == tgt:
            new_last = ast.Assign(targets=[last.targets[1]], value=last.value)      # CACHE[k] = X = e
            ast.copy_location(new_last, last)
            ast.fix_missing_locations(new_last)
            return h.body[:-1] + [new_last]
        if len(last.targets) == 1 and ast.unparse(last.value).strip("()") == tgt.strip("()"):
            return h.body[:-1]                                                       # CACHE[k] = (a, b) with a, b assigned above
        self.refuse(st, "cache idiom: what is stored is not what the lookup binds")

    def S_Try(self, st, env, ctx, cont):
        modulo = self.cache_idiom(st)
        if modulo is not None:
            return self.S(modulo, env, ctx, cont)
        if isinstance(ctx, PureCtx):
            raise NeedRes()
        if st.finalbody or len(st.handlers) != 1:
            self.refuse(st, "try with finally / several handlers")
        if len(st.body) == 1 and isinstance(st.body[0], ast.Return) and st.body[0].value is not None and not st.orelse:
            # `try: return e  except K: ...`  =  `try: v = e  except K: ...  else: return v`
            tmpname = "try_value"
            if any(isinstance(n, ast.Name) and n.id == tmpname for n in ast.walk(self.f)) or tmpname in env:
                self.refuse(st, "`return` inside a `try` body (the helper name `%s` is taken)" % tmpname)
            asg = ast.Assign(targets=[ast.Name(id=tmpname, ctx=ast.Store())], value=st.body[0].value)
            retn = ast.Return(value=ast.Name(id=tmpname, ctx=ast.Load()))
            new = ast.Try(body=[asg], handlers=st.handlers, orelse=[retn], finalbody=[])
            for x in (asg, retn, new):
                ast.copy_location(x, st.body[0])
            ast.fix_missing_locations(new)
            return self.S_Try(new, env, ctx, cont)
        h = st.handlers[0]
        if not isinstance(h.type, ast.Name) or h.type.id not in getattr(self.m, "catchable", CATCHABLE) or h.name is not None:
            self.refuse(h, "except clause (only `except IndexError:` without a name: Err has no class hierarchy, "
                           "so catching a class with subclasses, e.g. ValueError > IllegalBackReference, is not modelled)")
        if self.has_return(st.body):
            self.refuse(st, "`return` inside a `try` body")
        if not h.body or not isinstance(h.body[-1], (ast.Raise, ast.Return)):
            self.refuse(h, "an `except` block that falls through")
        # the variables the body assigns (also new ones: an `else` block / the continuation may read them)
        # (names bound only inside a loop of the body are not in scope where the body ends)
        cands = list(self.mutated_names(st.body))
        box = {}

        def fall(e):
            names = [n for n in cands if n in e]
            if box.setdefault("state", names) != names:
                self.refuse(st, "the `try` body ends with different sets of variables on different paths")
            return "(.ok %s)" % self.state_texts(names, e)[0]

        tctx = TryCtx()
        body = self.S(st.body, dict(env), tctx, fall)
        state = box.get("state", [n for n in cands if n in env])
        env_after = self.env_with_joined(env, state)
        if any(env_after.get(n) is None for n in state):
            self.refuse(st, "a variable assigned in the `try` body has no type yet")
        tup, typ, _ = self.state_texts(state, env_after)
        handler = self.S(h.body, dict(env), ctx, lambda e: self.refuse(h, "an `except` block that falls through"))
        # `else:` runs after a body that raised nothing; an exception inside it is not caught by the handler
        after = self.S(list(st.orelse), env_after, ctx, cont)
        return ("(match (%s : Res (%s)) with\n  | .ok %s =>\n%s\n  | .err .%s =>\n%s\n  | .err e' => %s)"
                % ("\n" + ind(body, 4), typ, tup, ind(after, 4), h.type.id, ind(handler, 4), ctx.reraise("e'")))

    # -- tests --------------------------------------------------------------------------
    def cond(self, test, env, ctx, T, F):
        """`if test then T else F`; effectful short-circuit operands become nested ifs"""
        save = list(self.binds)
        mark = len(self.binds)
        try:
            t = self.truthy(test, env)
            return self.wrap_binds(ctx, mark, "if %s then\n%s\nelse\n%s" % (t, ind(T), ind(F)))
        except EffectInCond:
            self.binds = save
        if isinstance(test, ast.BoolOp) and isinstance(test.op, ast.And):
            out = T
            for v in reversed(test.values):
                out = self.cond(v, env, ctx, out, F)
            return out
        if isinstance(test, ast.BoolOp) and isinstance(test.op, ast.Or):
            out = F
            for v in reversed(test.values):
                out = self.cond(v, env, ctx, T, out)
            return out
        if isinstance(test, ast.UnaryOp) and isinstance(test.op, ast.Not):
            return self.cond(test.operand, env, ctx, F, T)
        self.refuse(test, "effectful operand in a conditionally evaluated position")

    def truthy(self, e, env):
        """Lean Bool text of the truth value of `e`"""
        if isinstance(e, ast.UnaryOp) and isinstance(e.op, ast.Not):
            inner = e.operand
            text, ty = self.E(inner, env)
            if ty == BOOL:
                return "(!%s)" % text
            if ty == STR or (isinstance(ty, tuple) and ty[0] == "list"):
                return "%s.isEmpty" % self.atom(text)
            if ty == ANY:
                return "(!Info.JVal.truthy %s)" % self.atom(text)
            self.refuse(e, "truth value of a %s" % (ty,))
        if isinstance(e, ast.BoolOp):
            op = "&&" if isinstance(e.op, ast.And) else "||"
            parts = []
            for i, v in enumerate(e.values):
                mark = len(self.binds)
                parts.append(self.truthy(v, env))
                if i > 0 and len(self.binds) > mark:
                    raise EffectInCond()
            return "(" + (" %s " % op).join(parts) + ")"
        text, ty = self.E(e, env)
        if ty == BOOL:
            return text
        if ty == STR or (isinstance(ty, tuple) and ty[0] == "list"):
            return "(!%s.isEmpty)" % self.atom(text)
        if ty in (NAT, INT):
            return "(%s != 0)" % text
        if ty == topt(BOOL):
            return "(%s == some true)" % text
        if ty == ANY:
            return "(Info.JVal.truthy %s)" % self.atom(text)
        self.refuse(e, "truth value of a %s" % (ty,))

    def atom(self, text):
        if text.startswith("(") or text.startswith("[") or text.replace("_", "a").replace("«", "a").replace("»", "a").isalnum():
            return text
        return "(%s)" % text

    # -- expressions --------------------------------------------------------------------
    def iterable(self, e, env):
        if isinstance(e, ast.Call) and isinstance(e.func, ast.Name) and e.func.id == "zip" and len(e.args) == 2 and not e.keywords:
            a, aty = self.iterable(e.args[0], env)
            b, bty = self.iterable(e.args[1], env)
            for x, t in ((e.args[0], aty), (e.args[1], bty)):
                if not (isinstance(t, tuple) and t[0] == "list"):
                    self.refuse(x, "zip over a value of type %s" % (t,))
            return "(List.zip %s %s)" % (a, b), tlist(ttuple(aty[1], bty[1]))
        if isinstance(e, ast.Call) and isinstance(e.func, ast.Name) and e.func.id == "enumerate" and len(e.args) == 1 and not e.keywords:
            a, aty = self.iterable(e.args[0], env)
            return "(pyEnumerate %s)" % a, tlist(ttuple(NAT, aty[1]))
        if isinstance(e, ast.Call) and isinstance(e.func, ast.Name) and e.func.id == "range" and len(e.args) in (1, 2) and not e.keywords:
            lo, loty = ("(0 : Nat)", NAT) if len(e.args) == 1 else self.E(e.args[0], env)
            hi, hity = self.E(e.args[-1], env)
            if loty == NAT and hity == NAT:
                return "(List.range' %s (%s - %s))" % (lo, hi, lo), tlist(NAT)
            self.refuse(e, "range over %s, %s" % (loty, hity))
        if isinstance(e, ast.Call) and isinstance(e.func, ast.Name) and e.func.id == "reversed" and len(e.args) == 1 and not e.keywords:
            a, aty = self.iterable(e.args[0], env)
            return "(List.reverse %s)" % a, aty
        text, ty = self.E(e, env)
        if ty == STR:
            return "(pyChars %s)" % text, tlist(STR)
        if ty == STRSET:
            self.refuse(e, "iteration over a set (its order is not modelled)")
        return text, ty

    def E(self, e, env, expect=None):
        h = getattr(self, "E_" + type(e).__name__, None)
        if h is None:
            self.refuse(e, "unsupported expression")
        return h(e, env, expect)

    def E_Constant(self, e, env, expect):
        v = e.value
        if isinstance(v, bool):
            return ("true" if v else "false"), BOOL
        if isinstance(v, str):
            return lean_str(v), STR
        if isinstance(v, int):
            if v < 0 or expect == INT:
                return "(%d : Int)" % v, INT
            return "(%d : Nat)" % v, NAT
        if v is None:
            if isinstance(expect, tuple) and expect[0] == "opt" or expect == NONE:
                return "none", NONE
            return "()", UNIT
        self.refuse(e, "constant of type %s" % type(v).__name__)

    def E_Name(self, e, env, expect):
        n = e.id
        if n in getattr(self, "loop_locals", set()) and n not in env:
            self.refuse(e, "`%s` is first bound inside a loop and read after it" % n)
        if n in getattr(self, "field_aliases", ()) and "self" in env:
            return "self", self.m.self_type
        if n in env:
            return lean_ident(n), env[n]
        if n in self.m.consts:
            ln, ty = self.m.consts[n]
            return ln, ty
        if n in ("True", "False"):
            return n.lower(), BOOL
        if n in self.m.funcs and not self.m.funcs[n].vararg and not self.m.funcs[n].defaults:
            info = self.m.funcs[n]
            names = ["a%d'" % (k + 1) for k in range(len(info.params))]
            call = "%s %s" % (info.lean_name, " ".join(names))
            if not info.raises:
                call = "(.ok (%s))" % call
            return "(fun %s => %s)" % (" ".join(names), call), tfn([t for _n, t in info.params], info.ret)
        self.refuse(e, "unknown name `%s`" % n)

    def E_Attribute(self, e, env, expect):
        if self.self_param and isinstance(e.value, ast.Name) and e.value.id == "self":
            if e.attr == self.m.self_field:
                if "self" not in env:
                    self.refuse(e, "the object's field is read before it is assigned")
                return "self", self.m.self_type
            if e.attr in self.m.class_consts:
                return self.m.class_consts[e.attr]
            if e.attr in self.m.properties and e.attr in self.m.methods:
                return self.call_info(self.m.methods[e.attr], ["self"], e)
            self.refuse(e, "attribute `self.%s`" % e.attr)
        if self.self_param and isinstance(e.value, ast.Name) and e.value.id == "cls" and e.attr in self.m.class_consts:
            return self.m.class_consts[e.attr]
        if isinstance(e.value, ast.Name) and env.get(e.value.id) == INFOREC and e.attr in ("size", "modified"):
            return ("%s.1" % lean_ident(e.value.id), NAT) if e.attr == "size" else ("%s.2" % lean_ident(e.value.id), topt(INT))
        if isinstance(e.value, ast.Name) and e.value.id == "six" and e.attr == "PY2":
            return "false", BOOL      # Python 3 (trusted base: the interpreter under test is CPython 3)
        self.refuse(e, "attribute access")

    def E_UnaryOp(self, e, env, expect):
        if isinstance(e.op, ast.Not):
            return self.truthy(e, env), BOOL
        if isinstance(e.op, ast.USub) and isinstance(e.operand, ast.Constant) and isinstance(e.operand.value, int) \
                and not isinstance(e.operand.value, bool):
            return "(%d : Int)" % (-e.operand.value), INT
        self.refuse(e, "unary operator")

    def none_test(self, v, env):
        """`name is None` / `name is not None` on an optional variable: (name, is_none) or None"""
        if (isinstance(v, ast.Compare) and len(v.ops) == 1 and isinstance(v.ops[0], (ast.Is, ast.IsNot))
                and isinstance(v.left, ast.Name) and isinstance(v.comparators[0], ast.Constant)
                and v.comparators[0].value is None and isinstance(env.get(v.left.id), tuple) and env[v.left.id][0] == "opt"):
            return v.left.id, isinstance(v.ops[0], ast.Is)
        return None

    def E_BoolOp(self, e, env, expect):
        # `x is None or REST` (`x is not None and REST`): REST is evaluated with x narrowed to its value
        nt = self.none_test(e.values[0], env)
        if nt is not None and len(e.values) >= 2 and nt[1] == isinstance(e.op, ast.Or):
            name, _ = nt
            rest = e.values[1] if len(e.values) == 2 else ast.BoolOp(op=e.op, values=e.values[1:])
            env2 = dict(env)
            env2[name] = env[name][1]
            mark = len(self.binds)
            r, rty = self.E(rest, env2, expect)
            if len(self.binds) > mark:
                raise EffectInCond()
            if rty != BOOL:
                self.refuse(e, "`is None` short circuit over a %s" % (rty,))
            short = "true" if isinstance(e.op, ast.Or) else "false"
            n = lean_ident(name)
            return "(match %s with | none => %s | some %s => %s)" % (n, short, n, r), BOOL
        # value semantics: all operands Bool -> &&/||; `s or t` on strings -> pyOr
        vals = []
        for i, v in enumerate(e.values):
            mark = len(self.binds)
            vals.append(self.E(v, env))
            if i > 0 and len(self.binds) > mark:
                raise EffectInCond()
        tys = [t for (_x, t) in vals]
        if all(t == BOOL for t in tys):
            op = "&&" if isinstance(e.op, ast.And) else "||"
            return "(" + (" %s " % op).join(x for (x, _t) in vals) + ")", BOOL
        if isinstance(e.op, ast.Or) and len(vals) == 2 and tys[0] == topt(INT) and tys[1] in (NAT, INT):
            return "(pyOrOptInt %s %s)" % (vals[0][0], self.coerce(vals[1][0], tys[1], INT, e)), INT
        if isinstance(e.op, ast.Or) and len(vals) == 2 and tys[0] == BYTES and tys[1] in (UNIT, NONE):
            return "(if (!%s.isEmpty) then some %s else none)" % (self.atom(vals[0][0]), vals[0][0]), topt(BYTES)
        if isinstance(e.op, ast.Or) and len(vals) == 2 and tys == [topt(STR), STR]:
            return "(pyOrOpt %s %s)" % (vals[0][0], vals[1][0]), STR
        if isinstance(e.op, ast.Or) and all(t == STR for t in tys):
            out = vals[-1][0]
            for x, _t in reversed(vals[:-1]):
                out = "(pyOr %s %s)" % (x, out)
            return out, STR
        self.refuse(e, "`and`/`or` on values of types %s outside a test" % (tys,))

    def E_IfExp(self, e, env, expect):
        mark = len(self.binds)
        c = self.truthy(e.test, env)
        m2 = len(self.binds)
        none_a = isinstance(e.body, ast.Constant) and e.body.value is None
        none_b = isinstance(e.orelse, ast.Constant) and e.orelse.value is None
        a, aty = ("none", NONE) if none_a else self.E(e.body, env, expect[1] if isinstance(expect, tuple) and expect[0] == "opt" else expect)
        b, bty = ("none", NONE) if none_b else self.E(e.orelse, env, expect[1] if isinstance(expect, tuple) and expect[0] == "opt" else expect)
        if len(self.binds) > m2:
            raise EffectInCond()
        ty = join_types(aty, bty)
        if ty is None:
            self.refuse(e, "branches of different types (%s, %s)" % (aty, bty))
        return "(if %s then %s else %s)" % (c, self.coerce(a, aty, ty, e), self.coerce(b, bty, ty, e)), ty

    def binop_add(self, l, r, env, node):
        a, aty = self.E(l, env)
        b, bty = self.E(r, env)
        if aty == STR and bty == STR:
            return "(%s ++ %s)" % (a, b), STR
        if isinstance(aty, tuple) and aty[0] == "list" and isinstance(bty, tuple) and bty[0] == "list":
            ty = join_types(aty, bty)
            if ty is None:
                self.refuse(node, "concatenation of lists of different types")
            return "(%s ++ %s)" % (a, b), ty
        if aty in (NAT, INT) and bty in (NAT, INT):
            ty = join_types(aty, bty)
            return "(%s + %s)" % (self.coerce(a, aty, ty, node), self.coerce(b, bty, ty, node)), ty
        self.refuse(node, "`+` on values of types %s and %s" % (aty, bty))

    def E_BinOp(self, e, env, expect):
        if isinstance(e.op, ast.Add):
            return self.binop_add(e.left, e.right, env, e)
        if isinstance(e.op, ast.Sub):
            a, aty = self.E(e.left, env)
            b, bty = self.E(e.right, env)
            if aty in (NAT, INT) and bty in (NAT, INT):
                return "(%s - %s)" % (self.coerce(a, aty, INT, e), self.coerce(b, bty, INT, e)), INT
            self.refuse(e, "`-` on values of types %s and %s" % (aty, bty))
        if isinstance(e.op, ast.Mult):
            a, aty = self.E(e.left, env)
            b, bty = self.E(e.right, env)
            if aty in (NAT, INT) and bty in (NAT, INT):
                ty = join_types(aty, bty)
                return "(%s * %s)" % (self.coerce(a, aty, ty, e), self.coerce(b, bty, ty, e)), ty
            if isinstance(aty, tuple) and aty[0] == "list" and bty in (NAT, INT):
                return "(pyRepeat %s %s)" % (a, self.coerce(b, bty, INT, e)), aty
            self.refuse(e, "`*` on values of types %s and %s" % (aty, bty))
        if isinstance(e.op, (ast.BitAnd, ast.BitOr)):
            a, aty = self.E(e.left, env)
            b, bty = self.E(e.right, env)
            if aty == NAT and bty == NAT:
                sym = "&&&" if isinstance(e.op, ast.BitAnd) else "|||"
                return "(%s %s %s)" % (a, sym, b), NAT
            if aty in (NAT, INT) and bty in (NAT, INT) and isinstance(e.op, ast.BitAnd):
                return "(pyBitAnd %s %s)" % (self.coerce(a, aty, INT, e), self.coerce(b, bty, INT, e)), INT
            self.refuse(e, "bit operation on values of types %s and %s" % (aty, bty))
        if isinstance(e.op, ast.Mod) and isinstance(e.left, ast.Constant) and isinstance(e.left.value, str):
            lit = e.left.value
            pieces = lit.split("%s")
            if "%" in "".join(pieces):
                self.refuse(e, "format string (only `%s` fields)")
            args = list(e.right.elts) if isinstance(e.right, ast.Tuple) else [e.right]
            if len(args) != len(pieces) - 1:
                self.refuse(e, "number of `%s` fields and arguments differ")
            out = []
            for k, piece in enumerate(pieces):
                if piece:
                    out.append(lean_str(piece))
                if k < len(args):
                    a, aty = self.E(args[k], env)
                    if aty != STR:
                        self.refuse(args[k], "`%%s` argument of type %s" % (aty,))
                    out.append(a)
            if not out:
                return lean_str(""), STR
            text = out[0]
            for piece in out[1:]:
                text = "(%s ++ %s)" % (text, piece)
            return text, STR
        self.refuse(e, "binary operator")

    def E_Compare(self, e, env, expect):
        if len(e.ops) != 1:
            self.refuse(e, "chained comparison")
        op = e.ops[0]
        l, r = e.left, e.comparators[0]
        if isinstance(op, (ast.Is, ast.IsNot)) and isinstance(r, ast.Constant) and r.value is None:
            a, aty = self.E(l, env)
            if aty == "match":      # the result of <pattern>.match(s): None or a match object
                return (a if isinstance(op, ast.IsNot) else "(!%s)" % a), BOOL
            if isinstance(aty, tuple) and aty[0] == "opt":
                return ("(Option.isSome %s)" if isinstance(op, ast.IsNot) else "(Option.isNone %s)") % a, BOOL
            if aty == ANY:
                return ("(!pyIsNone %s)" if isinstance(op, ast.IsNot) else "(pyIsNone %s)") % a, BOOL
            self.refuse(e, "`is None` test of a %s" % (aty,))
        if isinstance(op, (ast.In, ast.NotIn)):
            a, aty = self.E(l, env)
            neg = isinstance(op, ast.NotIn)
            # `x in self` on an object of the class being translated -> __contains__
            if self.self_param and isinstance(r, ast.Name) and r.id == "self":
                if "__contains__" not in self.m.methods:
                    self.refuse(e, "`in self` but __contains__ is not translated")
                text, ty = self.call_info(self.m.methods["__contains__"], ["self", a], e)
                return ("(!%s)" % text if neg else text), BOOL
            b, bty = self.E(r, env)
            if aty == STR and bty == RAWD:
                text = "(pyDictHas %s %s)" % (b, a)
                return ("(!%s)" % text if neg else text), BOOL
            if aty == STR and bty == ANY:
                t = self.fresh()
                self.binds.append((t, "pyAnyIn %s %s" % (a, b)))
                return ("(!%s)" % t if neg else t), BOOL
            if aty == STR and bty == STRSET:
                text = "(List.contains %s %s)" % (b, a)
            elif aty == STR and bty == STR:
                text = "(pyIn %s %s)" % (a, b)
            elif isinstance(bty, tuple) and bty[0] == "list" and bty[1] == aty and aty in (STR, NAT, INT, BOOL):
                text = "(List.contains %s %s)" % (b, a)
            else:
                self.refuse(e, "`in` with operand types %s, %s" % (aty, bty))
            return ("(!%s)" % text if neg else text), BOOL
        a, aty = self.E(l, env)
        b, bty = self.E(r, env)
        ty = join_types(aty, bty)
        if ty is None:
            self.refuse(e, "comparison of values of types %s and %s" % (aty, bty))
        a, b = self.coerce(a, aty, ty, e), self.coerce(b, bty, ty, e)
        if isinstance(op, ast.Eq):
            if ty in (STR, NAT, INT, BOOL) or (isinstance(ty, tuple) and ty[0] in ("list", "tuple")):
                return "(%s == %s)" % (a, b), BOOL
        if isinstance(op, ast.NotEq):
            if ty in (STR, NAT, INT, BOOL) or (isinstance(ty, tuple) and ty[0] in ("list", "tuple")):
                return "(%s != %s)" % (a, b), BOOL
        sym = {ast.Lt: "<", ast.LtE: "≤", ast.Gt: ">", ast.GtE: "≥"}.get(type(op))
        if sym and ty in (NAT, INT):
            return "(decide (%s %s %s))" % (a, sym, b), BOOL
        self.refuse(e, "comparison operator on type %s" % (ty,))

    def E_List(self, e, env, expect):
        if not e.elts:
            ety = expect[1] if isinstance(expect, tuple) and expect[0] == "list" else None
            if ety is None:
                return "[]", tlist(None)
            return "([] : %s)" % lean_type(tlist(ety)), tlist(ety)
        items = [self.E(x, env) for x in e.elts]
        ty = items[0][1]
        for _x, t in items[1:]:
            ty = join_types(ty, t)
            if ty is None:
                self.refuse(e, "list literal with elements of different types")
        return "[" + ", ".join(self.coerce(x, t, ty, e) for (x, t) in items) + "]", tlist(ty)

    def E_Tuple(self, e, env, expect):
        exp = expect[1] if isinstance(expect, tuple) and expect[0] == "tuple" and len(expect[1]) == len(e.elts) else [None] * len(e.elts)
        items = []
        for x, ex in zip(e.elts, exp):
            t, ty = self.E(x, env, ex)
            if ex is not None and ty != ex and join_types(ty, ex) == ex:
                t, ty = self.coerce(t, ty, ex, x), ex
            items.append((t, ty))
        return "(" + ", ".join(x for (x, _t) in items) + ")", ttuple(*[t for (_x, t) in items])

    def E_Subscript(self, e, env, expect):
        v, vty = self.E(e.value, env)
        s = e.slice
        if isinstance(s, ast.Slice):
            if not (vty == STR or (isinstance(vty, tuple) and vty[0] == "list")):
                self.refuse(e, "slice of a %s" % (vty,))
            if s.step is not None:
                if (s.lower is None and s.upper is None and isinstance(s.step, ast.UnaryOp) and isinstance(s.step.op, ast.USub)
                        and isinstance(s.step.operand, ast.Constant) and s.step.operand.value == 1):
                    return "(List.reverse %s)" % v, vty
                self.refuse(e, "slice with a step")
            if s.lower is None and s.upper is not None:
                i, ity = self.E(s.upper, env)
                if ity == NAT:
                    return "(List.take %s %s)" % (i, v), vty
                if ity == INT:
                    return "(pySliceTo %s %s)" % (v, i), vty
            if s.upper is None and s.lower is not None:
                i, ity = self.E(s.lower, env)
                if ity == NAT:
                    return "(List.drop %s %s)" % (i, v), vty
                if ity == INT:
                    return "(pySliceFrom %s %s)" % (v, i), vty
            if s.upper is not None and s.lower is not None:
                i, ity = self.E(s.lower, env)
                j, jty = self.E(s.upper, env)
                if ity == NAT and jty == NAT:
                    return "(List.drop %s (List.take %s %s))" % (i, j, v), vty
                if ity in (NAT, INT) and jty in (NAT, INT):
                    return "(pySlice %s %s %s)" % (v, self.coerce(i, ity, INT, e), self.coerce(j, jty, INT, e)), vty
            self.refuse(e, "slice form (only `[:i]`, `[i:]`, `[i:j]`, `[::-1]`)")
        # index
        if isinstance(vty, tuple) and vty[0] == "tuple":
            if isinstance(s, ast.Constant) and isinstance(s.value, int) and 0 <= s.value < len(vty[1]):
                n = len(vty[1])
                k = s.value
                proj = ".2" * k + (".1" if k < n - 1 else "")
                return "%s%s" % (self.atom(v), proj), vty[1][k]
            self.refuse(e, "tuple index that is not a constant in range")
        if vty == RAWD:
            k, kty = self.E(s, env, expect=STR)
            if kty != STR:
                self.refuse(e, "raw[...] with a key of type %s" % (kty,))
            t = self.fresh()
            self.binds.append((t, "pyDictIdx %s %s" % (v, k)))
            return t, NSD
        i, ity = self.E(s, env, expect=INT)
        i = self.coerce(i, ity, INT, e)
        t = self.fresh()
        if vty == STR:
            self.binds.append((t, "pyStrIdx %s %s" % (v, i)))
            return t, STR
        if isinstance(vty, tuple) and vty[0] == "list":
            self.binds.append((t, "pyIdx %s %s" % (v, i)))
            return t, vty[1]
        self.refuse(e, "index into a %s" % (vty,))

    def comp_head(self, g, env, allow_if=False):
        """the single `for target in iter` of a comprehension: (iter text, env of the body, lets binding the target
        [, the pure Bool text of its one `if`])"""
        if len(g.generators) != 1 or g.generators[0].is_async or (g.generators[0].ifs and not allow_if) \
                or len(g.generators[0].ifs) > 1:
            self.refuse(g, "comprehension form (one `for`, at most one `if`)")
        gen = g.generators[0]
        it, ity = self.iterable(gen.iter, env)
        if not (isinstance(ity, tuple) and ity[0] == "list"):
            self.refuse(g, "comprehension over a %s" % (ity,))
        env2 = dict(env)
        lets = []
        if isinstance(gen.target, ast.Name):
            names = [(gen.target.id, ity[1], "it'")]
        elif (isinstance(gen.target, ast.Tuple) and all(isinstance(x, ast.Name) for x in gen.target.elts)
              and isinstance(ity[1], tuple) and ity[1][0] == "tuple" and len(ity[1][1]) == len(gen.target.elts) == 2):
            names = [(x.id, t, "it'.%d" % (k + 1)) for k, (x, t) in enumerate(zip(gen.target.elts, ity[1][1]))]
        else:
            self.refuse(gen.target, "comprehension target")
        for v, t, proj in names:
            if v in env or reserved(v):
                self.refuse(g, "comprehension variable `%s` shadows a local / a name the generated code uses" % v)
            env2[v] = t
            lets.append("let %s : %s := %s" % (lean_ident(v), lean_type(t), proj))
        if allow_if:
            keep = None
            if gen.ifs:
                mark = len(self.binds)
                keep = self.truthy(gen.ifs[0], env2)
                if len(self.binds) > mark:
                    self.refuse(g, "comprehension filter with an effect")
            return it, env2, lets, keep
        return it, env2, lets

    def any_genexp(self, g, env):
        """`any(<bool> for x in xs)`: stops at the first true element; an exception of an element propagates"""
        it, env2, lets = self.comp_head(g, env)
        mark = len(self.binds)
        body, bty = self.E(g.elt, env2)
        if bty != BOOL:
            self.refuse(g, "any() over values of type %s" % (bty,))
        lctx = LoopCtx("()")
        step = self.wrap_binds(lctx, mark, "if %s then\n  (.ret true)\nelse\n  (.next ())" % body)
        fn = "(fun it' st' =>\n%s)" % ind("\n".join(lets + [step]), 4)
        text = ("(match pyFor (σ := Unit) (ρ := Bool) %s ()\n%s with\n  | .done _ => (Res.ok false)\n  | .ret r' => (.ok r')\n  | .exc e' => (.err e'))"
                % (it, ind(fn, 4)))
        t = self.fresh()
        self.binds.append((t, text))
        return t, BOOL

    def E_ListComp(self, e, env, expect):
        it, env2, lets = self.comp_head(e, env)
        mark = len(self.binds)
        body, bty = self.E(e.elt, env2)
        if len(self.binds) == mark:
            inner = "\n".join(lets + [body])
            return "(List.map (fun it' =>\n%s) %s)" % (ind(inner, 4), it), tlist(bty)
        rctx = ResCtx()
        inner = "\n".join(lets + [self.wrap_binds(rctx, mark, "(.ok %s)" % body)])
        t = self.fresh()
        self.binds.append((t, "pyMapM %s (fun it' =>\n%s)" % (it, ind(inner, 4))))
        return t, tlist(bty)

    def E_Lambda(self, e, env, expect):
        a = e.args
        if a.vararg or a.kwarg or a.kwonlyargs or a.defaults or a.posonlyargs:
            self.refuse(e, "lambda parameters")
        if not (isinstance(expect, tuple) and expect[0] == "fn" and len(expect[1]) == len(a.args)):
            self.refuse(e, "lambda where no callable of that arity is expected")
        env2 = dict(env)
        for x, t in zip(a.args, expect[1]):
            if reserved(x.arg):
                self.refuse(e, "lambda parameter `%s` collides with a name the generated code uses" % x.arg)
            env2[x.arg] = t
        mark = len(self.binds)
        body, bty = self.E(e.body, env2, expect[2])
        body = self.coerce(body, bty, expect[2], e)
        text = self.wrap_binds(ResCtx(), mark, "(.ok %s)" % body)
        return "(fun %s => %s)" % (" ".join(lean_ident(x.arg) for x in a.args), text), expect

    def partial_call(self, e, env, expect):
        """`partial(f, a, ...)` for a module function `f`: the closure over the remaining parameters"""
        fname = e.args[0].id
        info = self.m.funcs.get(fname)
        if fname in env:
            # a local bound to one of two module functions (`matcher = match_any if cs else imatch_any`)
            fty = env[fname]
            if not (isinstance(fty, tuple) and fty[0] == "fn"):
                self.refuse(e, "partial() of a %s" % (fty,))
            given = [self.E(a, env, t) for a, t in zip(e.args[1:], fty[1])]
            for (x, xt), t in zip(given, fty[1]):
                if join_types(xt, t) != t:
                    self.refuse(e, "partial() argument of type %s for %s" % (xt, t))
            restt = fty[1][len(given):]
            names = ["a%d'" % (k + 1) for k in range(len(restt))]
            text = "(fun %s => %s %s)" % (" ".join(names), lean_ident(fname), " ".join([self.atom(x) for x, _t in given] + names))
            return text, tfn(restt, fty[2])
        if info is None or info.vararg:
            self.refuse(e, "partial() of `%s`" % fname)
        params = info.params
        if len(e.args) - 1 > len(params):
            self.refuse(e, "partial() with too many arguments")
        given = []
        for a, (n, t) in zip(e.args[1:], params):
            x, xt = self.E(a, env, expect=t)
            given.append(self.coerce(x, xt, t, a))
        restp = params[len(given):]
        if any(n in info.defaults for n, _t in restp):
            self.refuse(e, "partial() leaving defaulted parameters open")
        names = ["a%d'" % (k + 1) for k in range(len(restp))]
        call = "%s %s" % (info.lean_name, " ".join([self.atom(g) for g in given] + names))
        if not info.raises:
            call = "(.ok (%s))" % call
        return "(fun %s => %s)" % (" ".join(names), call), tfn([t for _n, t in restp], info.ret)

    def set_operand(self, a, env):
        """the argument of update / difference_update / issuperset: any iterable of strings, as a List Str"""
        if isinstance(a, ast.GeneratorExp):
            it, env2, lets, keep = self.comp_head(a, env, allow_if=True)
            mark = len(self.binds)
            body, bty = self.E(a.elt, env2)
            if len(self.binds) > mark or bty != STR:
                self.refuse(a, "generator of %s values / with an effect" % (bty,))
            src = it if keep is None else "(List.filter (fun it' =>\n%s) %s)" % (ind("\n".join(lets + [keep]), 4), it)
            return "(List.map (fun it' =>\n%s) %s)" % (ind("\n".join(lets + [body]), 4), src), tlist(STR)
        x, xty = self.E(a, env)
        if xty in (tlist(STR), STRSET):
            return x, tlist(STR)
        if xty == STR:
            return "(pyChars %s)" % x, tlist(STR)
        self.refuse(a, "set operand of type %s" % (xty,))

    def E_SetComp(self, e, env, expect):
        it, env2, lets, keep = self.comp_head(e, env, allow_if=True)
        mark = len(self.binds)
        body, bty = self.E(e.elt, env2)
        if len(self.binds) > mark or bty != STR:
            self.refuse(e, "set comprehension of %s values / with an effect" % (bty,))
        src = it if keep is None else "(List.filter (fun it' =>\n%s) %s)" % (ind("\n".join(lets + [keep]), 4), it)
        return "(List.map (fun it' =>\n%s) %s)" % (ind("\n".join(lets + [body]), 4), src), STRSET

    def E_GeneratorExp(self, e, env, expect):
        self.refuse(e, "generator expression outside `sum(...)`")

    def call_info(self, info, arg_texts, node):
        text = "%s %s" % (info.lean_name, " ".join(self.atom(a) for a in arg_texts)) if arg_texts else info.lean_name
        if info.raises:
            t = self.fresh()
            self.binds.append((t if info.ret != UNIT else "_", text))
            return (t if info.ret != UNIT else "()"), info.ret
        return "(%s)" % text, info.ret

    def E_Call(self, e, env, expect):
        f = e.func
        # ---- calls through an alias of a bound method
        if isinstance(f, ast.Name) and f.id in self.aliases:
            obj, meth = self.aliases[f.id]
            fake = ast.Call(func=ast.Attribute(value=ast.Name(id=obj, ctx=ast.Load()), attr=meth, ctx=ast.Load()),
                            args=e.args, keywords=e.keywords)
            ast.copy_location(fake, e)
            ast.fix_missing_locations(fake)
            return self.E_Call(fake, env, expect)
        # ---- module-level names
        if isinstance(f, ast.Name):
            n = f.id
            if n in env:
                fty = env[n]
                if isinstance(fty, tuple) and fty[0] == "fn" and len(e.args) == len(fty[1]) and not e.keywords:
                    args = []
                    for a, t in zip(e.args, fty[1]):
                        x, xt = self.E(a, env, expect=t)
                        args.append(self.atom(self.coerce(x, xt, t, a)))
                    t = self.fresh()
                    self.binds.append((t, "%s %s" % (lean_ident(n), " ".join(args))))
                    return t, fty[2]
                self.refuse(e, "call of the local value `%s`" % n)
            if n in self.m.regex_preds:
                if len(e.args) != 1 or e.keywords:
                    self.refuse(e, "regex search takes one argument")
                a, aty = self.E(e.args[0], env)
                if aty != STR:
                    self.refuse(e, "regex search on a %s" % (aty,))
                return "(%s %s)" % (self.m.regex_preds[n], a), BOOL
            if n in self.m.funcs:
                info = self.m.funcs[n]
                return self.call_function(info, e, env)
            if getattr(self.m, "dynamic", False) and n == "cast" and len(e.args) == 2 and not e.keywords:
                return self.E(e.args[1], env, expect)      # typing.cast returns its argument unchanged
            if n in getattr(self.m, "dyn_ctors", {}) and len(e.args) == 1 and not e.keywords:
                fn, rty = self.m.dyn_ctors[n]
                x, xt = self.E(e.args[0], env, expect=ANY)
                t = self.fresh()
                self.binds.append((t, "%s %s" % (fn, self.atom(self.coerce(x, xt, ANY, e)))))
                return t, rty
            if n == "len" and len(e.args) == 1 and not e.keywords:
                a, aty = self.E(e.args[0], env)
                if aty == STR or aty == CHARSET or (isinstance(aty, tuple) and aty[0] == "list"):
                    return "%s.length" % self.atom(a), NAT
                self.refuse(e, "len of a %s" % (aty,))
            if n == "list" and len(e.args) == 1 and not e.keywords:
                a, aty = self.E(e.args[0], env)
                if isinstance(aty, tuple) and aty[0] == "list":
                    if isinstance(e.args[0], ast.Name):
                        self.refuse(e, "list(<name>) copies a list the translator would alias")
                    return a, aty
                if aty == STR:
                    return "(pyChars %s)" % a, tlist(STR)
                self.refuse(e, "list() of a %s" % (aty,))
            if n == "set" and not e.args and not e.keywords:
                return "([] : List Str)", STRSET
            if n in ("set", "frozenset") and len(e.args) == 1 and not e.keywords:
                a, aty = self.E(e.args[0], env)
                if aty == STR:
                    return "(pySet %s)" % a, CHARSET
                if aty == tlist(STR) or aty == STRSET:
                    return a, STRSET        # order and multiplicity of the list are not observable through a set
                self.refuse(e, "set() of a %s" % (aty,))
            if n == "sorted" and len(e.args) == 1 and not e.keywords:
                a, aty = self.E(e.args[0], env)
                if aty in (STRSET, tlist(STR)):
                    return "(pySorted %s)" % a, tlist(STR)
                self.refuse(e, "sorted() of a %s" % (aty,))
            if n == "cls" and self.self_param == "classmethod" and self.m.ctor is not None and not e.args:
                return self.call_function(self.m.ctor, e, env)
            if n == "bool" and len(e.args) == 1 and not e.keywords:
                a, aty = self.E(e.args[0], env)
                if aty in ("match", BOOL):
                    return a, BOOL
                if aty == STR or (isinstance(aty, tuple) and aty[0] == "list"):
                    return "(!%s.isEmpty)" % self.atom(a), BOOL
                self.refuse(e, "bool() of a %s" % (aty,))
            if n == "any" and len(e.args) == 1 and not e.keywords and isinstance(e.args[0], ast.GeneratorExp):
                return self.any_genexp(e.args[0], env)
            if n == "partial" and len(e.args) >= 1 and not e.keywords and isinstance(e.args[0], ast.Name):
                return self.partial_call(e, env, expect)
            if n == "sum" and len(e.args) == 1 and not e.keywords and isinstance(e.args[0], ast.GeneratorExp):
                g = e.args[0]
                if len(g.generators) != 1 or g.generators[0].ifs or g.generators[0].is_async or not isinstance(g.generators[0].target, ast.Name):
                    self.refuse(g, "generator form")
                it, ity = self.iterable(g.generators[0].iter, env)
                if not (isinstance(ity, tuple) and ity[0] == "list"):
                    self.refuse(g, "generator over a %s" % (ity,))
                v = g.generators[0].target.id
                if v in env or reserved(v):
                    self.refuse(g, "generator variable `%s` shadows a local / a name the generated code uses" % v)
                env2 = dict(env)
                env2[v] = ity[1]
                mark = len(self.binds)
                body, bty = self.E(g.elt, env2)
                if len(self.binds) > mark:
                    raise EffectInCond()
                if bty != BOOL:
                    self.refuse(g, "sum over values of type %s (only booleans)" % (bty,))
                return "(pySumBool (List.map (fun %s => %s) %s))" % (lean_ident(v), body, it), NAT
            self.refuse(e, "call of unknown function `%s`" % n)
        # ---- methods
        if isinstance(f, ast.Attribute):
            meth = f.attr
            if e.keywords:
                self.refuse(e, "keyword arguments in a method call")
            # methods of the class being translated
            if self.self_param and isinstance(f.value, ast.Name) and f.value.id == "self":
                if meth in self.m.methods and meth not in self.m.properties:
                    info = self.m.methods[meth]
                    if len(e.args) > len(info.params):
                        self.refuse(e, "argument count of self.%s" % meth)
                    args = ["self"]
                    for k, (pn, pt) in enumerate(info.params):
                        if k < len(e.args):
                            x, xt = self.E(e.args[k], env, expect=pt)
                            args.append(self.coerce(x, xt, pt, e.args[k]))
                        elif pn in info.defaults:
                            args.append(info.defaults[pn])
                        else:
                            self.refuse(e, "argument count of self.%s" % meth)
                    return self.call_info(info, args, e)
                stored = getattr(self.m, "stored_callables", {})
                if meth in stored and len(e.args) == 1:
                    # a callable kept in a field of the object (`self._to_datetime`): an extern of the module
                    fn, aty0, rty = stored[meth]
                    x, xt = self.E(e.args[0], env, expect=aty0)
                    t = self.fresh()
                    self.binds.append((t, "%s %s" % (fn, self.atom(self.coerce(x, xt, aty0, e)))))
                    return t, rty
                self.refuse(e, "call of `self.%s`" % meth)
            # re.escape(s), re.compile(text[, re.IGNORECASE])
            if isinstance(f.value, ast.Name) and f.value.id == "re" and "re" not in env:
                if meth == "escape" and len(e.args) == 1:
                    a, aty = self.E(e.args[0], env)
                    if aty != STR:
                        self.refuse(e, "re.escape of a %s" % (aty,))
                    return "(pyReEscape %s)" % a, STR
                if meth == "compile" and len(e.args) in (1, 2):
                    a, aty = self.E(e.args[0], env)
                    if aty != STR:
                        self.refuse(e, "re.compile of a %s" % (aty,))
                    ic = "false"
                    if len(e.args) == 2:
                        if ast.unparse(e.args[1]) != "re.IGNORECASE":
                            self.refuse(e.args[1], "re.compile flags (only re.IGNORECASE)")
                        ic = "true"
                    t = self.fresh()
                    self.binds.append((t, "pyReCompile %s %s" % (a, ic)))
                    return t, REGEX
                self.refuse(e, "re.%s" % meth)
            # "lit".join / "lit".format
            if isinstance(f.value, ast.Constant) and isinstance(f.value.value, str):
                lit = f.value.value
                if meth == "join" and len(e.args) == 1:
                    a, aty = self.E(e.args[0], env)
                    if aty != tlist(STR):
                        self.refuse(e, "join of a %s" % (aty,))
                    if len(lit) != 1:
                        return "(pyJoinS %s %s)" % (lean_str(lit), a), STR
                    return "(pyJoin %s %s)" % (lean_char(lit), a), STR
                if meth == "format":
                    pieces = lit.split("{}")
                    if "{" in "".join(pieces) or "}" in "".join(pieces) or len(pieces) != len(e.args) + 1:
                        self.refuse(e, "format string (only positional `{}` fields)")
                    out = []
                    for i, p in enumerate(pieces):
                        if p:
                            out.append(lean_str(p))
                        if i < len(e.args):
                            a, aty = self.E(e.args[i], env)
                            if aty != STR:
                                self.refuse(e.args[i], "format argument of type %s" % (aty,))
                            out.append(a)
                    if not out:
                        return lean_str(""), STR
                    text = out[0]
                    for p in out[1:]:
                        text = "(%s ++ %s)" % (text, p)
                    return text, STR
            if isinstance(f.value, ast.Name) and env.get(f.value.id) == FSSTAT and meth in ("getmodified", "exists"):
                role = getattr(self.m, "fs_roles", {}).get(self.f.name, {})
                if len(e.args) != 1 or not isinstance(e.args[0], ast.Name) or role.get(f.value.id) != e.args[0].id:
                    self.refuse(e, "`%s.%s` is asked about something other than its own path parameter" % (f.value.id, meth))
                obj = lean_ident(f.value.id)
                if meth == "exists":
                    return "(Option.isSome %s)" % obj, BOOL
                t = self.fresh()
                self.binds.append((t, "pyFsGetModified %s" % obj))
                return t, topt(INT)
            if isinstance(f.value, ast.Name) and env.get(f.value.id) == READER and meth == "read" and len(e.args) == 1:
                n, nty = self.E(e.args[0], env, expect=INT)
                if nty not in (NAT, INT):
                    self.refuse(e, "read() with a %s" % (nty,))
                t = self.fresh()
                obj = lean_ident(f.value.id)
                self.binds.append(("(%s, %s)" % (t, obj), "File.Reader.read %s %s" % (obj, self.coerce(n, nty, INT, e)), "let"))
                return t, BYTES
            v, vty = self.E(f.value, env)
            args = e.args

            def char_arg(i):
                a = args[i]
                if isinstance(a, ast.Constant) and isinstance(a.value, str) and len(a.value) == 1:
                    return lean_char(a.value)
                self.refuse(a, "argument of .%s must be a one-character string literal" % meth)

            def chars_arg(i):
                a = args[i]
                if isinstance(a, ast.Constant) and isinstance(a.value, str) and a.value:
                    return "[" + ", ".join(lean_char(c) for c in a.value) + "]"
                self.refuse(a, "argument of .%s must be a non-empty string literal" % meth)

            if vty == NSD:
                if meth == "get" and len(args) == 2:
                    k, kty = self.E(args[0], env, expect=STR)
                    d, dty = self.E(args[1], env, expect=ANY)
                    if kty != STR:
                        self.refuse(e, "dict.get with a key of type %s" % (kty,))
                    return "(pyDictGet %s %s %s)" % (v, k, self.atom(self.coerce(d, dty, ANY, e))), ANY
                self.refuse(e, "dict method .%s" % meth)
            if vty == ANY:
                # a str method on a dynamically typed value: AttributeError unless it is a str (pyStrMethod knows
                # which other types have a method of that name)
                t = self.fresh()
                self.binds.append((t, "pyStrMethod %s %s" % (lean_str_lit(meth), v)))
                v, vty = t, STR
            if vty == STR:
                if meth == "rpartition" and len(args) == 1:
                    return "(pyRpartition %s %s)" % (v, char_arg(0)), ttuple(STR, STR, STR)
                if meth in ("startswith", "endswith") and len(args) == 1:
                    a, aty = self.E(args[0], env)
                    if aty != STR:
                        self.refuse(e, ".%s of a %s" % (meth, aty))
                    return "(%s %s %s)" % ("pyStartsWith" if meth == "startswith" else "pyEndsWith", v, a), BOOL
                if meth in ("lstrip", "rstrip", "strip") and len(args) == 1:
                    fn = {"lstrip": "pyLstrip", "rstrip": "pyRstrip", "strip": "pyStrip"}[meth]
                    return "(%s %s %s)" % (fn, chars_arg(0), v), STR
                if meth == "split" and len(args) == 1:
                    if isinstance(args[0], ast.Constant) and isinstance(args[0].value, str) and len(args[0].value) > 1:
                        return "(pySplitS %s %s)" % (v, lean_str(args[0].value)), tlist(STR)
                    return "(pySplit %s %s)" % (v, char_arg(0)), tlist(STR)
                if meth == "lower" and len(args) == 0:
                    return "(pyLower %s)" % v, STR
                if meth == "rsplit" and len(args) == 2 and isinstance(args[1], ast.Constant) and args[1].value == 1:
                    return "(pyRsplit1 %s %s)" % (v, char_arg(0)), tlist(STR)
                if meth == "count" and len(args) == 1:
                    return "(pyCount %s %s)" % (v, char_arg(0)), NAT
                if meth == "find" and len(args) == 2:
                    p, pty = self.E(args[1], env, expect=INT)
                    if pty not in (NAT, INT):
                        self.refuse(e, ".find start of type %s" % (pty,))
                    return "(pyFind %s %s %s)" % (v, char_arg(0), self.coerce(p, pty, INT, e)), INT
                if meth == "replace" and len(args) == 2:
                    t, tty = self.E(args[1], env)
                    if tty != STR:
                        self.refuse(e, ".replace with a %s" % (tty,))
                    return "(pyReplace %s %s %s)" % (v, char_arg(0), t), STR
                self.refuse(e, "str method .%s with %d argument(s)" % (meth, len(args)))
            if vty == REGEX:
                if meth == "match" and len(args) == 1:
                    a, aty = self.E(args[0], env)
                    if aty != STR:
                        self.refuse(e, ".match of a %s" % (aty,))
                    return "(pyReMatch %s %s)" % (v, a), "match"
                self.refuse(e, "pattern method .%s" % meth)
            if vty == STRSET:
                if meth in ("issuperset", "issubset") and len(args) == 1:
                    a, aty = self.set_operand(args[0], env)
                    if meth == "issuperset":
                        return "(List.all %s (fun x' => List.contains %s x'))" % (a, v), BOOL
                    return "(List.all %s (fun x' => List.contains %s x'))" % (v, a), BOOL
                self.refuse(e, "set method .%s in an expression" % meth)
            if vty == CHARSET:
                if meth in ("isdisjoint", "issuperset") and len(args) == 1:
                    a, aty = self.E(args[0], env)
                    if aty != STR:
                        self.refuse(e, ".%s of a %s" % (meth, aty))
                    return "(%s %s %s)" % ("pyIsDisjoint" if meth == "isdisjoint" else "pyIsSuperset", v, a), BOOL
                self.refuse(e, "set method .%s" % meth)
            if isinstance(vty, tuple) and vty[0] == "list":
                self.refuse(e, "list method .%s in an expression (append/pop are statements)" % meth)
            self.refuse(e, "method .%s of a %s" % (meth, vty))
        self.refuse(e, "call form")

    def call_function(self, info, e, env):
        params = list(info.params)
        args = []
        pos = list(e.args)
        if any(isinstance(a, ast.Starred) for a in pos):
            self.refuse(e, "star-argument in a call")
        if info.vararg:
            fixed = params[:-1]
            if e.keywords:
                self.refuse(e, "keyword arguments to a *args function")
            if len(pos) < len(fixed):
                self.refuse(e, "too few arguments")
            for (n, t), a in zip(fixed, pos):
                x, xty = self.E(a, env, expect=t)
                args.append(self.coerce(x, xty, t, a))
            elt = params[-1][1][1]
            rest = []
            for a in pos[len(fixed):]:
                x, xty = self.E(a, env, expect=elt)
                rest.append(self.coerce(x, xty, elt, a))
            args.append("[" + ", ".join(rest) + "]")
            return self.call_info(info, args, e)
        if len(pos) > len(params):
            self.refuse(e, "too many arguments")
        given = {}
        for (n, t), a in zip(params, pos):
            given[n] = a
        for kw in e.keywords:
            if kw.arg is None or kw.arg in given or kw.arg not in dict(params):
                self.refuse(e, "keyword argument `%s`" % kw.arg)
            given[kw.arg] = kw.value
        for n, t in params:
            if n in given:
                x, xty = self.E(given[n], env, expect=t)
                args.append(self.coerce(x, xty, t, given[n]))
            elif n in info.defaults:
                args.append(info.defaults[n])
            else:
                self.refuse(e, "missing argument `%s`" % n)
        return self.call_info(info, args, e)


# ----------------------------------------------------------------------------------- module level


def called_names(fdef):
    """module-level names a function calls or uses as a value (locals of the same name excluded)"""
    out = set()
    stored = set()
    for n in ast.walk(fdef):
        if isinstance(n, ast.Call) and isinstance(n.func, ast.Name):
            out.add(n.func.id)
        if isinstance(n, ast.Name) and isinstance(n.ctx, ast.Store):
            stored.add(n.id)
    for n in ast.walk(fdef):
        if isinstance(n, ast.Name) and isinstance(n.ctx, ast.Load) and n.id not in stored:
            out.add(n.id)
    return out


def toposort(defs, deps):
    order, state = [], {}

    def visit(n, stack):
        if state.get(n) == 2:
            return
        if state.get(n) == 1:
            raise Refuse(n, defs[n], "recursion (%s)" % " -> ".join(stack + [n]))
        state[n] = 1
        for d in sorted(deps[n], key=lambda x: defs[x].lineno):
            visit(d, stack + [n])
        state[n] = 2
        order.append(n)

    for n in sorted(defs, key=lambda x: defs[x].lineno):
        visit(n, [])
    return order


def render_def(info, text, namespace_doc=None):
    params = []
    for n, t in info.params:
        if n in info.defaults:
            params.append("(%s : %s := %s)" % (lean_ident(n), lean_type(t), info.defaults[n]))
        else:
            params.append("(%s : %s)" % (lean_ident(n), lean_type(t)))
    if info.is_method:
        params = ["(self : %s)" % lean_type(info.self_type)] + params
    rty = lean_type(info.ret)
    if info.raises:
        rty = "Res %s" % (rty if " " not in rty or rty.startswith("(") else "(%s)" % rty)
    head = "def %s %s: %s :=" % (info.lean_name, "".join(p + " " for p in params), rty)
    return head + "\n" + ind(text, 2)


# the functions the hand transcription lean/FsModel/Path.lean models (and FsProofs/PathGenEq.lean has an
# equality theorem for); anything else found in the source is reported as NEW, never silently skipped
HAND_MODEL = [
    "normpath", "iteratepath", "recursepath", "isabs", "abspath", "relpath", "join", "combine", "parts", "split",
    "splitext", "isdotfile", "dirname", "basename", "issamedir", "isbase", "isparent", "forcedir", "frombase",
    "relativefrom", "iswildcard",
]


class PathModule:
    """translation of fs/path.py; the base class of the other module translators (puregen.py)"""

    SOURCE = "fs/path.py"
    OUT = "PathGen.lean"
    NAMESPACE = "Fs.PathGen"
    MODNAME = "path"
    TAG = "PathGen"                 # obligations are named <TAG>.translate(<function>)
    GENERATOR = "harness/extract/pathgen.py"
    EQ_MODULE = "FsProofs/PathGenEq.lean"
    HAND = "FsModel/Path.lean"
    HAND_MODEL = HAND_MODEL
    WANTED = None                   # None: every top-level def; else only these (the others must be in OUT_OF_SCOPE)
    OUT_OF_SCOPE = {}               # top-level name -> why it is not translated (classes, functions over FS objects)
    LEAN_IMPORTS = ["FsModel.PyStr"]
    OPENS = "Fs Fs.PyStr"
    EXTERNS = {}                    # imported name -> (required import statement, FuncInfo)

    def module_statement(self, node, mod):
        """module-level statements specific to a module: return True when understood"""
        return False

    def setup_module(self, mod):
        """module-specific knowledge handed to the function translators"""

    def __init__(self, repo):
        self.repo = repo
        self.refusals = []     # [(function, where, message)]
        self.translated = []   # python names, in emission order
        self.defs_text = []
        self.consts_text = []
        self.all_names = []
        self.module_notes = []

    def read(self):
        with open(os.path.join(self.repo, self.SOURCE), encoding="utf-8") as fh:
            return fh.read()

    def refuse_module(self, node, msg):
        r = Refuse("<module>", node, msg)
        self.refusals.append(("<module>", r.where, str(r)))

    def build(self):
        try:
            src = self.read()
            tree = ast.parse(src, type_comments=True)
        except (OSError, SyntaxError) as ex:
            self.refusals.append(("<module>", "-", "cannot read/parse %s: %s" % (self.SOURCE, ex)))
            return
        mod = Module(self.MODNAME)
        self.setup_module(mod)
        defs = {}
        imports = {ast.unparse(n) for n in tree.body if isinstance(n, (ast.Import, ast.ImportFrom))}
        for name, (stmt, info) in self.EXTERNS.items():
            if stmt in imports:
                mod.funcs[name] = info
            else:
                self.refusals.append(("<module>", "-", "the import `%s` the translation of %s relies on is gone" % (stmt, self.SOURCE)))
        self.skipped = []
        for node in tree.body:
            if isinstance(node, ast.Expr) and isinstance(node.value, ast.Constant) and isinstance(node.value.value, str):
                continue
            if isinstance(node, (ast.Import, ast.ImportFrom)):
                continue
            if isinstance(node, ast.If) and ast.unparse(node.test) in ("typing.TYPE_CHECKING", "TYPE_CHECKING"):
                continue
            if isinstance(node, (ast.FunctionDef, ast.ClassDef)) and self.WANTED is not None and node.name not in self.WANTED:
                if node.name in self.OUT_OF_SCOPE:
                    self.skipped.append(node.name)
                else:
                    defs[node.name] = node      # a NEW top-level name: translated (or refused) and reported
                continue
            if isinstance(node, ast.FunctionDef):
                if node.decorator_list:
                    self.refuse_module(node, "decorated function")
                    continue
                defs[node.name] = node
                continue
            if self.module_statement(node, mod):
                continue
            if isinstance(node, ast.Assign) and len(node.targets) == 1 and isinstance(node.targets[0], ast.Name):
                name = node.targets[0].id
                v = node.value
                if name == "__all__" and isinstance(v, ast.List) and all(isinstance(x, ast.Constant) for x in v.elts):
                    self.all_names = [x.value for x in v.elts]
                    continue
                # name = re.compile(<known regex>[, re.UNICODE]).search
                if (isinstance(v, ast.Attribute) and v.attr == "search" and isinstance(v.value, ast.Call)
                        and ast.unparse(v.value.func) == "re.compile" and v.value.args
                        and isinstance(v.value.args[0], ast.Constant) and not v.value.keywords):
                    pat = v.value.args[0].value
                    flags = ast.unparse(v.value.args[1]) if len(v.value.args) > 1 else ""
                    if pat == KNOWN_REGEX and flags in KNOWN_REGEX_FLAGS and len(v.value.args) <= 2:
                        mod.regex_preds[name] = "reSearchRequiresNormalization"
                        self.module_notes.append("%s = re.compile(%r%s).search  ->  PyStr.reSearchRequiresNormalization"
                                                 % (name, pat, (", " + flags) if flags else ""))
                        continue
                    self.refuse_module(node, "regular expression %r (flags %r) is not the known one %r" % (pat, flags, KNOWN_REGEX))
                    continue
                # name = frozenset("...") / set("...")
                if (isinstance(v, ast.Call) and isinstance(v.func, ast.Name) and v.func.id in ("frozenset", "set")
                        and len(v.args) == 1 and not v.keywords and isinstance(v.args[0], ast.Constant)
                        and isinstance(v.args[0].value, str)):
                    ln = lean_ident(name)
                    mod.consts[name] = (ln, CHARSET)
                    self.consts_text.append("def %s : List Char := pySet %s" % (ln, lean_str(v.args[0].value)))
                    continue
            self.refuse_module(node, "module-level statement")
        deps = {n: {c for c in called_names(d) if (c in defs or c in mod.funcs) and c != n} for n, d in defs.items()}
        for n, d in list(defs.items()):
            if called_names_strict(d, n):
                r = Refuse(n, d, "recursion")
                self.refusals.append((n, r.where, str(r)))
                del defs[n]
        try:
            order = toposort(defs, {n: {c for c in deps[n] if c in defs} for n in defs})
            deps = {n: {c for c in deps[n] if c in defs} | {c for c in deps[n] if c in mod.funcs and c not in defs} for n in deps}
        except Refuse as r:
            self.refusals.append((r.func, r.where, str(r)))
            return
        for n in order:
            d = defs[n]
            if isinstance(d, ast.ClassDef):
                r = Refuse(n, d, "a class the translator was not told about")
                self.refusals.append((n, r.where, str(r)))
                continue
            missing = [c for c in deps[n] if c not in mod.funcs]
            if missing:
                self.refusals.append((n, "Call", "function %s: calls %s, which could not be translated" % (n, ", ".join(sorted(missing)))))
                continue
            try:
                tr = FnTranslator(mod, d, n)
                info, text = tr.translate()
            except Refuse as r:
                if r.func == "?":
                    r = Refuse(n, r.node, r.msg)
                self.refusals.append((n, r.where, str(r)))
                continue
            except Exception as ex:     # a translator bug is a refusal, never a guess and never an infrastructure error
                self.refusals.append((n, "-", "function %s: internal translator error %s: %s" % (n, type(ex).__name__, ex)))
                continue
            info.lean_name = lean_ident(n)
            mod.funcs[n] = info
            self.translated.append(n)
            self.defs_text.append("/-- `%s.%s` (line %d) -/\n%s" % (self.SOURCE, n, d.lineno, render_def(info, text)))
        self.infos = mod.funcs

    def emit(self):
        L = []
        w = L.append
        w("/-")
        w("  GENERATED by %s from $VERIF_REPO/%s - do not edit." % (self.GENERATOR, self.SOURCE))
        w("  Syntax-directed translation of %s into Lean over FsModel/PyStr.lean;"
          % ("every top-level function" if self.WANTED is None else "the pure functions"))
        w("  %s proves each definition equal to the hand transcription %s." % (self.EQ_MODULE, self.HAND))
        if getattr(self, "skipped", None):
            w("  out of scope (not translated): %s" % ", ".join("%s (%s)" % (n, self.OUT_OF_SCOPE[n]) for n in self.skipped))
        for note in self.module_notes:
            w("  " + note)
        w("  translated (%d): %s" % (len(self.translated), ", ".join(self.translated)))
        missing_all = [n for n in self.all_names if n not in self.translated]
        if missing_all:
            w("  in __all__ but NOT translated: %s" % ", ".join(missing_all))
        if self.new_functions():
            w("  NEW functions (no hand model / no equality theorem; %s coverage fails): %s"
              % (self.EQ_MODULE, ", ".join(self.new_functions())))
        if self.vanished_functions():
            w("  functions of the hand model that are no longer in the source: %s" % ", ".join(self.vanished_functions()))
        if self.refusals:
            w("  REFUSED:")
            for fn, where, msg in self.refusals:
                w("    %s.translate(%s): %s" % (self.TAG, fn, msg.replace("-/", "- /")))
        w("-/")
        for imp in self.LEAN_IMPORTS:
            w("import %s" % imp)
        w("")
        w("set_option linter.unusedVariables false")
        w("")
        w("namespace %s" % self.NAMESPACE)
        w("open %s" % self.OPENS)
        w("")
        w("/-- top-level functions of %s that were translated, in source order -/" % self.SOURCE)
        w("def translated : List String := [%s]" % ", ".join('"%s"' % n for n in sorted(self.translated)))
        w("")
        w("/-- `__all__` of the module -/")
        w("def allNames : List String := [%s]" % ", ".join('"%s"' % n for n in sorted(self.all_names)))
        w("")
        w("/-- what the translator refused: (function, AST node, message) -/")
        w("def refused : List (String × String) := [%s]" % ", ".join('("%s", "%s")' % (fn, where) for fn, where, _m in self.refusals))
        w("")
        for c in self.consts_text:
            w(c)
            w("")
        for d in self.defs_text:
            w(d)
            w("")
        w("end %s" % self.NAMESPACE)
        return "\n".join(L) + "\n"

    def new_functions(self):
        seen = list(self.translated) + [fn for fn, _w, _m in self.refusals if fn not in ("<module>",)]
        return sorted({n for n in seen if n not in self.HAND_MODEL})

    def vanished_functions(self):
        seen = set(self.translated) | {fn for fn, _w, _m in self.refusals}
        return [n for n in self.HAND_MODEL if n not in seen]

    def status(self):
        return {
            "source": self.SOURCE,
            "new_functions": self.new_functions(),
            "vanished_functions": self.vanished_functions(),
            "translated": self.translated,
            "all": self.all_names,
            "not_translated_in_all": [n for n in self.all_names if n not in self.translated],
            "out_of_scope": getattr(self, "skipped", []),
            "refused": [{"obligation": "%s.translate(%s)" % (self.TAG, fn), "function": fn, "node": where, "message": msg}
                        for fn, where, msg in self.refusals],
        }


def called_names_strict(fdef, name):
    """direct recursion: a call of the function's own name that is not shadowed by a local"""
    assigned = set()
    for n in ast.walk(fdef):
        if isinstance(n, ast.Assign):
            for t in n.targets:
                for x in ast.walk(t):
                    if isinstance(x, ast.Name):
                        assigned.add(x.id)
    if name in assigned:
        return set()
    return {name} if name in called_names(fdef) else set()


def write_if_changed(path, text):
    old = None
    if os.path.exists(path):
        with open(path, encoding="utf-8") as fh:
            old = fh.read()
    if old != text:                       # keep the mtime when nothing changed (no needless rebuild)
        with open(path, "w", encoding="utf-8") as fh:
            fh.write(text)


def run_module(cls, repo_root, out_dir):
    pm = cls(repo_root)
    pm.build()
    os.makedirs(out_dir, exist_ok=True)
    write_if_changed(os.path.join(out_dir, pm.OUT), pm.emit())
    write_if_changed(os.path.join(out_dir, "%s.status.json" % pm.TAG), json.dumps(pm.status(), indent=1, sort_keys=True) + "\n")
    return pm


def run(repo_root, out_dir):
    return run_module(PathModule, repo_root, out_dir)


def generate(repo_root, out_dir):
    """entry point used by harness/extract/generate.py (the dispatcher): never fails the run -
    a refusal is recorded in the generated file and breaks the equality theorems instead"""
    run(repo_root, out_dir)
    return 0


def main():
    pm = run(REPO, OUT_DIR)
    if "-v" in sys.argv:
        print("translated:", ", ".join(pm.translated))
    if pm.refusals:
        for fn, where, msg in pm.refusals:
            sys.stderr.write("pathgen: REFUSED PathGen.translate(%s): %s\n" % (fn, msg))
        return 3
    return 0


if __name__ == "__main__":
    sys.exit(main())
