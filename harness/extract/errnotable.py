"""AST extractor for the GENERATED errno -> fs.errors translation table (C01 / C06, OSFS).

Reads ``$VERIF_REPO/fs/error_tools.py`` as text, parses it with ``ast`` (nothing of the
repository is imported or executed) and emits ``<out_dir>/ErrnoTable.lean``: the two maps of
``class _ConvertOSErrors`` as Lean data over the enums of the hand-written
``lean/FsModel/Posix.lean``:

* ``fileErrors``  — ``FILE_ERRORS = { <errno>: errors.<Class>, ... }``
* ``dirErrors``   — ``DIR_ERRORS = FILE_ERRORS.copy()`` followed by the class-body assignments
                    ``DIR_ERRORS[<errno>] = errors.<Class>`` applied in source order
* ``defaultClass``— the second argument of ``os_errors.get(_errno, errors.<Class>)`` in ``__exit__``
* ``wrapsEnvironmentError`` — does ``__exit__`` translate (a ``reraise(fserror, ...)`` guarded by
                    ``isinstance(exc_value, EnvironmentError)``)?

The ``if _WINDOWS_PLATFORM:`` block is skipped (the model is POSIX).  Keys are ``errno.<NAME>``
or integer literals; an integer literal is mapped back to a name through Python's *own* ``errno``
module when it has one on this platform (64 -> ENONET), else kept as ``.other n``.  Also emitted: ``osfsSites`` — for every method of ``class OSFS`` (fs/osfs.py) every call of
an OS primitive (``os.*``, ``os.path.*``, ``io.open``, ``shutil.*``, ``scandir``) and every call of a
private helper ``self._x(..)`` / ``cls._x(..)``, with the lexically enclosing
``with convert_os_errors(<op>, <path>, directory=<bool>)`` (``wrapped``, ``directory``).  Class-level
``if`` blocks are resolved for CPython >= 3.8 on POSIX (``if scandir:`` -> body, the ``sendfile``
back-port -> ``else``); any other class-level condition makes the site list contain an ``unknown`` entry.

Anything the
extractor does not understand (a computed key, a value that is not ``errors.<Class>``, an
unexpected statement touching one of the two maps) is emitted as ``.unknownErrno`` /
``.unknownClass`` — never guessed — which makes the table theorems of
``lean/FsProofs/OsRefines.lean`` fail and hands over to the dynamic search.
"""
from __future__ import annotations

import ast
import errno as _py_errno
import os

# the constructors of `Fs.Posix.Errno` (lean/FsModel/Posix.lean) — keep in sync
ERRNO_CTORS = {
    "ENOENT", "ENOTDIR", "EEXIST", "EISDIR", "ENOTEMPTY", "EINVAL", "EBUSY", "EXDEV",
    "EACCES", "EPERM", "EFAULT", "ESRCH", "ENOSPC", "ENETDOWN", "ECONNRESET", "ENAMETOOLONG",
    "EOPNOTSUPP", "ENOSYS", "ENONET", "EROFS", "EMFILE", "ENFILE", "ELOOP", "EIO",
}
# the constructors of `Fs.Posix.FsClass` — keep in sync
CLASS_CTORS = {
    "ResourceNotFound", "FileExpected", "DirectoryExpected", "DirectoryExists", "FileExists",
    "DestinationExists", "DirectoryNotEmpty", "RemoveRootError", "IllegalDestination",
    "IllegalBackReference", "InvalidCharsInPath", "ResourceReadOnly", "FilesystemClosed",
    "Unsupported", "OperationFailed", "PermissionDenied", "RemoteConnectionError",
    "InsufficientStorage", "PathError", "InvalidPath", "ResourceLocked", "ResourceInvalid",
    "ResourceError", "OperationTimeout", "CreateFailed", "FSError",
}


def _errno_term(node):
    """Lean term of type Errno for a dictionary key / subscript index."""
    if isinstance(node, ast.Attribute) and isinstance(node.value, ast.Name) and node.value.id == "errno":
        name = node.attr
        if name in ERRNO_CTORS:
            return "." + name, name
        num = getattr(_py_errno, name, None)
        if isinstance(num, int):
            return "(.other %d)" % num, name
        return ".unknownErrno", name
    if isinstance(node, ast.Constant) and isinstance(node.value, int) and not isinstance(node.value, bool):
        n = node.value
        name = _py_errno.errorcode.get(n)
        if name in ERRNO_CTORS:
            return "." + name, "%d (%s)" % (n, name)
        return "(.other %d)" % n, str(n)
    return ".unknownErrno", ast.dump(node)[:60]


def _class_term(node):
    """Lean term of type FsClass for a dictionary value."""
    if isinstance(node, ast.Attribute) and isinstance(node.value, ast.Name) and node.value.id == "errors":
        if node.attr in CLASS_CTORS:
            return "." + node.attr, node.attr
        return ".unknownClass", node.attr
    return ".unknownClass", ast.dump(node)[:60]


def _is_windows_guard(test):
    return isinstance(test, ast.Name) and test.id == "_WINDOWS_PLATFORM"


def _sub_target(stmt):
    """`X[<k>] = <v>` -> (X, k, v) or None"""
    if isinstance(stmt, ast.Assign) and len(stmt.targets) == 1 and isinstance(stmt.targets[0], ast.Subscript):
        t = stmt.targets[0]
        if isinstance(t.value, ast.Name):
            return t.value.id, t.slice, stmt.value
    return None


def collect(repo_root):
    path = os.path.join(repo_root, "fs", "error_tools.py")
    with open(path, encoding="utf-8") as fh:
        tree = ast.parse(fh.read(), filename=path)
    cls = None
    for node in tree.body:
        if isinstance(node, ast.ClassDef) and node.name == "_ConvertOSErrors":
            cls = node
    out = {"file": None, "dir": None, "default": ".unknownClass", "wraps": False, "notes": []}
    if cls is None:
        out["notes"].append("class _ConvertOSErrors not found")
        return out
    maps = {}  # name -> list of (errno term, class term, comment)

    def put(name, kterm, vterm, comment):
        lst = maps[name]
        for i, (k, _v, _c) in enumerate(lst):
            if k == kterm and kterm != ".unknownErrno":
                lst[i] = (kterm, vterm, comment)
                return
        lst.append((kterm, vterm, comment))

    for stmt in cls.body:
        if isinstance(stmt, ast.Expr) and isinstance(stmt.value, ast.Constant):
            continue  # docstring
        if isinstance(stmt, ast.Assign) and len(stmt.targets) == 1 and isinstance(stmt.targets[0], ast.Name):
            name = stmt.targets[0].id
            if name not in ("FILE_ERRORS", "DIR_ERRORS"):
                continue
            v = stmt.value
            if isinstance(v, ast.Dict):
                maps[name] = []
                for k, val in zip(v.keys, v.values):
                    if k is None:
                        maps[name].append((".unknownErrno", ".unknownClass", "**splat"))
                        continue
                    kt, kc = _errno_term(k)
                    vt, vc = _class_term(val)
                    put(name, kt, vt, "%s: %s" % (kc, vc))
            elif (isinstance(v, ast.Call) and isinstance(v.func, ast.Attribute) and v.func.attr == "copy"
                  and isinstance(v.func.value, ast.Name) and v.func.value.id in maps and not v.args):
                maps[name] = list(maps[v.func.value.id])
            elif isinstance(v, ast.Name) and v.id in maps:
                maps[name] = maps[v.id]  # alias: later updates hit both, as in Python
            else:
                maps[name] = [(".unknownErrno", ".unknownClass", "unsupported initialiser")]
                out["notes"].append("%s: unsupported initialiser at line %d" % (name, stmt.lineno))
            continue
        st = _sub_target(stmt)
        if st and st[0] in maps:
            kt, kc = _errno_term(st[1])
            vt, vc = _class_term(st[2])
            put(st[0], kt, vt, "%s: %s (override, line %d)" % (kc, vc, stmt.lineno))
            continue
        if isinstance(stmt, ast.If) and _is_windows_guard(stmt.test):
            continue  # Windows-only overrides: not modelled
        if isinstance(stmt, ast.FunctionDef):
            if stmt.name == "__exit__":
                _scan_exit(stmt, out)
            continue
        # anything else that mentions one of the maps is not understood
        names = {n.id for n in ast.walk(stmt) if isinstance(n, ast.Name)}
        if names & {"FILE_ERRORS", "DIR_ERRORS"}:
            for m in names & set(maps):
                maps[m].append((".unknownErrno", ".unknownClass", "unsupported statement at line %d" % stmt.lineno))
            out["notes"].append("unsupported statement at line %d" % stmt.lineno)
    out["file"] = maps.get("FILE_ERRORS")
    out["dir"] = maps.get("DIR_ERRORS")
    return out


def _scan_exit(fn, out):
    """default class = second argument of `<x>.get(_errno, errors.C)`; `wraps` = there is a
    `reraise(...)` under `if exc_type and isinstance(exc_value, EnvironmentError)` and the map
    is selected by `self._directory`."""
    selects = False
    for node in ast.walk(fn):
        if isinstance(node, ast.Call) and isinstance(node.func, ast.Attribute) and node.func.attr == "get" and len(node.args) == 2:
            out["default"] = _class_term(node.args[1])[0]
        if isinstance(node, ast.IfExp):
            src = ast.unparse(node)
            if src.replace(" ", "") == "self.DIR_ERRORSifself._directoryelseself.FILE_ERRORS":
                selects = True
        if isinstance(node, ast.If):
            test = ast.unparse(node.test)
            if "isinstance(exc_value, EnvironmentError)" in test or "isinstance(exc_value, OSError)" in test:
                for sub in ast.walk(node):
                    if isinstance(sub, ast.Call) and isinstance(sub.func, ast.Name) and sub.func.id == "reraise":
                        out["wraps"] = True
                    if isinstance(sub, ast.Raise):
                        out["wraps"] = True
    if not selects:
        out["notes"].append("__exit__: selection `DIR_ERRORS if self._directory else FILE_ERRORS` not found")
        out["wraps"] = False


PRIMS = ("os.", "io.open", "shutil.", "scandir", "sendfile")
# different spellings of one primitive (a rename between them is harmless)
ALIASES = {"os.unlink": "os.remove", "os.scandir": "scandir", "open": "io.open", "os.removedirs": "os.rmdir"}
# calls that never raise OSError (pure path arithmetic, predicates that swallow OSError, pure helpers)
NEVER_RAISE = ("os.path.", "self._to_sys_path", "self._make_", "self._get_type_from_stat", "cls._get_type_from_stat",
               "self._lock", "self._root_path", "self._meta", "scandir_iter.", "os.sep", "os.pathconf")


def _dotted(node):
    parts = []
    while isinstance(node, ast.Attribute):
        parts.append(node.attr)
        node = node.value
    if isinstance(node, ast.Name):
        parts.append(node.id)
        return ".".join(reversed(parts))
    return None


def _wrapper_of(item):
    """`convert_os_errors(op, path, directory=B)` -> (True, B) ; anything else -> None"""
    c = item.context_expr
    if isinstance(c, ast.Call) and isinstance(c.func, ast.Name) and c.func.id in ("convert_os_errors", "_ConvertOSErrors"):
        d = False
        if len(c.args) >= 3:
            a = c.args[2]
            d = a.value if isinstance(a, ast.Constant) and isinstance(a.value, bool) else None
        for kw in c.keywords:
            if kw.arg == "directory":
                d = kw.value.value if isinstance(kw.value, ast.Constant) and isinstance(kw.value.value, bool) else None
        return d
    return "nowrap"


def _sites_of(fn):
    sites = []

    def visit(node, wrap):
        # wrap: None (unwrapped) | bool (directory flag) | "unknown"
        if isinstance(node, (ast.FunctionDef, ast.Lambda)) and node is not fn:
            return
        if isinstance(node, ast.With):
            w = wrap
            for item in node.items:
                visit(item.context_expr, w)
                r = _wrapper_of(item)
                if r != "nowrap":
                    w = "unknown" if r is None else r
            for st in node.body:
                visit(st, w)
            return
        if isinstance(node, ast.Call):
            name = ALIASES.get(_dotted(node.func), _dotted(node.func))
            if name and not name.startswith(NEVER_RAISE):
                if name.startswith(PRIMS) or name in ("scandir", "sendfile"):
                    sites.append((fn.name, name, wrap))
                elif name.startswith(("self._", "cls._")):
                    sites.append((fn.name, name, wrap))
        for ch in ast.iter_child_nodes(node):
            visit(ch, wrap)

    for st in fn.body:
        visit(st, None)
    # de-duplicate, keeping order
    seen, out = set(), []
    for s_ in sites:
        if s_ not in seen:
            seen.add(s_)
            out.append(s_)
    return out


def _class_level_branch(test):
    """which branch of a class-level `if` is live on CPython >= 3.8 / POSIX: "body" | "else" | None"""
    src = ast.unparse(test).replace(" ", "")
    if src == "scandir":
        return "body"
    if src == "typing.TYPE_CHECKING":
        return "else"
    if src.startswith("sys.version_info[:2]<(3,8)"):
        return "else"
    if src == "_WINDOWS_PLATFORM":
        return "else"
    return None


def collect_sites(repo_root):
    path = os.path.join(repo_root, "fs", "osfs.py")
    with open(path, encoding="utf-8") as fh:
        tree = ast.parse(fh.read(), filename=path)
    cls = None
    for node in tree.body:
        if isinstance(node, ast.ClassDef) and node.name == "OSFS":
            cls = node
    if cls is None:
        return [("?", "unknown", "unknown")]
    sites = []

    def body(stmts):
        for st in stmts:
            if isinstance(st, ast.FunctionDef):
                if st.name.startswith("__") or st.name in ("_make_details_from_stat", "_make_access_from_stat",
                                                           "_get_type_from_stat", "_gettarget", "_make_link_info"):
                    continue
                sites.extend(_sites_of(st))
            elif isinstance(st, ast.If):
                br = _class_level_branch(st.test)
                if br == "body":
                    body(st.body)
                elif br == "else":
                    body(st.orelse)
                else:
                    sites.append(("?", "unknown", "unknown"))

    body(cls.body)
    return sites


def render_sites(sites):
    lines = ["/-- every OS primitive / private helper called by a method of `OSFS`, with its lexically enclosing",
             "`convert_os_errors(.., directory=..)` -/",
             "def osfsSites : List Site := ["]
    for i, (m, c, w) in enumerate(sites):
        if w is None:
            wt, dt = "false", "false"
        elif w == "unknown":
            wt, dt, c = "false", "false", "unknown:" + c
        else:
            wt, dt = "true", ("true" if w else "false")
        lines.append('  { method := "%s", call := "%s", wrapped := %s, directory := %s }%s'
                     % (m, c, wt, dt, "," if i + 1 < len(sites) else ""))
    lines.append("]")
    lines.append("")
    return lines


def render(tab):
    lines = ["/- GENERATED by harness/extract/errnotable.py from $VERIF_REPO/fs/error_tools.py on every run.  Do not edit. -/",
             "import FsModel.Posix", "", "namespace Fs.Generated", "open Fs.Posix", ""]
    for key, nm, doc in (("file", "fileErrors", "_ConvertOSErrors.FILE_ERRORS"),
                         ("dir", "dirErrors", "_ConvertOSErrors.DIR_ERRORS (copy of FILE_ERRORS + overrides; Windows block skipped)")):
        ents = tab[key]
        lines.append("/-- %s -/" % doc)
        lines.append("def %s : List (Errno × FsClass) := [" % nm)
        if ents is None:
            ents = [(".unknownErrno", ".unknownClass", "map not found")]
        for i, (k, v, c) in enumerate(ents):
            lines.append("  (%s, %s)%s  -- %s" % (k, v, "," if i + 1 < len(ents) else "", c.replace("\n", " ")))
        lines.append("]")
        lines.append("")
    lines.append("/-- `os_errors.get(_errno, <default>)` in `__exit__` -/")
    lines.append("def defaultClass : FsClass := %s" % tab["default"])
    lines.append("")
    lines.append("/-- `__exit__` translates `EnvironmentError`s through the map selected by `directory=` -/")
    lines.append("def wrapsEnvironmentError : Bool := %s" % ("true" if tab["wraps"] else "false"))
    lines.append("")
    lines.extend(render_sites(tab.get("sites", [])))
    for n in tab["notes"]:
        lines.append("-- note: " + n)
    lines.append("end Fs.Generated")
    return "\n".join(lines) + "\n"


def generate(repo_root, out_dir):
    tab = collect(repo_root)
    tab["sites"] = collect_sites(repo_root)
    text = render(tab)
    path = os.path.join(out_dir, "ErrnoTable.lean")
    old = None
    if os.path.exists(path):
        with open(path, encoding="utf-8") as fh:
            old = fh.read()
    if old != text:  # keep the mtime (and lake's cache) when nothing changed
        with open(path, "w", encoding="utf-8") as fh:
            fh.write(text)
    return tab


def table_json(repo_root):
    """the same table as plain data, for the harness"""
    tab = collect(repo_root)

    def plain(ents):
        return [[k.strip("().").replace("other ", "other:"), v.strip(".")] for k, v, _c in (ents or [])]

    return {"file": plain(tab["file"]), "dir": plain(tab["dir"]), "default": tab["default"].strip("."),
            "wraps": tab["wraps"], "notes": tab["notes"],
            "sites": [list(x) for x in collect_sites(repo_root)]}


if __name__ == "__main__":
    import sys

    root = os.environ.get("VERIF_REPO", "/repo")
    _t = collect(root)
    _t["sites"] = collect_sites(root)
    sys.stdout.write(render(_t))
