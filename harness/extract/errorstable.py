"""AST extractor for the GENERATED class table of ``fs/errors.py`` (C06; design.d/GEN2.md).

Reads ``$VERIF_REPO/fs/errors.py`` and ``$VERIF_REPO/fs/opener/errors.py`` as text, parses them with ``ast``
(nothing of the repository is imported or executed) and emits ``<out_dir>/ErrorsTable.lean`` - one row of
``Fs.ErrorsModel.ErrClass`` (lean/FsModel/ErrorsModel.lean) per class statement, in source order - and the same
rows as ``ErrorsTable.json`` for the harness, which compares them with the live classes.

A row holds only what is WRITTEN in the class statement:

* ``bases``          - the base expressions (a bare name, or the last attribute of a dotted name)
* ``defaultMessage`` - ``default_message = "<literal>"`` in the class body (``none`` = not assigned here)
* ``init``           - the parameter names of its own ``__init__`` without ``self`` (``none`` = inherited),
  ``required``       - how many of them have no default,
  ``sets``           - the attributes ``self.<x> = ...`` its ``__init__`` assigns (top-level statements only),
  ``superInit``      - the class written in ``super(<C>, self).__init__(...)`` (``none`` = no such call)
* ``reduce``         - its own ``__reduce__``: ``return type(self), (self.a, self.b, ...)`` -> ``[a, b, ...]``
* ``definesStr`` / ``definesRepr`` - own ``__str__`` / ``__repr__``
* ``formats``        - the attribute whose value ``_format_msg`` formats with ``**self.__dict__`` (FSError: ``_msg``)
* ``unknown``        - everything in the class statement the extractor does not understand.  Never guessed: the
  table theorems of lean/FsProofs/ErrorsTableLaws.lean require it to be empty for every class.

Understood in a class body: a docstring, ``default_message = <string literal>``, the methods named above, other
plain methods / classmethods that do not assign to ``self`` (listed in ``otherMethods``), the decorator
``six.python_2_unicode_compatible``.  Understood in ``__init__``: a docstring, ``self.<x> = <expr>``,
``<local> = <expr>``, one ``super(<C>, self).__init__(...)`` expression statement.
"""
from __future__ import annotations

import ast
import json
import os

SOURCES = ["fs/errors.py", "fs/opener/errors.py"]
KNOWN_DECORATORS = {"six.python_2_unicode_compatible"}


def _dotted(node):
    if isinstance(node, ast.Name):
        return node.id
    if isinstance(node, ast.Attribute):
        d = _dotted(node.value)
        return None if d is None else d + "." + node.attr
    return None


def _self_attr(node):
    if isinstance(node, ast.Attribute) and isinstance(node.value, ast.Name) and node.value.id == "self":
        return node.attr
    return None


def _is_doc(st):
    return isinstance(st, ast.Expr) and isinstance(st.value, ast.Constant) and isinstance(st.value.value, str)


def _assigns_self(fn):
    for n in ast.walk(fn):
        if isinstance(n, (ast.Assign, ast.AugAssign, ast.AnnAssign)):
            targets = n.targets if isinstance(n, ast.Assign) else [n.target]
            for t in targets:
                for s in ast.walk(t):
                    if _self_attr(s) is not None:
                        return True
    return False


def _init(fn, row):
    a = fn.args
    if a.vararg or a.kwarg or a.kwonlyargs or getattr(a, "posonlyargs", []):
        row["unknown"].append("__init__: *args / **kwargs / keyword-only parameters")
    names = [x.arg for x in a.args]
    if not names or names[0] != "self":
        row["unknown"].append("__init__: first parameter is not self")
        names = ["self"] + names
    row["init"] = names[1:]
    row["required"] = len(names) - 1 - len(a.defaults)
    for st in fn.body:
        if _is_doc(st):
            continue
        if isinstance(st, ast.Assign) and len(st.targets) == 1:
            t = st.targets[0]
            at = _self_attr(t)
            if at is not None:
                if at not in row["sets"]:
                    row["sets"].append(at)
                continue
            if isinstance(t, ast.Name):
                continue
        if (isinstance(st, ast.Expr) and isinstance(st.value, ast.Call) and isinstance(st.value.func, ast.Attribute)
                and st.value.func.attr == "__init__" and isinstance(st.value.func.value, ast.Call)
                and isinstance(st.value.func.value.func, ast.Name) and st.value.func.value.func.id == "super"):
            sargs = st.value.func.value.args
            if (len(sargs) == 2 and isinstance(sargs[0], ast.Name) and isinstance(sargs[1], ast.Name)
                    and sargs[1].id == "self" and row["superInit"] is None):
                row["superInit"] = sargs[0].id
                continue
        row["unknown"].append("__init__ line %d: %s" % (st.lineno, type(st).__name__))


def _reduce(fn, row):
    body = [st for st in fn.body if not _is_doc(st)]
    ok = False
    if len(body) == 1 and isinstance(body[0], ast.Return) and isinstance(body[0].value, ast.Tuple):
        elts = body[0].value.elts
        if (len(elts) == 2 and isinstance(elts[0], ast.Call) and isinstance(elts[0].func, ast.Name)
                and elts[0].func.id == "type" and len(elts[0].args) == 1 and isinstance(elts[0].args[0], ast.Name)
                and elts[0].args[0].id == "self" and isinstance(elts[1], ast.Tuple)):
            attrs = [_self_attr(x) for x in elts[1].elts]
            if all(x is not None for x in attrs):
                row["reduce"] = attrs
                ok = True
    if not ok:
        row["unknown"].append("__reduce__ line %d: not `return type(self), (self.a, ...)`" % fn.lineno)


def _format_msg(fn, row):
    """`self.<attr>.format(**self.__dict__)` somewhere in the method -> attr"""
    for n in ast.walk(fn):
        if (isinstance(n, ast.Call) and isinstance(n.func, ast.Attribute) and n.func.attr == "format"
                and _self_attr(n.func.value) is not None and not n.args and len(n.keywords) == 1
                and n.keywords[0].arg is None and _self_attr(n.keywords[0].value) == "__dict__"):
            row["formats"] = _self_attr(n.func.value)
            return
    row["unknown"].append("_format_msg line %d: no `self.<attr>.format(**self.__dict__)`" % fn.lineno)


def collect_file(repo_root, rel):
    path = os.path.join(repo_root, rel)
    with open(path, encoding="utf-8") as fh:
        tree = ast.parse(fh.read(), filename=path)
    rows = []
    for node in tree.body:
        if not isinstance(node, ast.ClassDef):
            continue
        row = {"name": node.name, "source": rel, "line": node.lineno, "bases": [], "defaultMessage": None,
               "init": None, "required": 0, "sets": [], "superInit": None, "reduce": None, "definesStr": False,
               "definesRepr": False, "formats": None, "otherMethods": [], "unknown": []}
        for b in node.bases:
            d = _dotted(b)
            if d is None:
                row["unknown"].append("base expression at line %d" % b.lineno)
            else:
                row["bases"].append(d.split(".")[-1])
        if node.keywords:
            row["unknown"].append("class keywords (metaclass)")
        for d in node.decorator_list:
            if _dotted(d) not in KNOWN_DECORATORS:
                row["unknown"].append("class decorator at line %d" % d.lineno)
        for st in node.body:
            if _is_doc(st) or isinstance(st, ast.Pass):
                continue
            if (isinstance(st, ast.Assign) and len(st.targets) == 1 and isinstance(st.targets[0], ast.Name)
                    and st.targets[0].id == "default_message" and isinstance(st.value, ast.Constant)
                    and isinstance(st.value.value, str) and row["defaultMessage"] is None):
                row["defaultMessage"] = st.value.value
                continue
            if isinstance(st, ast.FunctionDef):
                decos = [_dotted(d) for d in st.decorator_list]
                if st.name == "__init__" and not decos and row["init"] is None:
                    _init(st, row)
                elif st.name == "__reduce__" and not decos and row["reduce"] is None:
                    _reduce(st, row)
                elif st.name == "__str__" and not decos:
                    row["definesStr"] = True
                elif st.name == "__repr__" and not decos:
                    row["definesRepr"] = True
                elif st.name == "_format_msg" and not decos and row["formats"] is None:
                    _format_msg(st, row)
                elif (not st.name.startswith("__") and all(d in ("classmethod", "staticmethod") for d in decos)
                        and not _assigns_self(st)):
                    row["otherMethods"].append(st.name)
                else:
                    row["unknown"].append("method %s at line %d" % (st.name, st.lineno))
                continue
            row["unknown"].append("class-body statement at line %d: %s" % (st.lineno, type(st).__name__))
        rows.append(row)
    return rows


def collect(repo_root):
    rows, notes = [], []
    for rel in SOURCES:
        try:
            rows += collect_file(repo_root, rel)
        except (OSError, SyntaxError) as ex:
            notes.append("%s: %s" % (rel, ex))
    return rows, notes


def lstr(s):
    out = ['"']
    for ch in s:
        if ch == "\\":
            out.append("\\\\")
        elif ch == '"':
            out.append('\\"')
        elif ch == "\n":
            out.append("\\n")
        elif ch == "\t":
            out.append("\\t")
        elif ch == "\r":
            out.append("\\r")
        elif 32 <= ord(ch) < 127:
            out.append(ch)
        else:
            out.append("\\u{%x}" % ord(ch))
    out.append('"')
    return "".join(out)


def llist(xs):
    return "[" + ", ".join(lstr(x) for x in xs) + "]"


def lopt(x, f):
    return "none" if x is None else "(some %s)" % f(x)


def render(rows, notes):
    lines = [
        "/- GENERATED by harness/extract/errorstable.py from $VERIF_REPO/fs/errors.py and fs/opener/errors.py on every run.",
        "   Do not edit. -/",
        "import FsModel.ErrorsModel",
        "",
        "namespace Fs.Generated",
        "open Fs.ErrorsModel",
        "",
        "/-- files the extractor could not read / parse -/",
        "def errorsTableNotes : List String := %s" % llist(notes),
        "",
        "/-- the class statements of fs/errors.py and fs/opener/errors.py, in source order -/",
        "def errorsTable : List ErrClass := [",
    ]
    body = []
    for r in rows:
        body.append(
            "  -- %s:%d\n"
            "  { name := %s, file := %s, bases := %s,\n"
            "    defaultMessage := %s,\n"
            "    init := %s, required := %d, sets := %s, superInit := %s,\n"
            "    reduce := %s, definesStr := %s, definesRepr := %s, formats := %s,\n"
            "    unknown := %s }" % (
                r["source"], r["line"], lstr(r["name"]), lstr(r["source"]), llist(r["bases"]),
                lopt(r["defaultMessage"], lstr), lopt(r["init"], llist), r["required"], llist(r["sets"]),
                lopt(r["superInit"], lstr), lopt(r["reduce"], llist), "true" if r["definesStr"] else "false",
                "true" if r["definesRepr"] else "false", lopt(r["formats"], lstr), llist(r["unknown"])))
    lines.append(",\n".join(body))
    lines += ["]", "", "end Fs.Generated", ""]
    return "\n".join(lines)


def _write_if_changed(path, text):
    try:
        with open(path, encoding="utf-8") as fh:
            if fh.read() == text:
                return
    except OSError:
        pass
    tmp = path + ".tmp%d" % os.getpid()
    with open(tmp, "w", encoding="utf-8") as fh:
        fh.write(text)
    os.replace(tmp, path)


def generate(repo_root, out_dir):
    rows, notes = collect(repo_root)
    _write_if_changed(os.path.join(out_dir, "ErrorsTable.lean"), render(rows, notes))
    _write_if_changed(os.path.join(out_dir, "ErrorsTable.json"),
                      json.dumps({"sources": SOURCES, "notes": notes, "classes": rows}, indent=1, sort_keys=True) + "\n")


if __name__ == "__main__":
    import sys
    here = os.path.dirname(os.path.abspath(__file__))
    generate(os.environ.get("VERIF_REPO", "/repo"),
             sys.argv[1] if len(sys.argv) > 1 else os.path.join(os.path.dirname(os.path.dirname(here)), "lean", "FsModel", "Generated"))
