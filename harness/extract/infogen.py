#!/usr/bin/env python3
"""Source-to-Lean translation of `class Info` of $VERIF_REPO/fs/info.py
->  lean/FsModel/Generated/InfoGen.lean (namespace Fs.InfoGen), with the engine of pathgen.py.

An `Info` object IS its raw dictionary (`self.raw`, the parameter `self : Info.Raw`: namespace -> key -> JSON-like
value, first binding of a key wins).  The values are dynamically typed (`Info.JVal`): `self.get(...)` hands out a
raw value, `cast(T, v)` returns `v`, and the declared return type of an accessor that hands a raw value on is a
claim about well-formed data, not a run-time check - such an accessor returns `JVal`.  A `str` method called on a
raw value is `AttributeError` unless the value is a `str` (`pyStrMethod`, FsModel/PyInfo.lean); exceptions are the
module's own `Fs.InfoGen.Err` (MissingInfoNamespace, KeyError, AttributeError, TypeError, ...).

Externs (FsModel/PyInfo.lean, taken from the hand model): `ResourceType(v)`, `Permissions(names)`, and the callable
stored in `self._to_datetime` (the default, `fs.time.epoch_to_datetime`).

`lean/FsProofs/InfoGenEq.lean` proves the generated definitions equal to `Fs.Info.Info.*` (FsModel/Info.lean).

Not translated (listed in the generated file): `__init__` / `copy` (store the dictionary and the callable),
`__str__` / `__eq__` (presentation, comparison with arbitrary objects), `make_path` (fs.path.join on a raw value; no
hand counterpart), the `@overload` stubs.
"""
from __future__ import annotations

import ast
import json
import os
import sys

HERE = os.path.dirname(os.path.abspath(__file__))
if HERE not in sys.path:
    sys.path.insert(0, HERE)

import pathgen as PG  # noqa: E402

VERIF = os.path.dirname(os.path.dirname(HERE))
REPO = os.environ.get("VERIF_REPO", "/repo")
OUT_DIR = os.path.join(VERIF, "lean", "FsModel", "Generated")

SOURCE = "fs/info.py"
CLASS = "Info"
FIELD = "raw"
TAG = "InfoGen"
# in dependency order: (python name, is a property)
WANTED = [("get", False), ("_require_namespace", False), ("_make_datetime", False), ("is_writeable", False),
          ("has_namespace", False), ("name", True), ("suffix", True), ("suffixes", True), ("stem", True),
          ("is_dir", True), ("is_file", True), ("is_link", True), ("type", True), ("accessed", True),
          ("modified", True), ("created", True), ("metadata_changed", True), ("permissions", True), ("size", True),
          ("user", True), ("uid", True), ("group", True), ("gid", True), ("target", True)]
NOT_MODELLED = {"__init__": "stores the dictionary, the to_datetime callable and frozenset(raw.keys())",
                "__str__": "presentation", "__eq__": "comparison with an arbitrary object",
                "copy": "deepcopy of the dictionary", "make_path": "fs.path.join on a raw value (no hand counterpart)"}
CLASS_STATEMENTS = {"__slots__ = ['raw', '_to_datetime', 'namespaces']", "__repr__ = __str__"}
ERR_CLASSES = {"MissingInfoNamespace", "KeyError", "AttributeError", "TypeError", "ValueError", "IndexError"}


class InfoModule:
    def __init__(self, repo):
        self.repo = repo
        self.refusals = []
        self.translated = []
        self.defs_text = []
        self.other = []

    def refuse(self, fn, node, msg):
        r = PG.Refuse(fn, node, msg)
        self.refusals.append((fn, r.where, str(r)))

    def build(self):
        try:
            with open(os.path.join(self.repo, SOURCE), encoding="utf-8") as fh:
                tree = ast.parse(fh.read(), type_comments=True)
        except (OSError, SyntaxError) as ex:
            self.refusals.append(("<module>", "-", "cannot read/parse %s: %s" % (SOURCE, ex)))
            return
        cdef = None
        for node in tree.body:
            if isinstance(node, ast.ClassDef) and node.name == CLASS:
                cdef = node
            elif isinstance(node, (ast.ClassDef, ast.FunctionDef)):
                self.refuse(node.name, node, "top-level name the translator was not told about")
        if cdef is None:
            self.refusals.append(("<module>", "-", "class %s not found in %s" % (CLASS, SOURCE)))
            return
        mod = PG.Module("info")
        mod.self_class, mod.self_field, mod.self_type = CLASS, FIELD, PG.RAWD
        mod.dynamic = True
        mod.err_classes = ERR_CLASSES
        mod.catchable = {"KeyError"}          # nothing in Fs.InfoGen.Err is a sub- or superclass of KeyError
        mod.param_types = {"_make_datetime": {"t": PG.ANY}}       # it is handed raw values
        mod.dyn_ctors = {"ResourceType": ("pyResourceType", PG.NAT), "Permissions": ("pyPermissions", PG.PERMS)}
        mod.stored_callables = {"_to_datetime": ("pyToDatetime", PG.ANY, PG.DTM)}
        defs = {}
        for node in cdef.body:
            if isinstance(node, ast.Expr) and isinstance(node.value, ast.Constant):
                continue
            if isinstance(node, ast.FunctionDef):
                decos = [ast.unparse(d) for d in node.decorator_list]
                if decos == ["overload"]:
                    continue                  # typing stub: the last definition of the name is the function
                if decos == ["property"]:
                    mod.properties.add(node.name)
                elif decos:
                    self.refuse(node.name, node, "decorator %s" % decos)
                    continue
                if node.name in defs:
                    self.refuse(node.name, node, "second definition of the method")
                    continue
                defs[node.name] = node
                continue
            if isinstance(node, ast.Assign) and ast.unparse(node) in CLASS_STATEMENTS:
                continue
            self.refuse("<class>", node, "class-level statement")
        wanted = [w[0] for w in WANTED]
        self.other = sorted(n for n in defs if n not in wanted)
        for n in self.other:
            if n not in NOT_MODELLED:
                self.refuse(n, defs[n], "method of %s the translator was not told about" % CLASS)
        for py, is_prop in WANTED:
            if py not in defs:
                self.refusals.append((py, "-", "method %s.%s not found" % (CLASS, py)))
                continue
            node = defs[py]
            if is_prop != (py in mod.properties):
                self.refuse(py, node, "expected a %s" % ("property" if is_prop else "plain method"))
                continue
            try:
                tr = PG.FnTranslator(mod, node, py, self_param="method")
                info, text = tr.translate()
            except PG.Refuse as r:
                if r.func == "?":
                    r = PG.Refuse(py, r.node, r.msg)
                self.refusals.append((py, r.where, str(r)))
                continue
            except Exception as ex:
                self.refusals.append((py, "-", "method %s: internal translator error %s: %s" % (py, type(ex).__name__, ex)))
                continue
            info.lean_name = PG.lean_ident(py)
            info.is_method = True
            info.self_type = PG.RAWD
            mod.methods[py] = info
            self.translated.append(py)
            self.defs_text.append("/-- `%s` `%s.%s` (line %d) -/\n%s" % (SOURCE, CLASS, py, node.lineno, PG.render_def(info, text)))

    def emit(self):
        L = []
        w = L.append
        w("/-")
        w("  GENERATED by harness/extract/infogen.py from $VERIF_REPO/%s (class %s) - do not edit." % (SOURCE, CLASS))
        w("  An object is its raw dictionary: `self.%s` is the parameter `self : Info.Raw`; raw values are `Info.JVal`." % FIELD)
        w("  `Res` / `Err` / `pyIdx` are the ones of FsModel/PyInfo.lean (namespace Fs.InfoGen).")
        w("  FsProofs/InfoGenEq.lean proves each definition equal to Fs.Info.Info.* (FsModel/Info.lean).")
        w("  translated (%d): %s" % (len(self.translated), ", ".join(self.translated)))
        w("  methods not translated: %s" % ", ".join("%s (%s)" % (n, NOT_MODELLED.get(n, "?")) for n in self.other))
        if self.refusals:
            w("  REFUSED:")
            for fn, where, msg in self.refusals:
                w("    %s.translate(%s): %s" % (TAG, fn, msg.replace("-/", "- /")))
        w("-/")
        w("import FsModel.PyStr")
        w("import FsModel.PyInfo")
        w("")
        w("set_option linter.unusedVariables false")
        w("")
        w("namespace Fs.InfoGen")
        w("open Fs Fs.PyStr")
        w("")
        w("def translated : List String := [%s]" % ", ".join('"%s"' % n for n in sorted(self.translated)))
        w("")
        w("def refused : List (String × String) := [%s]" % ", ".join('("%s", "%s")' % (fn, where) for fn, where, _m in self.refusals))
        w("")
        for d in self.defs_text:
            w(d)
            w("")
        w("end Fs.InfoGen")
        return "\n".join(L) + "\n"

    def status(self):
        return {
            "source": SOURCE, "class": CLASS, "translated": self.translated, "out_of_scope": self.other,
            "new_functions": [], "vanished_functions": [],
            "refused": [{"obligation": "%s.translate(%s)" % (TAG, fn), "function": fn, "node": where, "message": msg}
                        for fn, where, msg in self.refusals],
        }


def run(repo_root, out_dir):
    im = InfoModule(repo_root)
    im.build()
    os.makedirs(out_dir, exist_ok=True)
    PG.write_if_changed(os.path.join(out_dir, "InfoGen.lean"), im.emit())
    PG.write_if_changed(os.path.join(out_dir, "InfoGen.status.json"), json.dumps(im.status(), indent=1, sort_keys=True) + "\n")
    return im


def generate(repo_root, out_dir):
    run(repo_root, out_dir)
    return 0


def main():
    im = run(REPO, OUT_DIR)
    if "-v" in sys.argv:
        print("translated:", ", ".join(im.translated))
    for fn, where, msg in im.refusals:
        sys.stderr.write("infogen: REFUSED %s.translate(%s): %s\n" % (TAG, fn, msg))
    return 3 if im.refusals else 0


if __name__ == "__main__":
    sys.exit(main())
