#!/usr/bin/env python3
"""Source-to-Lean translation of the other pure modules of the repository under test, with the engine of
pathgen.py (same scheme, same refusal discipline; design.d/GEN2.md):

    $VERIF_REPO/fs/wildcard.py  ->  lean/FsModel/Generated/WildGen.lean   (Fs.WildGen;  FsProofs/WildGenEq.lean, C14)
    $VERIF_REPO/fs/glob.py      ->  lean/FsModel/Generated/GlobGen.lean   (Fs.GlobGen;  FsProofs/GlobGenEq.lean, C14)
    $VERIF_REPO/fs/tools.py     ->  lean/FsModel/Generated/ToolsGen.lean  (Fs.ToolsGen; FsProofs/ToolsGenEq.lean, C02)

Only the pure string/sequence functions of a module are translated (`WANTED`); its classes and the functions
over filesystem objects are listed as out of scope in the generated file; any *other* top-level name is new:
it is translated (or refused) and reported, never silently skipped.

What is particular to these modules:

* `_PATTERN_CACHE = LRUCache(n)` is the process-wide cache of compiled patterns.  `match`/`imatch` are
  translated *modulo the cache*: the statement `try: X = CACHE[k] except KeyError: ...; CACHE[k] = X = e` is
  translated as `...; X = e` (`FnTranslator.cache_idiom`; anything that deviates from that exact shape is
  refused).  That a valid cache is transparent is C14's `wildcard_cache_transparent` / `pattern_cache_transparent`.
* `re.escape`, `re.compile(text[, re.IGNORECASE])`, `pattern.match(s)` are the primitives of
  `lean/FsModel/PyRe.lean`, i.e. the model of Python's `re` that `FsModel/Regex.lean` states and C14 validates
  differentially on every run.  `str.lower()` is the ASCII model the hand model uses.
* `from .path import iteratepath` (glob) is the generated `Fs.PathGen.iteratepath`.
"""
from __future__ import annotations

import ast
import os
import sys

HERE = os.path.dirname(os.path.abspath(__file__))
if HERE not in sys.path:
    sys.path.insert(0, HERE)

import pathgen as PG  # noqa: E402

VERIF = os.path.dirname(os.path.dirname(HERE))
REPO = os.environ.get("VERIF_REPO", "/repo")
OUT_DIR = os.path.join(VERIF, "lean", "FsModel", "Generated")


def is_lrucache(node, mod):
    """NAME = LRUCache(<int>)"""
    if (isinstance(node, ast.Assign) and len(node.targets) == 1 and isinstance(node.targets[0], ast.Name)
            and isinstance(node.value, ast.Call) and isinstance(node.value.func, ast.Name)
            and node.value.func.id == "LRUCache" and len(node.value.args) == 1 and not node.value.keywords
            and isinstance(node.value.args[0], ast.Constant) and isinstance(node.value.args[0].value, int)):
        mod.caches.add(node.targets[0].id)
        return True
    return False


def is_namedtuple(node):
    return (isinstance(node, ast.Assign) and isinstance(node.value, ast.Call)
            and isinstance(node.value.func, ast.Name) and node.value.func.id == "namedtuple")


class WildModule(PG.PathModule):
    SOURCE = "fs/wildcard.py"
    OUT = "WildGen.lean"
    NAMESPACE = "Fs.WildGen"
    MODNAME = "wildcard"
    TAG = "WildGen"
    GENERATOR = "harness/extract/puregen.py"
    EQ_MODULE = "FsProofs/WildGenEq.lean"
    HAND = "FsModel/Wild.lean"
    HAND_MODEL = ["_translate", "match", "imatch", "match_any", "imatch_any", "get_matcher"]
    WANTED = None
    LEAN_IMPORTS = ["FsModel.PyStr", "FsModel.PyRe"]
    OPENS = "Fs Fs.PyStr Fs.PyRe"

    def module_statement(self, node, mod):
        return is_lrucache(node, mod)


class GlobModule(PG.PathModule):
    SOURCE = "fs/glob.py"
    OUT = "GlobGen.lean"
    NAMESPACE = "Fs.GlobGen"
    MODNAME = "glob"
    TAG = "GlobGen"
    GENERATOR = "harness/extract/puregen.py"
    EQ_MODULE = "FsProofs/GlobGenEq.lean"
    HAND = "FsModel/Glob.lean"
    WANTED = ["_split_pattern_by_sep", "_translate", "_translate_glob", "match", "imatch", "match_any", "imatch_any",
              "get_matcher"]
    HAND_MODEL = WANTED
    OUT_OF_SCOPE = {"Globber": "class over a filesystem object (C13/C14 model it)",
                    "BoundGlobber": "class over a filesystem object"}
    LEAN_IMPORTS = ["FsModel.PyStr", "FsModel.PyRe", "FsModel.Generated.PathGen"]
    OPENS = "Fs Fs.PyStr Fs.PyRe"
    EXTERNS = {
        "iteratepath": ("from .path import iteratepath",
                        PG.FuncInfo("iteratepath", "PathGen.iteratepath", [("path", PG.STR)], PG.tlist(PG.STR), True)),
    }

    def module_statement(self, node, mod):
        return is_lrucache(node, mod) or is_namedtuple(node)


class ToolsModule(PG.PathModule):
    """fs/tools.py: only `copy_file_data` is a function over values the translator can name - two file objects,
    the source as `File.Reader` (remaining data + short-read oracle, the abstraction of FsModel/File.lean), the
    destination as the bytes written so far; both are returned (they are mutated).  The other functions work on
    filesystem objects."""
    SOURCE = "fs/tools.py"
    OUT = "ToolsGen.lean"
    NAMESPACE = "Fs.ToolsGen"
    MODNAME = "tools"
    TAG = "ToolsGen"
    GENERATOR = "harness/extract/puregen.py"
    EQ_MODULE = "FsProofs/ToolsGenEq.lean"
    HAND = "FsModel/File.lean (copyFileData)"
    WANTED = ["copy_file_data"]
    HAND_MODEL = WANTED
    OUT_OF_SCOPE = {"remove_empty": "works on a filesystem object (fs.removedir)",
                    "get_intermediate_dirs": "works on a filesystem object (fs.getinfo, fs.lock)",
                    "is_thread_safe": "works on filesystem objects (fs.getmeta)"}
    LEAN_IMPORTS = ["FsModel.PyStr", "FsModel.File"]
    OPENS = "Fs Fs.PyStr"

    def setup_module(self, mod):
        mod.io_roles = {"copy_file_data": [PG.READER, PG.WRITER]}


class CopyModule(PG.PathModule):
    """fs/copy.py: only the condition table `_copy_is_necessary`.  The two filesystems are read through
    `getmodified(path)` / `exists(path)` on ONE path each, so each is abstracted as what those reads can return for
    that path (`Option (Option Int)`: not found / found with an optional modification time) - the way
    `copy_file_data` got its reader.  Everything else in the module drives filesystem objects."""
    SOURCE = "fs/copy.py"
    OUT = "CopyGen.lean"
    NAMESPACE = "Fs.CopyGen"
    MODNAME = "copy"
    TAG = "CopyGen"
    GENERATOR = "harness/extract/puregen.py"
    EQ_MODULE = "FsProofs/CopyGenEq.lean"
    HAND = "FsModel/Copy.lean (copyIsNecessary, compare)"
    WANTED = ["_copy_is_necessary"]
    HAND_MODEL = WANTED
    OUT_OF_SCOPE = {n: "drives filesystem objects (C19 models it)" for n in (
        "copy_fs", "copy_fs_if_newer", "copy_fs_if", "copy_file", "copy_file_if_newer", "copy_file_if",
        "copy_file_internal", "copy_structure", "copy_dir", "copy_dir_if_newer", "copy_dir_if", "copy_modified_time")}
    LEAN_IMPORTS = ["FsModel.PyStr"]
    OPENS = "Fs Fs.PyStr"

    def setup_module(self, mod):
        mod.fs_roles = {"_copy_is_necessary": {"src_fs": "src_path", "dst_fs": "dst_path"}}


class MirrorModule(PG.PathModule):
    """fs/mirror.py: only `_compare(info1, info2)`; an `Info` is the two values the function reads from it,
    `(size, modified)`."""
    SOURCE = "fs/mirror.py"
    OUT = "MirrorGen.lean"
    NAMESPACE = "Fs.MirrorGen"
    MODNAME = "mirror"
    TAG = "MirrorGen"
    GENERATOR = "harness/extract/puregen.py"
    EQ_MODULE = "FsProofs/CopyGenEq.lean"
    HAND = "FsModel/Copy.lean (compare)"
    WANTED = ["_compare"]
    HAND_MODEL = WANTED
    OUT_OF_SCOPE = {"mirror": "drives filesystem objects (C19 models it)", "_mirror": "drives filesystem objects (C19 models it)"}
    LEAN_IMPORTS = ["FsModel.PyStr"]
    OPENS = "Fs Fs.PyStr"

    def setup_module(self, mod):
        mod.info_roles = ("_compare",)


MODULES = [WildModule, GlobModule, ToolsModule, CopyModule, MirrorModule]


def generate(repo_root, out_dir):
    """entry point of the dispatcher; a refusal never fails the run (see pathgen.generate)"""
    for cls in MODULES:
        PG.run_module(cls, repo_root, out_dir)
    return 0


def main():
    rc = 0
    only = [a for a in sys.argv[1:] if not a.startswith("-")]
    for cls in MODULES:
        if only and cls.TAG not in only:
            continue
        pm = PG.run_module(cls, REPO, OUT_DIR)
        if "-v" in sys.argv:
            print("%s translated: %s" % (cls.TAG, ", ".join(pm.translated)))
        for fn, where, msg in pm.refusals:
            sys.stderr.write("puregen: REFUSED %s.translate(%s): %s\n" % (cls.TAG, fn, msg))
            rc = 3
    return rc


if __name__ == "__main__":
    sys.exit(main())
