"""AST extractor for the GENERATED lock table of C08 (never imports or executes the source).

For every method of FS, MemoryFS, MountFS, MultiFS, WrapFS, SubFS, ClosingSubFS, OSFS (and the
module-level functions of fs/copy.py, fs/move.py, fs/mirror.py, fs/tools.py, which take the
locks of two filesystems) it emits the sequence of *segments* of the body:

* `locked`   — the statements of a `with self._lock:` / `with self.lock():` /
               `with a.lock(), b.lock():` block (nested lock-withs are flattened: re-entrant),
* `unlocked` — everything else,

each with the shared-state accesses it makes, in evaluation order.  Syntax the extractor does
not understand makes the whole method `unknown` (never guessed).

Local variables that hold shared state are tracked ("entry variables"): a name assigned from
`self._get_dir_entry(...)`, `self.root`, `self._make_dir_entry(...)`, from `<entry>.get_entry(...)`,
from `typing.cast(T, <entry expr>)` / a conditional of such, or from another entry variable.  Every
attribute access or method call on an entry variable (`.get_entry`, `.set_entry`, `.remove_entry`,
`.list`, `.to_info`, `.lock`, `.is_dir`, …) and every `x in <entry>` is recorded as `entryUse
<name>` in the segment where it happens — in particular in the unlocked statements that follow a
`with self._lock:` block inside a generator.

Output: <out_dir>/LockTable.lean (data over FsModel/LockTypes.lean).
"""
from __future__ import annotations

import ast
import os

CLASSES = [
    ("fs/base.py", "FS"),
    ("fs/memoryfs.py", "MemoryFS"),
    ("fs/mountfs.py", "MountFS"),
    ("fs/multifs.py", "MultiFS"),
    ("fs/wrapfs.py", "WrapFS"),
    ("fs/subfs.py", "SubFS"),
    ("fs/subfs.py", "ClosingSubFS"),
    ("fs/osfs.py", "OSFS"),
    ("fs/lrucache.py", "LRUCache"),
]
MODULES = [("fs/copy.py", "fs.copy"), ("fs/move.py", "fs.move"), ("fs/mirror.py", "fs.mirror"),
           ("fs/tools.py", "fs.tools")]

DIR_MUTATORS = {"set_entry", "remove_entry", "clear"}
OS_MODULES = {"os", "shutil", "sendfile", "stat", "errno", "platform", "tempfile", "io"}
# self attributes that are mutable shared state of a filesystem object
SELF_STATE_ATTRS = {"root", "mounts", "default_fs", "_filesystems", "_fs_sequence", "write_fs", "_write_fs_name",
                    "_closed", "_wrap_fs", "_sort_index", "_sub_dir", "auto_close", "_auto_close"}
FILE_OPENERS = {"open", "openbin"}
# self-calls whose result is a (reference to a) shared _DirEntry
ENTRY_SOURCES = {"_get_dir_entry", "_make_dir_entry"}
# self attributes holding another filesystem object (calls through them are delegate calls)
DELEGATE_ATTRS = {"default_fs", "write_fs", "_wrap_fs"}
# raw mapping operations (LRUCache is an OrderedDict: each of these is one atomic C-level step)
DICT_OPS = {"__getitem__", "__delitem__", "__setitem__", "popitem"}
# modules of the library whose functions take filesystem locks themselves
LIB_MODULES = {"copy", "move", "mirror", "tools"}


class Unknown(Exception):
    pass


def _lock_expr(node):
    """normalised lock name if `node` is a lock expression, else None"""
    # X._lock
    if isinstance(node, ast.Attribute) and node.attr == "_lock" and isinstance(node.value, ast.Name):
        return node.value.id.lstrip("_") or node.value.id
    # X.lock()
    if (isinstance(node, ast.Call) and not node.args and not node.keywords
            and isinstance(node.func, ast.Attribute) and node.func.attr == "lock"
            and isinstance(node.func.value, ast.Name)):
        return node.func.value.id.lstrip("_") or node.func.value.id
    return None


class Seg:
    def __init__(self, locked, locks=()):
        self.locked = locked
        self.locks = list(locks)
        self.yields = False
        self.loops = False
        self.acc = []


class MethodWalker:
    def __init__(self, fs_methods, fn, lib_fns=frozenset()):
        self.fs_methods = fs_methods
        self.lib_fns = lib_fns
        self.fn = fn
        self.segs = [Seg(False)]
        self.lock_depth = 0
        self.loop_depth = 0
        self.file_vars = set()
        self.entry_vars = set()
        self.nested = {}
        self.inlining = []
        for n in ast.walk(fn):
            if isinstance(n, (ast.FunctionDef, ast.AsyncFunctionDef)) and n is not fn:
                self.nested[n.name] = n
        # a nested def referenced other than by a direct call cannot be placed: unknown
        for n in ast.walk(fn):
            if isinstance(n, ast.Name) and n.id in self.nested and isinstance(n.ctx, ast.Load):
                pass
        self._direct_calls = set()
        for n in ast.walk(fn):
            if isinstance(n, ast.Call) and isinstance(n.func, ast.Name) and n.func.id in self.nested:
                self._direct_calls.add(id(n.func))
        for n in ast.walk(fn):
            if (isinstance(n, ast.Name) and n.id in self.nested and isinstance(n.ctx, ast.Load)
                    and id(n) not in self._direct_calls):
                if self._has_tracked(self.nested[n.id]):
                    raise Unknown("nested function %s used as a value" % n.id)

    # ------------------------------------------------------------------ helpers
    def _has_tracked(self, node):
        probe = MethodWalker.__new__(MethodWalker)
        probe.fs_methods = self.fs_methods
        probe.lib_fns = self.lib_fns
        probe.segs = [Seg(False)]
        probe.lock_depth = probe.loop_depth = 0
        probe.file_vars = set()
        probe.entry_vars = set()
        probe.nested = {}
        probe.inlining = []
        try:
            for s in node.body:
                probe.stmt(s)
        except Unknown:
            return True
        return any(s.acc or s.locked for s in probe.segs)

    @property
    def cur(self):
        return self.segs[-1]

    def add(self, kind, name=None):
        self.cur.acc.append((kind, name))
        if self.loop_depth:
            self.cur.loops = True

    def is_entry_expr(self, node):
        """does the expression evaluate to (a reference to) shared directory-entry state?"""
        if node is None:
            return False
        if isinstance(node, ast.Name):
            return node.id in self.entry_vars
        if isinstance(node, ast.Attribute):
            return isinstance(node.value, ast.Name) and node.value.id == "self" and node.attr == "root"
        if isinstance(node, ast.IfExp):
            return self.is_entry_expr(node.body) or self.is_entry_expr(node.orelse)
        if isinstance(node, ast.BoolOp):
            return any(self.is_entry_expr(v) for v in node.values)
        if hasattr(ast, "NamedExpr") and isinstance(node, ast.NamedExpr):
            return self.is_entry_expr(node.value)
        if isinstance(node, ast.Call):
            f = node.func
            if isinstance(f, ast.Attribute):
                if isinstance(f.value, ast.Name) and f.value.id == "self" and f.attr in ENTRY_SOURCES:
                    return True
                if f.attr == "get_entry" and self.is_entry_expr(f.value):
                    return True
                if f.attr == "cast" and len(node.args) == 2:  # typing.cast(T, x)
                    return self.is_entry_expr(node.args[1])
            if isinstance(f, ast.Name) and f.id == "cast" and len(node.args) == 2:
                return self.is_entry_expr(node.args[1])
        return False

    def bind(self, target, value):
        """assignment `target = value`: propagate the entry-variable property"""
        if isinstance(target, ast.Name):
            if self.is_entry_expr(value):
                self.entry_vars.add(target.id)
            else:
                self.entry_vars.discard(target.id)
        elif isinstance(target, (ast.Tuple, ast.List)) and isinstance(value, (ast.Tuple, ast.List)) \
                and len(target.elts) == len(value.elts):
            for t, v in zip(target.elts, value.elts):
                self.bind(t, v)

    # ------------------------------------------------------------------ expressions
    def expr(self, node):
        if node is None:
            return
        if isinstance(node, (ast.Yield, ast.YieldFrom)):
            self.expr(node.value)
            self.cur.yields = True
            return
        if isinstance(node, ast.Await):
            raise Unknown("await")
        if isinstance(node, ast.Lambda):
            self.expr(node.body)
            return
        if isinstance(node, (ast.GeneratorExp, ast.ListComp, ast.SetComp, ast.DictComp)):
            # the first iterable is evaluated eagerly, the rest per element
            self.loop_depth += 1
            for g in node.generators:
                self.expr(g.iter)
                for c in g.ifs:
                    self.expr(c)
            if isinstance(node, ast.DictComp):
                self.expr(node.key)
                self.expr(node.value)
            else:
                self.expr(node.elt)
            self.loop_depth -= 1
            if isinstance(node, ast.GeneratorExp):
                self.cur.yields = True
            return
        if isinstance(node, ast.Call):
            self.call(node)
            return
        if isinstance(node, ast.Attribute):
            if isinstance(node.value, ast.Name) and node.value.id == "self":
                if node.attr == "root":
                    self.add("root")
                elif node.attr in SELF_STATE_ATTRS:
                    self.add("attr", node.attr)
                return
            self.expr(node.value)
            if self.is_entry_expr(node.value):
                self.add("entryUse", node.attr)
            return
        if isinstance(node, ast.Compare):
            self.expr(node.left)
            for op, comp in zip(node.ops, node.comparators):
                self.expr(comp)
                if isinstance(op, (ast.In, ast.NotIn)) and self.is_entry_expr(comp):
                    self.add("entryUse", "in")
            return
        if isinstance(node, ast.Subscript) and self.is_entry_expr(node.value):
            self.expr(node.value)
            self.expr(node.slice)
            self.add("entryUse", "getitem")
            return
        for child in ast.iter_child_nodes(node):
            if isinstance(child, ast.expr):
                self.expr(child)
            elif isinstance(child, (ast.keyword,)):
                self.expr(child.value)
            elif isinstance(child, ast.comprehension):
                raise Unknown("stray comprehension")

    def call(self, node):
        f = node.func
        # receiver first, then arguments, then the call itself
        recv = None
        if isinstance(f, ast.Attribute):
            recv = f.value
            # super(...).m(...)
            if (isinstance(recv, ast.Call) and isinstance(recv.func, ast.Name) and recv.func.id == "super"):
                for a in node.args:
                    self.expr(a)
                for k in node.keywords:
                    self.expr(k.value)
                self.add("superCall", f.attr)
                return
            # typing.cast(T, x).m(...) : look through
            if not (isinstance(recv, ast.Name)):
                self.expr(recv)
        elif isinstance(f, ast.Name):
            pass
        else:
            self.expr(f)
        for a in node.args:
            self.expr(a.value if isinstance(a, ast.Starred) else a)
        for k in node.keywords:
            self.expr(k.value)

        if isinstance(f, ast.Name):
            if f.id in self.nested:
                if f.id in self.inlining:
                    raise Unknown("recursive nested function %s" % f.id)
                self.inlining.append(f.id)
                for s in self.nested[f.id].body:
                    self.stmt(s)
                self.inlining.pop()
            elif f.id in self.lib_fns:
                self.add("libFn", f.id)
            return
        if not isinstance(f, ast.Attribute):
            return
        m = f.attr
        if self.is_entry_expr(recv):
            # a method of a shared _DirEntry: mutators keep their own tag, everything else is an entry use
            if isinstance(recv, ast.Attribute) or isinstance(recv, ast.Call):
                pass  # self.root / chained call: the receiver's own accesses were recorded by expr(recv)
            if m in DIR_MUTATORS:
                self.add("dirMut", m)
            else:
                self.add("entryUse", m)
            return
        if m in DICT_OPS:
            self.add("attr", m)
            return
        if isinstance(recv, ast.Name):
            r = recv.id
            if r == "self":
                if m == "_get_dir_entry":
                    self.add("getDirEntry")
                elif m == "lock":
                    # self.lock() used as a value outside a `with`: cannot be placed
                    raise Unknown("self.lock() outside a with statement")
                else:
                    self.add("selfCall", m)
                return
            if r in OS_MODULES:
                self.add("os", r + "." + m)
                return
            if r in LIB_MODULES:
                if m in self.lib_fns:
                    self.add("libFn", m)
                return
            if r in self.file_vars:
                self.add("fileIO", m)
                return
            if m in DIR_MUTATORS:
                self.add("dirMut", m)
                return
            if m in self.fs_methods:
                self.add("delegate", m)
                return
            return
        # receiver is an expression: self.attr.m(...), call().m(...), os.path.m(...)
        if isinstance(recv, ast.Attribute) and isinstance(recv.value, ast.Name):
            base = recv.value.id
            if base in OS_MODULES:
                self.add("os", "%s.%s.%s" % (base, recv.attr, m))
                return
            if base == "self":
                if recv.attr == "root" and m in DIR_MUTATORS:
                    self.add("dirMut", m)  # the root access itself was recorded by expr(recv)
                    return
                if m in DIR_MUTATORS and recv.attr not in ("mounts", "_filesystems"):
                    self.add("dirMut", m)
                    return
                if m in self.fs_methods and recv.attr in DELEGATE_ATTRS:
                    self.add("delegate", m)
                    return
                return
        if m in DIR_MUTATORS and not isinstance(recv, (ast.Dict, ast.List)):
            self.add("dirMut", m)
            return
        if m in self.fs_methods:
            self.add("delegate", m)

    # ------------------------------------------------------------------ statements
    def body(self, stmts):
        for s in stmts:
            self.stmt(s)

    def _opens_file(self, node):
        for n in ast.walk(node):
            if isinstance(n, ast.Call) and isinstance(n.func, ast.Attribute) and n.func.attr in FILE_OPENERS:
                return True
        return False

    def stmt(self, s):
        if isinstance(s, (ast.FunctionDef, ast.AsyncFunctionDef)):
            if isinstance(s, ast.AsyncFunctionDef):
                raise Unknown("async def")
            return  # inlined at its call sites
        if isinstance(s, ast.ClassDef):
            raise Unknown("nested class")
        if isinstance(s, (ast.Global, ast.Nonlocal)):
            raise Unknown("global/nonlocal")
        if isinstance(s, (ast.AsyncFor, ast.AsyncWith)):
            raise Unknown("async statement")
        if hasattr(ast, "Match") and isinstance(s, ast.Match):
            raise Unknown("match statement")
        if isinstance(s, ast.With):
            locks = [_lock_expr(i.context_expr) for i in s.items]
            if any(l is not None for l in locks):
                if not all(l is not None for l in locks):
                    raise Unknown("with statement mixing locks and other context managers")
                if self.lock_depth == 0:
                    if self.loop_depth:
                        raise Unknown("lock taken inside a loop")
                    self.segs.append(Seg(True, locks))
                else:
                    for l in locks:
                        if l not in self.cur.locks:
                            self.cur.locks.append(l)
                self.lock_depth += 1
                self.body(s.body)
                self.lock_depth -= 1
                if self.lock_depth == 0:
                    self.segs.append(Seg(False))
                return
            opened = []
            for i in s.items:
                self.expr(i.context_expr)
                if i.optional_vars is not None and isinstance(i.optional_vars, ast.Name) and self._opens_file(i.context_expr):
                    opened.append(i.optional_vars.id)
                    self.file_vars.add(i.optional_vars.id)
                elif self._opens_file(i.context_expr):
                    opened.append(None)
            self.body(s.body)
            for _ in opened:
                self.add("fileIO", "close")
            return
        if isinstance(s, (ast.For, ast.While)):
            if isinstance(s, ast.For):
                self.expr(s.iter)
            self.loop_depth += 1
            if isinstance(s, ast.While):
                self.expr(s.test)
            self.body(s.body)
            self.loop_depth -= 1
            self.body(s.orelse)
            return
        if isinstance(s, ast.If):
            self.expr(s.test)
            self.body(s.body)
            self.body(s.orelse)
            return
        if isinstance(s, ast.Try) or (hasattr(ast, "TryStar") and isinstance(s, ast.TryStar)):
            self.body(s.body)
            for h in s.handlers:
                self.body(h.body)
            self.body(s.orelse)
            self.body(s.finalbody)
            return
        if isinstance(s, ast.Assign):
            self.expr(s.value)
            for t in s.targets:
                self.target(t)
                self.bind(t, s.value)
            return
        if isinstance(s, ast.AnnAssign):
            self.expr(s.value)
            self.target(s.target)
            if s.value is not None:
                self.bind(s.target, s.value)
            return
        if isinstance(s, ast.AugAssign):
            self.expr(s.value)
            self.target(s.target)
            return
        if isinstance(s, ast.Delete):
            for t in s.targets:
                self.target(t)
            return
        if isinstance(s, (ast.Expr, ast.Return)):
            self.expr(s.value)
            return
        if isinstance(s, ast.Raise):
            self.expr(s.exc)
            self.expr(s.cause)
            return
        if isinstance(s, ast.Assert):
            self.expr(s.test)
            return
        if isinstance(s, (ast.Pass, ast.Break, ast.Continue, ast.Import, ast.ImportFrom)):
            return
        raise Unknown("statement %s" % type(s).__name__)

    def target(self, t):
        if isinstance(t, ast.Attribute):
            if isinstance(t.value, ast.Name) and t.value.id == "self":
                if t.attr == "root":
                    self.add("root")
                elif t.attr in SELF_STATE_ATTRS:
                    self.add("attr", t.attr)
            else:
                self.expr(t.value)
                if self.is_entry_expr(t.value):
                    self.add("entryUse", t.attr)
        elif isinstance(t, (ast.Tuple, ast.List)):
            for e in t.elts:
                self.target(e)
        elif isinstance(t, ast.Subscript):
            self.expr(t.value)
            self.expr(t.slice)
        elif isinstance(t, ast.Starred):
            self.target(t.value)

    def run(self):
        self.body(self.fn.body)
        # drop empty unlocked segments
        return [s for s in self.segs if s.locked or s.acc or s.yields]


# ---------------------------------------------------------------------- collection


def _functions_of(body):
    """FunctionDefs of a class/module body, looking through `if` / `try` at that level"""
    out = []
    for n in body:
        if isinstance(n, ast.FunctionDef):
            out.append(n)
        elif isinstance(n, ast.If):
            out += _functions_of(n.body) + _functions_of(n.orelse)
        elif isinstance(n, ast.Try):
            out += _functions_of(n.body) + _functions_of(n.orelse)
            for h in n.handlers:
                out += _functions_of(h.body)
    return out


def _is_stub(fn):
    """typing-only stubs (`pass` / docstring-only bodies under TYPE_CHECKING)"""
    body = [s for s in fn.body if not (isinstance(s, ast.Expr) and isinstance(s.value, ast.Constant))]
    return all(isinstance(s, ast.Pass) for s in body)


def _base_name(b):
    if isinstance(b, ast.Subscript):
        b = b.value
    if isinstance(b, ast.Attribute):
        return b.attr
    if isinstance(b, ast.Name):
        return b.id
    return None


def collect(repo_root):
    trees = {}

    def tree(rel):
        if rel not in trees:
            with open(os.path.join(repo_root, rel), encoding="utf-8") as fh:
                trees[rel] = ast.parse(fh.read(), rel)
        return trees[rel]

    # the FS API: every method name of fs.base.FS
    fs_methods = set()
    for n in tree("fs/base.py").body:
        if isinstance(n, ast.ClassDef) and n.name == "FS":
            for f in _functions_of(n.body):
                fs_methods.add(f.name)
            for a in n.body:  # aliases `getbytes = _new_name(readbytes, ...)`
                if isinstance(a, ast.Assign):
                    for t in a.targets:
                        if isinstance(t, ast.Name):
                            fs_methods.add(t.id)
    fs_methods -= {"lock"}

    lib_fns = set()
    for rel, _m in MODULES:
        for f in _functions_of(tree(rel).body):
            lib_fns.add(f.name)
    lib_fns = frozenset(lib_fns)
    class_names = {c for _f, c in CLASSES}
    entries = []
    bases = []
    for rel, cname in CLASSES:
        cls = None
        for n in tree(rel).body:
            if isinstance(n, ast.ClassDef) and n.name == cname:
                cls = n
        if cls is None:
            entries.append((cname, "<class>", 0, ("unknown", "class %s not found in %s" % (cname, rel))))
            continue
        for b in cls.bases:
            bn = _base_name(b)
            if bn in class_names and bn != cname:
                bases.append((cname, bn))
                break
        seen = {}
        for fn in _functions_of(cls.body):
            if _is_stub(fn) and fn.name in seen:
                continue
            if _is_stub(fn) and any(
                isinstance(d, ast.Name) and d.id == "overload" or isinstance(d, ast.Attribute) and d.attr == "overload"
                for d in fn.decorator_list
            ):
                continue
            v = seen.get(fn.name, 0)
            seen[fn.name] = v + 1
            entries.append((cname, fn.name, v, analyse(fs_methods, fn, lib_fns)))
    for rel, mname in MODULES:
        seen = {}
        for fn in _functions_of(tree(rel).body):
            v = seen.get(fn.name, 0)
            seen[fn.name] = v + 1
            entries.append((mname, fn.name, v, analyse(fs_methods, fn, lib_fns)))
    return entries, bases


def analyse(fs_methods, fn, lib_fns=frozenset()):
    try:
        segs = MethodWalker(fs_methods, fn, lib_fns).run()
    except Unknown as e:
        return ("unknown", str(e))
    return ("segs", segs)


# ---------------------------------------------------------------------- Lean output


def _s(x):
    assert '"' not in x and "\\" not in x and "\n" not in x, x
    return '"%s"' % x


def _acc(a):
    kind, name = a
    if kind in ("root", "getDirEntry"):
        return "." + kind
    return ".%s %s" % (kind, _s(name))


def _b(x):
    return "true" if x else "false"


def render(entries, bases):
    out = [
        "/- GENERATED by harness/extract/locktable.py from $VERIF_REPO on every run.  Do not edit. -/",
        "import FsModel.LockTypes",
        "",
        "namespace Fs.Generated",
        "open Fs.Lock",
        "",
    ]
    # one definition per entry keeps elaboration fast and error messages local
    names = []
    for i, (cls, meth, variant, body) in enumerate(entries):
        dn = "e%d" % i
        names.append(dn)
        out.append("/-- %s.%s (definition %d) -/" % (cls, meth, variant))
        if body[0] == "unknown":
            out.append("def %s : Entry := { cls := %s, method := %s, variant := %d, body := .unknown %s }"
                       % (dn, _s(cls), _s(meth), variant, _s(body[1].replace('"', "'"))))
        else:
            segs = []
            for s in body[1]:
                segs.append(
                    "  { locked := %s, locks := [%s], yields := %s, loops := %s,\n    acc := [%s] }"
                    % (_b(s.locked), ", ".join(_s(l) for l in s.locks), _b(s.yields), _b(s.loops),
                       ", ".join(_acc(a) for a in s.acc)))
            out.append("def %s : Entry := { cls := %s, method := %s, variant := %d, body := .segs [\n%s] }"
                       % (dn, _s(cls), _s(meth), variant, ",\n".join(segs)))
        out.append("")
    out.append("def lockTable : List Entry := [%s]" % ", ".join(names))
    out.append("")
    out.append("/-- class → the base class (among the extracted classes) its missing methods come from -/")
    out.append("def lockBases : List (String × String) := [%s]" % ", ".join("(%s, %s)" % (_s(a), _s(b)) for a, b in bases))
    out.append("")
    out.append("end Fs.Generated")
    out.append("")
    return "\n".join(out)


def generate(repo_root, out_dir):
    entries, bases = collect(repo_root)
    text = render(entries, bases)
    path = os.path.join(out_dir, "LockTable.lean")
    old = None
    if os.path.exists(path):
        with open(path, encoding="utf-8") as fh:
            old = fh.read()
    if old != text:  # keep the mtime (and lake's cache) when nothing changed
        with open(path, "w", encoding="utf-8") as fh:
            fh.write(text)
    return entries, bases


def table_json(repo_root):
    """the same table as plain data, for the harness (segment-boundary correspondence)"""
    entries, bases = collect(repo_root)
    out = []
    for cls, meth, variant, body in entries:
        if body[0] == "unknown":
            out.append({"cls": cls, "method": meth, "variant": variant, "unknown": body[1]})
        else:
            out.append({"cls": cls, "method": meth, "variant": variant,
                        "segs": [{"locked": s.locked, "locks": s.locks, "yields": s.yields, "loops": s.loops,
                                  "acc": [list(a) for a in s.acc]} for s in body[1]]})
    return out, bases


if __name__ == "__main__":
    import json
    import sys

    t, b = table_json(sys.argv[1] if len(sys.argv) > 1 else os.environ.get("VERIF_REPO", "/repo"))
    for e in t:
        if "unknown" in e:
            print("%s.%s#%d UNKNOWN %s" % (e["cls"], e["method"], e["variant"], e["unknown"]))
        else:
            print("%s.%s#%d %s" % (e["cls"], e["method"], e["variant"], " | ".join(
                ("L[%s]" % ",".join(s["locks"]) if s["locked"] else "U") + ("*" if s["loops"] else "") + ("y" if s["yields"] else "")
                + ":" + ",".join(a[0] + ("=" + a[1] if a[1] else "") for a in s["acc"]) for s in e["segs"])))
    print(json.dumps(b))
