#!/usr/bin/env python3
"""Source-to-Lean translation of `class Permissions` of $VERIF_REPO/fs/permissions.py
->  lean/FsModel/Generated/PermGen.lean (namespace Fs.PermGen), with the engine of pathgen.py.

A `Permissions` object has one field, the set of permission names `self._perms`; an object IS that set
(`self : List Str`, order and multiplicity not observable, see lean/FsModel/PySet.lean).  A method that
mutates the set (`add`, `remove`, the `mode` setter) becomes a function that returns the new set, `__init__`
the function `init` from its (optional, keyword) arguments to the set, `cls(user=…, …)` a call of `init`.
Class-level constants (`_LINUX_PERMS`, `_LINUX_PERMS_NAMES`) become Lean constants.
`lean/FsProofs/PermGenEq.lean` proves the generated definitions equal to `Fs.Info.Permissions.*`.

Not translated (listed in the generated file): `__repr__` (nested def, presentation), `__iter__` (iteration
order of a set), `__eq__`/`__ne__`/`create`/`get_mode`/`make_mode` (dispatch on `isinstance` of an untyped
argument), `copy`, `__str__`, the `_PermProperty` descriptors.
"""
from __future__ import annotations

import ast
import json
import os
import sys

HERE = os.path.dirname(os.path.abspath(__file__))
if HERE not in sys.path:
    sys.path.insert(0, HERE)

import pathgen as PG  # noqa: E402

VERIF = os.path.dirname(os.path.dirname(HERE))
REPO = os.environ.get("VERIF_REPO", "/repo")
OUT_DIR = os.path.join(VERIF, "lean", "FsModel", "Generated")

SOURCE = "fs/permissions.py"
CLASS = "Permissions"
FIELD = "_perms"
TAG = "PermGen"
# (python name, kind, lean name); getter and setter of the `mode` property are two defs of the same name
WANTED = [("__init__", "init", "init"), ("__contains__", "method", "contains"), ("parse", "classmethod", "parse"),
          ("load", "classmethod", "load"), ("dump", "method", "dump"), ("as_str", "method", "as_str"),
          ("mode", "method", "mode"), ("mode.setter", "method", "set_mode"), ("add", "method", "add"),
          ("remove", "method", "remove"), ("check", "method", "check")]
NOT_MODELLED = {"__repr__": "presentation (nested def)", "__str__": "as_str()", "__iter__": "iteration order of a set",
                "__eq__": "isinstance dispatch", "__ne__": "not __eq__", "create": "isinstance dispatch on an untyped argument",
                "get_mode": "create(init).mode", "copy": "Permissions(names=list(self._perms))"}
CONSTS = ["_LINUX_PERMS", "_LINUX_PERMS_NAMES"]
DESCRIPTORS = ["u_r", "u_w", "u_x", "g_r", "g_w", "g_x", "o_r", "o_w", "o_x", "sticky", "setuid", "setguid"]
MODULE_OUT_OF_SCOPE = {"make_mode": "Permissions.get_mode(init)", "_PermProperty": "descriptor class (property access by name)"}


class PermModule:
    def __init__(self, repo):
        self.repo = repo
        self.refusals = []
        self.translated = []
        self.defs_text = []
        self.consts_text = []
        self.other = []

    def refuse(self, fn, node, msg):
        r = PG.Refuse(fn, node, msg)
        self.refusals.append((fn, r.where, str(r)))

    def build(self):
        try:
            with open(os.path.join(self.repo, SOURCE), encoding="utf-8") as fh:
                tree = ast.parse(fh.read(), type_comments=True)
        except (OSError, SyntaxError) as ex:
            self.refusals.append(("<module>", "-", "cannot read/parse %s: %s" % (SOURCE, ex)))
            return
        cdef = None
        for node in tree.body:
            if isinstance(node, ast.ClassDef) and node.name == CLASS:
                cdef = node
            elif isinstance(node, (ast.ClassDef, ast.FunctionDef)) and node.name not in MODULE_OUT_OF_SCOPE:
                self.refuse(node.name, node, "top-level name the translator was not told about")
        if cdef is None:
            self.refusals.append(("<module>", "-", "class %s not found in %s" % (CLASS, SOURCE)))
            return
        mod = PG.Module("permissions")
        mod.self_class, mod.self_field, mod.self_type = CLASS, FIELD, PG.STRSET
        defs = {}
        helper = PG.FnTranslator(mod, ast.parse("def _c():\n    pass").body[0], "<class constant>", self_param="classmethod")
        for node in cdef.body:
            if isinstance(node, ast.Expr) and isinstance(node.value, ast.Constant):
                continue
            if isinstance(node, ast.FunctionDef):
                decos = [ast.unparse(d) for d in node.decorator_list]
                key = node.name
                if decos == ["property"]:
                    mod.properties.add(node.name)
                elif decos == ["%s.setter" % node.name]:
                    key = node.name + ".setter"
                elif decos not in ([], ["classmethod"]):
                    self.refuse(node.name, node, "decorator %s" % decos)
                    continue
                defs[key] = (node, "classmethod" in decos)
                continue
            if isinstance(node, ast.Assign) and len(node.targets) == 1 and isinstance(node.targets[0], ast.Name):
                name = node.targets[0].id
                if name in CONSTS:
                    try:
                        env = {}
                        text, ty = helper.E(self.const_expr(node.value, mod), env)
                    except PG.Refuse as r:
                        self.refuse(name, node, r.msg)
                        continue
                    except Exception as ex:
                        self.refuse(name, node, "internal translator error %s: %s" % (type(ex).__name__, ex))
                        continue
                    mod.class_consts[name] = (PG.lean_ident(name), ty)
                    self.consts_text.append("/-- `%s.%s` (line %d) -/\ndef %s : %s :=\n  %s" % (
                        CLASS, name, node.lineno, PG.lean_ident(name), PG.lean_type(ty), text.replace("\n", "\n  ")))
                    continue
                if name in DESCRIPTORS and isinstance(node.value, ast.Call) and ast.unparse(node.value.func) == "_PermProperty":
                    continue
            self.refuse("<class>", node, "class-level statement")
        self.other = sorted(n for n in defs if n not in [w[0] for w in WANTED])
        for n in self.other:
            if n not in NOT_MODELLED:
                self.refuse(n, defs[n][0], "method of %s the translator was not told about" % CLASS)
        for py, kind, lean in WANTED:
            if py not in defs:
                self.refusals.append((py, "-", "method %s.%s not found" % (CLASS, py)))
                continue
            node, is_cm = defs[py]
            if is_cm != (kind == "classmethod"):
                self.refuse(py, node, "expected a %s" % kind)
                continue
            try:
                tr = PG.FnTranslator(mod, node, py, self_param=kind)
                info, text = tr.translate()
            except PG.Refuse as r:
                if r.func == "?":
                    r = PG.Refuse(py, r.node, r.msg)
                self.refusals.append((py, r.where, str(r)))
                continue
            except Exception as ex:
                self.refusals.append((py, "-", "method %s: internal translator error %s: %s" % (py, type(ex).__name__, ex)))
                continue
            info.lean_name = PG.lean_ident(lean)
            info.is_method = kind == "method"
            info.self_type = PG.STRSET
            if kind == "init":
                mod.ctor = info
            if py.endswith(".setter"):
                mod.methods[py] = info
            else:
                mod.methods[py] = info
            self.translated.append(py)
            self.defs_text.append("/-- `%s` `%s.%s` (line %d) -/\n%s" % (SOURCE, CLASS, py, node.lineno, PG.render_def(info, text)))

    def const_expr(self, v, mod):
        """`[_name for _name, _mask in _LINUX_PERMS]` refers to an earlier class constant by its bare name"""
        class R(ast.NodeTransformer):
            def visit_Name(s, n):
                if n.id in mod.class_consts and isinstance(n.ctx, ast.Load):
                    return ast.copy_location(ast.Attribute(value=ast.Name(id="cls", ctx=ast.Load()), attr=n.id, ctx=ast.Load()), n)
                return n
        return ast.fix_missing_locations(R().visit(v))

    def emit(self):
        L = []
        w = L.append
        w("/-")
        w("  GENERATED by harness/extract/permgen.py from $VERIF_REPO/%s (class %s) - do not edit." % (SOURCE, CLASS))
        w("  An object is its set of names: `self.%s` is the parameter `self : List Str` (FsModel/PySet.lean)." % FIELD)
        w("  FsProofs/PermGenEq.lean proves each definition equal to Fs.Info.Permissions.* (FsModel/Info.lean).")
        w("  translated (%d): %s" % (len(self.translated), ", ".join(self.translated)))
        w("  methods not translated: %s" % ", ".join("%s (%s)" % (n, NOT_MODELLED.get(n, "?")) for n in self.other))
        if self.refusals:
            w("  REFUSED:")
            for fn, where, msg in self.refusals:
                w("    %s.translate(%s): %s" % (TAG, fn, msg.replace("-/", "- /")))
        w("-/")
        w("import FsModel.PyStr")
        w("import FsModel.PySet")
        w("")
        w("set_option linter.unusedVariables false")
        w("")
        w("namespace Fs.PermGen")
        w("open Fs Fs.PyStr Fs.PySet")
        w("")
        w("def translated : List String := [%s]" % ", ".join('"%s"' % n for n in sorted(self.translated)))
        w("")
        w("def refused : List (String × String) := [%s]" % ", ".join('("%s", "%s")' % (fn, where) for fn, where, _m in self.refusals))
        w("")
        for c in self.consts_text:
            w(c)
            w("")
        for d in self.defs_text:
            w(d)
            w("")
        w("end Fs.PermGen")
        return "\n".join(L) + "\n"

    def status(self):
        return {
            "source": SOURCE, "class": CLASS, "translated": self.translated, "out_of_scope": self.other,
            "new_functions": [], "vanished_functions": [],
            "refused": [{"obligation": "%s.translate(%s)" % (TAG, fn), "function": fn, "node": where, "message": msg}
                        for fn, where, msg in self.refusals],
        }


def run(repo_root, out_dir):
    pm = PermModule(repo_root)
    pm.build()
    os.makedirs(out_dir, exist_ok=True)
    PG.write_if_changed(os.path.join(out_dir, "PermGen.lean"), pm.emit())
    PG.write_if_changed(os.path.join(out_dir, "PermGen.status.json"), json.dumps(pm.status(), indent=1, sort_keys=True) + "\n")
    return pm


def generate(repo_root, out_dir):
    run(repo_root, out_dir)
    return 0


def main():
    pm = run(REPO, OUT_DIR)
    if "-v" in sys.argv:
        print("translated:", ", ".join(pm.translated))
    for fn, where, msg in pm.refusals:
        sys.stderr.write("permgen: REFUSED %s.translate(%s): %s\n" % (TAG, fn, msg))
    return 3 if pm.refusals else 0


if __name__ == "__main__":
    sys.exit(main())
