#!/usr/bin/env python3
"""The translator part of the framework (DESIGN.md section 4.6): small AST extractors that
regenerate structural facts about the repository under test as Lean data, on every run.

    lean/FsModel/Generated/GuardTable.lean       (used by C04 and C18)

Nothing of the repository is imported or executed: the files under ``$VERIF_REPO`` (default
``/repo``) are read as text and parsed with ``ast``.  Whenever the extractor meets syntax it
does not understand it emits ``unknown`` (never a guess); the table theorems then fail and the
dynamic search takes over.

GuardTable, per class C of the list below and per public name m visible on C (resolved through
the MRO to the class that defines it):

* ``guard``: on every control-flow path of the defining body, what is the first *decisive* event
  when the filesystem is closed -
    guarded     a ``self.check()`` (directly, or through a self-call such as ``self.validatepath``
                / ``self.getinfo`` that is itself guarded *in class C* - self-calls are resolved by
                dynamic dispatch on C) comes before any data access;
    unguarded   some path reaches instance state (``self._wrap_fs``, ``self.delegate_path()``,
                ``self._delegate()``, ``self.root``, ``self._zip``, ``self._cache`` ... - every
                ``self.<attr>`` that is not on the short list of state-free attributes below) with
                no check before it;
    nodata      no path touches instance state at all;
    closedNoop  the only accesses sit under ``if not self.isclosed():`` - nothing happens after close;
    unknown     the extractor cannot tell (self escapes into a function it cannot follow,
                unsupported syntax, recursion).
  When ``self`` is handed to code outside the class (``walker.info(self, ..)``, ``copy_dir(self, ..)``)
  the extractor follows the parameter through that code (flow-insensitively, across the modules of
  the ``fs`` package) and collects the attributes used on it: none of them may be unguarded.
  try/except: a handler runs after any prefix of the body; a handler that would swallow
  FilesystemClosed (bare, Exception, FSError ...) voids the checks of the body on that path.
  Short-circuit operands, conditional expressions, lambdas, nested functions and the lazily
  evaluated parts of comprehensions never count as a check, only as possible accesses.
* for the read-only classes (WrapReadOnly, ReadZipFS, ReadTarFS) the *shape* of the defining body:
  ``raisesReadOnly`` | ``modeGuarded <chars> <mode still used afterwards?> <Mode(..) validates?>``
  | ``delegates`` | ``baseDefault`` (a default of fs/base.py: its effect is the effect of its
  self-calls) | ``abstract`` | ``other`` (touches nothing) | ``unknown``.  The characters of
  ``check_writable`` / ``Mode.writing`` are read from fs/mode.py.
* ``baseCalls``: for every function of ``class FS``: the ``self.<m>(...)`` calls (and property
  reads) of its body, and whether ``self`` escapes into some other function.
"""
from __future__ import annotations

import ast
import os
import sys

HERE = os.path.dirname(os.path.abspath(__file__))
VERIF = os.path.dirname(os.path.dirname(HERE))
REPO = os.environ.get("VERIF_REPO", "/repo")
OUT_DIR = os.path.join(VERIF, "lean", "FsModel", "Generated")

CLASSES = [
    ("FS", "fs/base.py"),
    ("WrapFS", "fs/wrapfs.py"),
    ("SubFS", "fs/subfs.py"),
    ("ClosingSubFS", "fs/subfs.py"),
    ("WrapReadOnly", "fs/wrap.py"),
    ("WrapCachedDir", "fs/wrap.py"),
    ("MountFS", "fs/mountfs.py"),
    ("MultiFS", "fs/multifs.py"),
    ("MemoryFS", "fs/memoryfs.py"),
    ("OSFS", "fs/osfs.py"),
    ("TempFS", "fs/tempfs.py"),
    ("ReadZipFS", "fs/zipfs.py"),
    ("WriteZipFS", "fs/zipfs.py"),
    ("ReadTarFS", "fs/tarfs.py"),
    ("WriteTarFS", "fs/tarfs.py"),
]
RO_CLASSES = ["WrapReadOnly", "ReadZipFS", "ReadTarFS"]

# self.<attr> that carry no stored data and no handle to it: the lock, the closed flag, static
# class-level metadata/configuration.  Everything else on ``self`` counts as a data access.
STATE_FREE_ATTRS = {"_lock", "_closed", "_meta", "__class__", "walker_class", "subfs_class", "wrap_name"}
IGNORED_BASES = {"object", "Generic", "typing.Generic"}
BROAD_EXC = {"Exception", "BaseException", "FSError", "FilesystemClosed", "OperationFailed"}

# ------------------------------------------------------------------------------------ parsing


def _read(rel):
    with open(os.path.join(REPO, rel), encoding="utf-8") as fh:
        return fh.read()


def _base_name(b):
    if isinstance(b, ast.Subscript):
        b = b.value
    if isinstance(b, ast.Name):
        return b.id
    if isinstance(b, ast.Attribute):
        return ast.unparse(b)
    return "?"


def _strip_doc(body):
    if body and isinstance(body[0], ast.Expr) and isinstance(body[0].value, ast.Constant) and isinstance(body[0].value.value, str):
        return body[1:]
    return body


def _is_type_checking(test):
    s = ast.unparse(test)
    return s in ("typing.TYPE_CHECKING", "TYPE_CHECKING")


class Member:
    __slots__ = ("name", "kind", "node", "alias_of", "decorators")

    def __init__(self, name, kind, node=None, alias_of=None, decorators=()):
        self.name, self.kind, self.node, self.alias_of, self.decorators = name, kind, node, alias_of, decorators


def class_members(cdef):
    """name -> [Member] (several when the class body defines a name under `if`/`else`)."""
    out = {}

    def add(m):
        out.setdefault(m.name, []).append(m)

    def walk(stmts):
        for st in stmts:
            if isinstance(st, (ast.FunctionDef, ast.AsyncFunctionDef)):
                decos = [ast.unparse(d) for d in st.decorator_list]
                kind = "method"
                if any(d == "property" or d.endswith(".setter") or d.endswith(".getter") for d in decos):
                    kind = "property"
                elif "classmethod" in decos or "staticmethod" in decos:
                    kind = "classmethod"
                if isinstance(st, ast.AsyncFunctionDef):
                    kind = "weird"
                add(Member(st.name, kind, st, decorators=decos))
            elif isinstance(st, ast.Assign):
                for t in st.targets:
                    if not isinstance(t, ast.Name):
                        continue
                    v = st.value
                    if (isinstance(v, ast.Call) and isinstance(v.func, ast.Name) and v.func.id == "_new_name"
                            and v.args and isinstance(v.args[0], ast.Name)):
                        add(Member(t.id, "alias", st, alias_of=v.args[0].id))
                    elif isinstance(v, (ast.Name, ast.Attribute)):
                        add(Member(t.id, "classattr", st))       # e.g. walker_class = Walker
                    elif isinstance(v, (ast.Call, ast.Lambda)):
                        add(Member(t.id, "weird", st))           # some computed callable: not understood
                    # constants / literals: plain data, not a member of the API
            elif isinstance(st, ast.If):
                if _is_type_checking(st.test):
                    walk(st.orelse)
                else:
                    walk(st.body)
                    walk(st.orelse)
            elif isinstance(st, ast.Try):
                walk(st.body)
                for h in st.handlers:
                    walk(h.body)
                walk(st.orelse)
                walk(st.finalbody)
    walk(cdef.body)
    return out


class ClassInfo:
    def __init__(self, name, rel, cdef):
        self.name, self.rel, self.cdef = name, rel, cdef
        self.bases = [b for b in (_base_name(b) for b in cdef.bases) if b not in IGNORED_BASES]
        self.members = class_members(cdef)
        self.mro = None          # list of class names, self first; None when a base is unknown


def load_classes():
    trees = {}
    infos = {}
    for name, rel in CLASSES:
        if rel not in trees:
            trees[rel] = ast.parse(_read(rel))
        cdef = next((n for n in trees[rel].body if isinstance(n, ast.ClassDef) and n.name == name), None)
        if cdef is None:
            continue
        infos[name] = ClassInfo(name, rel, cdef)
    for ci in infos.values():
        mro, cur, ok = [ci.name], ci, True
        while cur.bases:
            if len(cur.bases) != 1 or cur.bases[0] not in infos:
                ok = False
                break
            cur = infos[cur.bases[0]]
            mro.append(cur.name)
        ci.mro = mro if ok else None
    return infos


# ------------------------------------------------------------------------------------ events
# An item is one of
#   ("check", how) ("call", m) ("maycall", m) ("super", cls, m) ("attr", a) ("escape", what)
#   ("unknown", why) ("end",) ("closedskip",) ("alt", [items, items, ...])


def _is_self(n):
    return isinstance(n, ast.Name) and n.id == "self"


def _is_self_attr(n):
    return isinstance(n, ast.Attribute) and _is_self(n.value)


def _super_call(f):
    """`super(X, self).m` / `super().m` -> (X | None, m)"""
    if isinstance(f, ast.Attribute) and isinstance(f.value, ast.Call) and isinstance(f.value.func, ast.Name) \
            and f.value.func.id == "super":
        a = f.value.args
        if not a:
            return (None, f.attr)
        if len(a) == 2 and isinstance(a[0], ast.Name) and _is_self(a[1]):
            return (a[0].id, f.attr)
    return None


def _demote(events):
    """events whose execution is not certain (short-circuit operands, lazily evaluated bodies):
    a check there guarantees nothing, an access there still counts."""
    out = []
    for e in events:
        if e[0] == "check":
            continue
        if e[0] == "call":
            out.append(("maycall", e[1]))
        elif e[0] == "super":
            out.append(("maycall-super", e[1], e[2]))
        elif e[0] in ("end", "closedskip"):
            continue
        elif e[0] == "alt":
            for br in e[1]:
                out.extend(_demote(br))
        else:
            out.append(e)
    return out


class Extract:
    def __init__(self, cls_name, fn=None, rel=None):
        self.cls = cls_name
        self.fn = fn
        self.rel = rel

    # -- expressions -----------------------------------------------------------------
    def expr(self, n):
        if n is None:
            return []
        if isinstance(n, ast.Call):
            return self.call(n)
        if _is_self_attr(n):
            return [("attr", n.attr)]
        if _is_self(n):
            return [("escape", "self used as a value")]
        if isinstance(n, ast.BoolOp):
            ev = self.expr(n.values[0])
            for v in n.values[1:]:
                ev += _demote(self.expr(v))
            return ev
        if isinstance(n, ast.IfExp):
            return self.expr(n.test) + _demote(self.expr(n.body)) + _demote(self.expr(n.orelse))
        if isinstance(n, ast.Compare):
            # `fs is self` / `x is not self`: identity tests do not leak self
            ev = []
            for part in [n.left] + list(n.comparators):
                if _is_self(part) and all(isinstance(o, (ast.Is, ast.IsNot, ast.Eq, ast.NotEq)) for o in n.ops):
                    continue
                ev += self.expr(part)
            return ev
        if isinstance(n, ast.Lambda):
            return _demote(self.expr(n.body))
        if isinstance(n, (ast.GeneratorExp, ast.ListComp, ast.SetComp, ast.DictComp)):
            ev = []
            for i, g in enumerate(n.generators):
                it = self.expr(g.iter)
                ev += _demote(it) if i > 0 else it      # the first iterable is evaluated at once
                for c in g.ifs:
                    ev += _demote(self.expr(c))
            if isinstance(n, ast.DictComp):
                ev += _demote(self.expr(n.key)) + _demote(self.expr(n.value))
            else:
                ev += _demote(self.expr(n.elt))
            return ev
        if isinstance(n, (ast.Await, ast.Yield, ast.YieldFrom, ast.Starred, ast.NamedExpr, ast.Constant, ast.Name,
                          ast.Attribute, ast.Subscript, ast.BinOp, ast.UnaryOp, ast.Tuple, ast.List, ast.Set,
                          ast.Dict, ast.JoinedStr, ast.FormattedValue, ast.Slice, ast.keyword)):
            ev = []
            for ch in ast.iter_child_nodes(n):
                if isinstance(ch, (ast.expr, ast.keyword)):
                    ev += self.expr(ch)
            return ev
        return [("unknown", "expression " + type(n).__name__)]

    def call(self, n):
        f = n.func
        args = list(n.args) + [k.value for k in n.keywords]
        # super(X, self).m(...)
        sc = _super_call(f)
        if sc is not None:
            ev = []
            for a in args:
                ev += self.expr(a)
            return ev + [("super", sc[0] or self.cls, sc[1])]
        # self.m(...)
        if _is_self_attr(f):
            ev = []
            for a in args:
                ev += self.expr(a)
            if f.attr == "check" and not args:
                return ev + [("check", "call")]
            if f.attr == "isclosed" and not args:
                return ev                                  # reading the closed flag
            return ev + [("call", f.attr)]
        # getattr(self, "name"[, default]) / hasattr(self, "name") / isinstance(self, X)
        if isinstance(f, ast.Name) and f.id in ("getattr", "hasattr") and args and _is_self(args[0]):
            if len(args) >= 2 and isinstance(args[1], ast.Constant) and isinstance(args[1].value, str):
                ev = [("attr", args[1].value)]
                for a in args[2:]:
                    ev += self.expr(a)
                return ev
            return [("unknown", "dynamic getattr on self")]
        if isinstance(f, ast.Name) and f.id == "isinstance" and args and _is_self(args[0]):
            ev = []
            for a in args[1:]:
                ev += self.expr(a)
            return ev
        ev = self.expr(f)
        esc = False
        for a in args:
            if _is_self(a):
                esc = True
            elif isinstance(a, ast.Starred) and _is_self(a.value):
                esc = True
            else:
                ev += self.expr(a)
        if esc:
            ev.append(("escape", "self passed to " + ast.unparse(f), n, self.fn, self.rel))
        return ev

    # -- statements ------------------------------------------------------------------
    def closed_test(self, test):
        """+1: `self.isclosed()` / `self._closed`;  -1: its negation;  0: something else"""
        neg = 1
        while isinstance(test, ast.UnaryOp) and isinstance(test.op, ast.Not):
            neg, test = -neg, test.operand
        if isinstance(test, ast.Call) and _is_self_attr(test.func) and test.func.attr == "isclosed" and not test.args:
            return neg
        if _is_self_attr(test) and test.attr == "_closed":
            return neg
        return 0

    def block(self, stmts):
        items = []
        for st in stmts:
            items += self.stmt(st)
        return items

    def stmt(self, st):
        E = self.expr
        if isinstance(st, ast.Expr):
            return E(st.value)
        if isinstance(st, ast.Assign):
            ev = E(st.value)
            for t in st.targets:
                ev += E(t)
            return ev
        if isinstance(st, ast.AugAssign):
            return E(st.value) + E(st.target)
        if isinstance(st, ast.AnnAssign):
            return E(st.value) + E(st.target)
        if isinstance(st, ast.Return):
            return E(st.value) + [("end",)]
        if isinstance(st, ast.Raise):
            exc = st.exc.func if isinstance(st.exc, ast.Call) else st.exc
            if exc is not None and ast.unparse(exc).split(".")[-1] == "FilesystemClosed":
                return [("check", "raise")]               # raising FilesystemClosed *is* the guard
            return E(st.exc) + E(st.cause) + [("end",)]
        if isinstance(st, ast.Delete):
            ev = []
            for t in st.targets:
                ev += E(t)
            return ev
        if isinstance(st, ast.Assert):
            return E(st.test) + _demote(E(st.msg))
        if isinstance(st, (ast.Pass, ast.Import, ast.ImportFrom, ast.Global, ast.Nonlocal)):
            return []
        if isinstance(st, (ast.Break, ast.Continue)):
            return [("end",)]
        if isinstance(st, ast.If):
            ct = self.closed_test(st.test)
            if ct == -1:      # if not closed: body   -> when closed only the else branch runs
                return [("closedskip",)] + self.block(st.orelse)
            if ct == 1:       # if closed: body
                return self.block(st.body)
            return E(st.test) + [("alt", [self.block(st.body), self.block(st.orelse)])]
        if isinstance(st, (ast.For, ast.AsyncFor)):
            return E(st.iter) + E(st.target) + [("alt", [self.block(st.body), []])] + self.block(st.orelse)
        if isinstance(st, ast.While):
            return E(st.test) + [("alt", [self.block(st.body), []])] + self.block(st.orelse)
        if isinstance(st, (ast.With, ast.AsyncWith)):
            ev = []
            for it in st.items:
                ev += E(it.context_expr) + E(it.optional_vars)
            return ev + self.block(st.body)
        if isinstance(st, ast.Try):
            body = self.block(st.body)
            final = self.block(st.finalbody)
            paths = [body + self.block(st.orelse) + final]
            cut = []
            for it in body:                 # the body up to its first return/raise
                if it[0] == "end":
                    break
                cut.append(it)
            for h in st.handlers:
                names = set()
                if h.type is None:
                    names.add("BaseException")
                else:
                    ts = h.type.elts if isinstance(h.type, ast.Tuple) else [h.type]
                    for t in ts:
                        names.add(ast.unparse(t).split(".")[-1])
                hb = self.block(h.body)
                broad = bool(names & BROAD_EXC)
                # the exception may come from anywhere in the body: before its first event ...
                paths.append(hb + final)
                # ... or after any prefix of it; a broad handler swallows FilesystemClosed, so
                # checks inside the body guarantee nothing on that path
                paths.append((_demote(cut) if broad else list(cut)) + hb + final)
            if st.finalbody:
                paths.append(final + [("end",)])
                paths.append(list(cut) + final + [("end",)])
            return [("alt", paths)]
        if isinstance(st, (ast.FunctionDef, ast.AsyncFunctionDef)):
            return _demote(self.block(st.body))
        if isinstance(st, ast.ClassDef):
            return [("unknown", "nested class")]
        return [("unknown", "statement " + type(st).__name__)]


def summarize(cls_name, fn, rel=None):
    return Extract(cls_name, fn, rel).block(_strip_doc(fn.body))


def flat_events(items):
    for it in items:
        if it[0] == "alt":
            for br in it[1]:
                for e in flat_events(br):
                    yield e
        else:
            yield it


# ------------------------------------------------------------------------------------ escapes
# When `self` is handed to a function outside the class (walker.info(self, ...), copy_dir(self, ...))
# the extractor follows the parameter through that function, flow-insensitively, and collects the
# attribute names used on it.  Anything it cannot follow makes the whole answer `None` (unknown).


class ModInfo:
    def __init__(self, rel):
        self.rel = rel
        self.tree = ast.parse(_read(rel))
        self.funcs = {}
        self.classes = {}
        self.imports = {}          # local name -> ("mod", rel) | ("name", rel, name)
        for n in self.tree.body:
            if isinstance(n, ast.FunctionDef):
                self.funcs[n.name] = n
            elif isinstance(n, ast.ClassDef):
                self.classes[n.name] = {m.name: m for m in n.body if isinstance(m, ast.FunctionDef)}
        for n in ast.walk(self.tree):
            if isinstance(n, ast.ImportFrom) and n.level == 1:
                for a in n.names:
                    local = a.asname or a.name
                    if n.module is None:
                        self.imports[local] = ("mod", "fs/%s.py" % a.name)
                    else:
                        self.imports[local] = ("name", "fs/%s.py" % n.module.replace(".", "/"), a.name)


class EscapeAnalysis:
    MAX_DEPTH = 8

    def __init__(self):
        self.mods = {}
        self.memo = {}

    def mod(self, rel):
        if rel not in self.mods:
            try:
                self.mods[rel] = ModInfo(rel)
            except Exception:
                self.mods[rel] = None
        return self.mods[rel]

    def resolve_name(self, rel, name):
        """a module-level function or class reachable under `name` in module `rel`"""
        m = self.mod(rel)
        if m is None:
            return None
        if name in m.funcs:
            return ("func", rel, None, name)
        if name in m.classes:
            return ("class", rel, name)
        imp = m.imports.get(name)
        if imp and imp[0] == "name":
            return self.resolve_name(imp[1], imp[2]) if os.path.exists(os.path.join(REPO, imp[1])) else None
        return None

    def resolve_callee(self, rel, cls, fn, f):
        """function node reached by the call expression `f` inside function `fn`; returns
        (rel, class-or-None, FunctionDef, implicit-self?) or None"""
        m = self.mod(rel)
        if m is None:
            return None
        # local variables bound to `Class(...)` / `mod.Class(...)` / `self.meth`
        local_cls, local_meth = {}, {}
        for n in ast.walk(fn):
            if isinstance(n, ast.Assign) and len(n.targets) == 1 and isinstance(n.targets[0], ast.Name):
                v = n.value
                if isinstance(v, ast.Call):
                    r = self._ref(rel, v.func)
                    if r and r[0] == "class":
                        local_cls[n.targets[0].id] = r
                elif _is_self_attr(v) and cls is not None:
                    local_meth[n.targets[0].id] = v.attr
        if isinstance(f, ast.Name):
            if f.id in local_meth:
                fd = m.classes.get(cls, {}).get(local_meth[f.id])
                return (rel, cls, fd, True) if fd else None
            r = self.resolve_name(rel, f.id)
            if r and r[0] == "func":
                return (r[1], None, self.mod(r[1]).funcs[r[3]], False)
            return None
        if isinstance(f, ast.Attribute) and isinstance(f.value, ast.Name):
            base = f.value.id
            if base == "self" and cls is not None:
                fd = m.classes.get(cls, {}).get(f.attr)
                return (rel, cls, fd, True) if fd else None
            if base in local_cls:
                _k, crel, cname = local_cls[base]
                fd = self.mod(crel).classes.get(cname, {}).get(f.attr)
                return (crel, cname, fd, True) if fd else None
            imp = m.imports.get(base)
            if imp and imp[0] == "mod" and os.path.exists(os.path.join(REPO, imp[1])):
                mm = self.mod(imp[1])
                if mm and f.attr in mm.funcs:
                    return (imp[1], None, mm.funcs[f.attr], False)
        return None

    def _ref(self, rel, f):
        m = self.mod(rel)
        if isinstance(f, ast.Name):
            return self.resolve_name(rel, f.id)
        if isinstance(f, ast.Attribute) and isinstance(f.value, ast.Name) and m is not None:
            imp = m.imports.get(f.value.id)
            if imp and imp[0] == "mod" and os.path.exists(os.path.join(REPO, imp[1])):
                return self.resolve_name(imp[1], f.attr)
        return None

    def param_of(self, fd, implicit_self, pos, kw):
        params = [a.arg for a in fd.args.args]
        if implicit_self:
            params = params[1:]
        if kw is not None:
            return kw if kw in params or kw in [a.arg for a in fd.args.kwonlyargs] else None
        if pos < len(params):
            return params[pos]
        return None

    def uses(self, rel, cls, fd, param, depth=0):
        """attribute names used on parameter `param` of function `fd`, or None (cannot follow)"""
        key = (rel, cls, fd.name, param)
        if key in self.memo:
            return self.memo[key]
        if depth > self.MAX_DEPTH:
            return None
        self.memo[key] = set()                  # recursion: contributes nothing new
        tainted = {param}
        changed = True
        while changed:
            changed = False
            for n in ast.walk(fd):
                if isinstance(n, ast.Assign) and isinstance(n.value, ast.Name) and n.value.id in tainted:
                    for t in n.targets:
                        if isinstance(t, ast.Name) and t.id not in tainted:
                            tainted.add(t.id)
                            changed = True
        used, accounted, ok = set(), set(), True
        for n in ast.walk(fd):
            if isinstance(n, ast.Attribute) and isinstance(n.value, ast.Name) and n.value.id in tainted:
                used.add(n.attr)
                accounted.add(id(n.value))
            elif isinstance(n, ast.Assign) and isinstance(n.value, ast.Name) and n.value.id in tainted:
                accounted.add(id(n.value))
            elif isinstance(n, ast.Compare):
                for part in [n.left] + list(n.comparators):
                    if isinstance(part, ast.Name) and part.id in tainted:
                        accounted.add(id(part))
            elif isinstance(n, ast.Call):
                hits = [(i, None, a) for i, a in enumerate(n.args) if isinstance(a, ast.Name) and a.id in tainted]
                hits += [(None, k.arg, k.value) for k in n.keywords
                         if isinstance(k.value, ast.Name) and k.value.id in tainted]
                if not hits:
                    continue
                if isinstance(n.func, ast.Name) and n.func.id == "isinstance":
                    for _i, _k, a in hits:
                        accounted.add(id(a))
                    continue
                tgt = self.resolve_callee(rel, cls, fd, n.func)
                if tgt is None or tgt[2] is None:
                    ok = False
                    break
                trel, tcls, tfd, impl = tgt
                for i, k, a in hits:
                    pn = self.param_of(tfd, impl, i, k) if (i is not None or k is not None) else None
                    if pn is None:
                        ok = False
                        break
                    sub = self.uses(trel, tcls, tfd, pn, depth + 1)
                    if sub is None:
                        ok = False
                        break
                    used |= sub
                    accounted.add(id(a))
                if not ok:
                    break
        if ok:
            for n in ast.walk(fd):
                if isinstance(n, ast.Name) and n.id in tainted and isinstance(n.ctx, ast.Load) and id(n) not in accounted:
                    ok = False
                    break
        res = used if ok else None
        self.memo[key] = res
        return res

    def at_call(self, rel, cls, fn, call):
        """names used on `self` by the code that the call `call` (inside method `fn` of class
        `cls` in module `rel`) hands it to; None = cannot follow"""
        if rel is None or fn is None:
            return None
        tgt = self.resolve_callee(rel, None, fn, call.func)
        if tgt is None or tgt[2] is None:
            return None
        trel, tcls, tfd, impl = tgt
        out = set()
        for i, a in enumerate(call.args):
            if _is_self(a):
                pn = self.param_of(tfd, impl, i, None)
                sub = self.uses(trel, tcls, tfd, pn) if pn else None
                if sub is None:
                    return None
                out |= sub
        for k in call.keywords:
            if _is_self(k.value):
                pn = self.param_of(tfd, impl, None, k.arg)
                sub = self.uses(trel, tcls, tfd, pn) if pn else None
                if sub is None:
                    return None
                out |= sub
        return out


# ------------------------------------------------------------------------------------ resolution

G, U, K, N, C = "guarded", "unguarded", "unknown", "nodata", "closedNoop"


def combine(results):
    rs = set(results)
    if U in rs:
        return U
    if K in rs:
        return K
    if G in rs:
        return G
    if C in rs:
        return C
    return N


class Resolver:
    def __init__(self, infos):
        self.infos = infos
        self.summ = {}        # (defining class, name, variant index) -> items
        self.memo = {}        # (receiver class, defining class, name) -> result
        self.active = set()
        self.esc = EscapeAnalysis()

    def lookup(self, cls, name, after=None):
        """(defining class, [Member]) for `name` on receiver class `cls` (optionally searching
        the MRO strictly after class `after`)."""
        mro = self.infos[cls].mro
        if mro is None:
            return None
        if after is not None:
            if after not in mro:
                return None
            mro = mro[mro.index(after) + 1:]
        for c in mro:
            ms = self.infos[c].members.get(name)
            if ms:
                return c, ms
        return None

    def items_of(self, dcls, m, idx):
        key = (dcls, m.name, idx)
        if key not in self.summ:
            self.summ[key] = summarize(dcls, m.node, self.infos[dcls].rel)
        return self.summ[key]

    def guard(self, cls, name, after=None):
        found = self.lookup(cls, name, after)
        if found is None:
            return None                       # not a member of the class hierarchy
        dcls, members = found
        key = (cls, dcls, name)
        if key in self.memo:
            return self.memo[key]
        if key in self.active:
            return K                          # recursion: not analysed
        self.active.add(key)
        results = []
        for idx, m in enumerate(members):
            if m.kind in ("method", "property"):
                results.append(self.res(self.items_of(dcls, m, idx), 0, cls, None))
            elif m.kind == "classmethod":
                results.append(N)             # no instance: cannot touch instance state
            elif m.kind == "classattr":
                results.append(N)
            elif m.kind == "alias":
                # _new_name(f, old): calls the function object `f` of the *defining* class
                tgt = self.infos[dcls].members.get(m.alias_of)
                if not tgt:
                    results.append(K)
                else:
                    for j, t in enumerate(tgt):
                        if t.kind == "method":
                            results.append(self.res(self.items_of(dcls, t, j), 0, cls, None))
                        else:
                            results.append(K)
            else:
                results.append(K)
        r = combine(results)
        self.active.discard(key)
        self.memo[key] = r
        return r

    def res(self, seq, i, cls, k):
        """result of executing seq[i:] and then the continuation k (a thunk or None)"""
        while i < len(seq):
            it = seq[i]
            tag = it[0]
            if tag == "alt":
                rest = (lambda s=seq, j=i + 1: self.res(s, j, cls, k))
                cache = {}

                def rest_memo(cache=cache, rest=rest):
                    if "v" not in cache:
                        cache["v"] = rest()
                    return cache["v"]
                return combine([self.res(br, 0, cls, rest_memo) for br in it[1]])
            if tag == "check":
                return G
            if tag == "end":
                return N
            if tag == "closedskip":
                r = self.res(seq, i + 1, cls, k)
                return C if r == N else r
            if tag == "unknown":
                return K
            if tag == "escape":
                names = self.esc.at_call(it[4], None, it[3], it[2]) if len(it) >= 5 else None
                if names is None:
                    return K
                # the outside code may use these members of self in any order: none may be
                # unguarded; guarded ones prove nothing about what follows here
                rs = []
                for a in sorted(names):
                    r = self.guard(cls, a)
                    rs.append(U if r is None and a not in STATE_FREE_ATTRS else (r or N))
                if U in rs:
                    return U
                if K in rs:
                    return K
                i += 1
                continue
            if tag == "attr":
                a = it[1]
                if a in STATE_FREE_ATTRS:
                    i += 1
                    continue
                found = self.lookup(cls, a)
                if found is None:
                    return U                  # instance attribute: stored data or a handle to it
                kinds = {m.kind for m in found[1]}
                if kinds <= {"property"}:
                    r = self.guard(cls, a)    # reading a property runs its getter
                    if r in (G, U, K):
                        return r
                elif kinds <= {"method", "classmethod", "classattr", "alias"}:
                    pass                      # a bound method / class attribute taken as a value
                else:
                    return K
                i += 1
                continue
            if tag in ("call", "maycall"):
                r = self.guard(cls, it[1])
                if r is None:
                    r = U if it[1] not in STATE_FREE_ATTRS else N   # calling an instance attribute
                if tag == "maycall" and r == G:
                    r = N
                if r in (G, U, K):
                    return r
                i += 1
                continue
            if tag in ("super", "maycall-super"):
                r = self.guard(cls, it[2], after=it[1])
                if r is None:
                    r = K
                if tag == "maycall-super" and r == G:
                    r = N
                if r in (G, U, K):
                    return r
                i += 1
                continue
            return K
        return k() if k is not None else N


# ------------------------------------------------------------------------------------ shapes


def mode_chars_of_writing():
    """the characters `Mode.writing` tests, and whether check_writable(mode) is Mode(mode).writing"""
    try:
        tree = ast.parse(_read("fs/mode.py"))
    except Exception:
        return None
    chars = None
    cw_ok = False
    init_validates = False
    for n in tree.body:
        if isinstance(n, ast.ClassDef) and n.name == "Mode":
            for m in n.body:
                if isinstance(m, ast.FunctionDef) and m.name == "__init__":
                    init_validates = any(isinstance(x, ast.Expr) and ast.unparse(x.value) == "self.validate()"
                                         for x in m.body)
                if isinstance(m, ast.FunctionDef) and m.name == "writing":
                    body = _strip_doc(m.body)
                    if len(body) == 1 and isinstance(body[0], ast.Return):
                        chars = _in_chars(body[0].value, "self")
        if isinstance(n, ast.FunctionDef) and n.name == "check_writable":
            body = _strip_doc(n.body)
            if len(body) == 1 and isinstance(body[0], ast.Return) and ast.unparse(body[0].value) == "Mode(mode).writing":
                cw_ok = True
    if chars is None or not cw_ok or not init_validates:
        return None          # Mode(mode) must validate, check_writable must be Mode(mode).writing
    return chars


def _in_chars(test, var):
    """`'w' in var or 'a' in var ...` -> "wa..." (None when the test has another form)"""
    parts = test.values if isinstance(test, ast.BoolOp) and isinstance(test.op, ast.Or) else [test]
    chars = ""
    for p in parts:
        if (isinstance(p, ast.Compare) and len(p.ops) == 1 and isinstance(p.ops[0], ast.In)
                and isinstance(p.left, ast.Constant) and isinstance(p.left.value, str) and len(p.left.value) == 1
                and isinstance(p.comparators[0], ast.Name) and p.comparators[0].id == var):
            chars += p.left.value
        else:
            return None
    return chars


def _raises_readonly(st):
    if not isinstance(st, ast.Raise) or st.exc is None:
        return False
    e = st.exc
    if isinstance(e, ast.Call):
        e = e.func
    return ast.unparse(e).split(".")[-1] == "ResourceReadOnly"


def shape_of(cls_name, fn, writing_chars):
    body = _strip_doc(fn.body)
    if any(d.endswith("abstractmethod") for d in [ast.unparse(x) for x in fn.decorator_list]):
        return ("abstract",)
    ex = Extract(cls_name)
    items = ex.block(body)
    flat = list(flat_events(items))
    if any(e[0] == "unknown" for e in flat):
        return ("unknown",)
    # 1. check(); raise ResourceReadOnly
    if body and _raises_readonly(body[-1]):
        pre = ex.block(body[:-1])
        if all(e[0] == "check" for e in pre) and all(isinstance(s, ast.Expr) for s in body[:-1]):
            ok_args = not any(e[0] != "end" for e in ex.stmt(body[-1]))
            if ok_args:
                return ("raisesReadOnly",)
    # 2. mode guard before anything else
    params = [a.arg for a in fn.args.args + fn.args.kwonlyargs]
    if "mode" in params:
        for i, st in enumerate(body):
            if isinstance(st, ast.If) and not st.orelse and len(st.body) == 1 and _raises_readonly(st.body[0]):
                chars = None
                t = st.test
                ts = ast.unparse(t)
                validates = False
                if ts in ("check_writable(mode)", "Mode(mode).writing"):
                    chars = writing_chars
                    validates = True          # Mode(mode) raises ValueError for an invalid mode first
                else:
                    chars = _in_chars(t, "mode")
                if chars is None:
                    break
                pre = list(flat_events(ex.block(body[:i])))
                if all(e[0] == "check" or e == ("call", "validatepath") for e in pre):
                    # is `mode` still used after the guard (handed on to another open)?
                    passes = any(isinstance(x, ast.Name) and x.id == "mode"
                                 for rest in body[i + 1:] for x in ast.walk(rest))
                    return ("modeGuarded", chars, passes, validates)
                break
    # 3. anything that reaches instance state / other methods
    if any(e[0] in ("attr", "call", "maycall", "super", "maycall-super", "escape") and
           not (e[0] == "attr" and e[1] in STATE_FREE_ATTRS) for e in flat):
        return ("delegates",)
    return ("other",)


# ------------------------------------------------------------------------------------ base call graph


def base_calls(infos):
    """for every function of class FS: (sorted self-call names, self escapes?)"""
    fs = infos["FS"]
    out = {}
    for name, ms in sorted(fs.members.items()):
        for m in ms:
            if m.kind not in ("method", "property"):
                continue
            flat = list(flat_events(summarize("FS", m.node)))
            calls = set()
            esc = False
            for e in flat:
                if e[0] in ("call", "maycall"):
                    calls.add(e[1])
                elif e[0] == "check":
                    if e[1] == "call":
                        calls.add("check")
                elif e[0] in ("super", "maycall-super"):
                    esc = True
                elif e[0] == "attr" and e[1] not in STATE_FREE_ATTRS:
                    if e[1] in fs.members:
                        calls.add(e[1])
                    else:
                        esc = True            # unknown attribute: treat like an unknown callee
                elif e[0] in ("escape", "unknown"):
                    esc = True
            prev = out.get(name)
            if prev:
                calls |= set(prev[0])
                esc = esc or prev[1]
            out[name] = (sorted(calls), esc)
    return out


# ------------------------------------------------------------------------------------ emission


def lstr(s):
    return '"' + s.replace("\\", "\\\\").replace('"', '\\"') + '"'


def llist(xs):
    return "[" + ", ".join(xs) + "]"


def public(name):
    return not name.startswith("_")


def build():
    infos = load_classes()
    res = Resolver(infos)
    wchars = mode_chars_of_writing()
    missing = [n for n, _ in CLASSES if n not in infos]

    # public names per class through the MRO
    pub = {}
    for cname, ci in infos.items():
        if ci.mro is None:
            pub[cname] = None
            continue
        names = set()
        for c in ci.mro:
            for n, ms in infos[c].members.items():
                if public(n):
                    names.add(n)
        pub[cname] = sorted(names)

    # abstract methods still unresolved -> the class is not concrete
    concrete = []
    for cname, ci in infos.items():
        if ci.mro is None:
            continue
        abstract_left = False
        for n in pub[cname]:
            d, ms = res.lookup(cname, n)
            if any(m.kind == "method" and any(x.endswith("abstractmethod") for x in m.decorators) for m in ms):
                abstract_left = True
        if not abstract_left:
            concrete.append(cname)

    guard_rows = []
    for cname, _rel in CLASSES:
        if cname not in infos or pub[cname] is None:
            continue
        for n in pub[cname]:
            d, ms = res.lookup(cname, n)
            g = res.guard(cname, n)
            guard_rows.append((cname, n, d, g, "+".join(sorted({m.kind for m in ms}))))

    shape_rows = []
    for cname in RO_CLASSES:
        if cname not in infos or pub[cname] is None:
            continue
        for n in pub[cname]:
            d, ms = res.lookup(cname, n)
            shapes = set()
            for m in ms:
                if m.kind == "alias":
                    shapes.add(("baseDefault",) if d == "FS" else ("unknown",))
                elif m.kind in ("classattr", "classmethod"):
                    shapes.add(("other",))
                elif m.kind in ("method", "property"):
                    s = shape_of(d, m.node, wchars)
                    if d == "FS" and s[0] not in ("abstract", "unknown"):
                        s = ("baseDefault",)
                    elif s[0] == "modeGuarded" and s[1] is None:
                        s = ("unknown",)
                    shapes.add(s)
                else:
                    shapes.add(("unknown",))
            s = shapes.pop() if len(shapes) == 1 else ("unknown",)
            shape_rows.append((cname, n, d, s))

    calls = base_calls(infos)
    # aliases of FS: the alias executes the FS-level function it wraps
    aliases = []
    for n, ms in sorted(infos["FS"].members.items()):
        for m in ms:
            if m.kind == "alias":
                aliases.append((n, m.alias_of))
                if m.alias_of in calls:
                    calls[n] = calls[m.alias_of]
    return {
        "infos": infos, "pub": pub, "concrete": concrete, "guard_rows": guard_rows, "shape_rows": shape_rows,
        "calls": calls, "aliases": aliases, "wchars": wchars, "missing": missing,
    }


def shape_lean(s):
    if s[0] == "modeGuarded":
        return "(.modeGuarded %s %s %s)" % (llist(["'%s'" % c for c in s[1]]), "true" if s[2] else "false",
                                            "true" if s[3] else "false")
    return "." + s[0]


def emit(t):
    L = []
    w = L.append
    w("/-")
    w("  GENERATED by harness/extract/guardtable.py from the sources under $VERIF_REPO - do not edit.")
    w("  Regenerated before every `lake build`; see the docstring of the generator for the meaning of")
    w("  each table.")
    w("-/")
    w("import FsModel.GuardTypes")
    w("")
    w("namespace Fs.Generated")
    w("open Fs.Guard")
    w("")
    w("/-- classes of the list that could not be found / whose base classes are not understood -/")
    bad = list(t["missing"]) + [c for c, p in t["pub"].items() if p is None]
    w("def notUnderstood : List String := " + llist([lstr(x) for x in bad]))
    w("")
    w("/-- characters tested by `Mode.writing` (fs/mode.py); `check_writable(mode) = Mode(mode).writing` -/")
    wc = t["wchars"]
    w("def writingChars : Option (List Char) := " + ("none" if wc is None else "some " + llist(["'%s'" % c for c in wc])))
    w("")
    w("def mro : List (String × List String) := [")
    rows = []
    for cname, _ in CLASSES:
        ci = t["infos"].get(cname)
        if ci is not None and ci.mro is not None:
            rows.append("  (%s, %s)" % (lstr(cname), llist([lstr(x) for x in ci.mro])))
    w(",\n".join(rows) + "]")
    w("")
    w("/-- classes without an abstract method left -/")
    order = [c for c, _ in CLASSES]
    w("def concreteClasses : List String := " + llist([lstr(c) for c in order if c in t["concrete"]]))
    w("")
    w("def roClasses : List String := " + llist([lstr(c) for c in RO_CLASSES]))
    w("")
    w("/-- every public name that occurs on some class of the list -/")
    w("def publicNames : List String := " + llist([lstr(n) for n in sorted({r[1] for r in t["guard_rows"]})]))
    w("")
    w("/-- per class: (public name, defining class, guard) -/")
    w("def guardTable : List (String × List (String × String × GuardV)) := [")
    blocks = []
    for cname, _ in CLASSES:
        rows = [r for r in t["guard_rows"] if r[0] == cname]
        if not rows:
            continue
        blocks.append("  (%s, [\n%s])" % (lstr(cname), ",\n".join(
            "    (%s, %s, .%s)" % (lstr(n), lstr(d), g) for _c, n, d, g, _k in rows)))
    w(",\n".join(blocks) + "]")
    w("")
    w("/-- per read-only class: (public name, defining class, shape of the defining body) -/")
    w("def shapeTable : List (String × List (String × String × Shape)) := [")
    blocks = []
    for cname in RO_CLASSES:
        rows = [r for r in t["shape_rows"] if r[0] == cname]
        if not rows:
            continue
        blocks.append("  (%s, [\n%s])" % (lstr(cname), ",\n".join(
            "    (%s, %s, %s)" % (lstr(n), lstr(d), shape_lean(sh)) for _c, n, d, sh in rows)))
    w(",\n".join(blocks) + "]")
    w("")
    w("/-- (function of class FS, its self-calls, does `self` escape into another function) -/")
    w("def baseCalls : List (String × List String × Bool) := [")
    w(",\n".join("  (%s, %s, %s)" % (lstr(n), llist([lstr(x) for x in cs]), "true" if e else "false")
                 for n, (cs, e) in sorted(t["calls"].items())) + "]")
    w("")
    w("/-- deprecated aliases of FS: `alias = _new_name(target, ...)` -/")
    w("def aliases : List (String × String) := " + llist(["(%s, %s)" % (lstr(a), lstr(b)) for a, b in t["aliases"]]))
    w("")
    w("end Fs.Generated")
    return "\n".join(L) + "\n"


def generate(repo_root, out_dir):
    """entry point used by harness/extract/generate.py (the dispatcher)"""
    global REPO, OUT_DIR
    REPO, OUT_DIR = repo_root, out_dir
    return main()


def main():
    t = build()
    text = emit(t)
    os.makedirs(OUT_DIR, exist_ok=True)
    path = os.path.join(OUT_DIR, "GuardTable.lean")
    old = None
    if os.path.exists(path):
        with open(path, encoding="utf-8") as fh:
            old = fh.read()
    if old != text:                       # keep the mtime when nothing changed (no needless rebuild)
        with open(path, "w", encoding="utf-8") as fh:
            fh.write(text)
    if "-v" in sys.argv:
        for c, n, d, g, k in t["guard_rows"]:
            if g not in (G,):
                print("%-14s %-16s def=%-14s %-10s %s" % (c, n, d, g, k))
    return 0


if __name__ == "__main__":
    sys.exit(main())
