"""./check Cxx [--tier quick|thorough] [--replay FILE]

exit 0: property held on everything explored (KNOWN-FINDING lines may be printed)
exit 1: VIOLATION line(s) printed
exit 2: infrastructure failure / timeout (not a verdict)
"""
from __future__ import annotations

import argparse
import importlib
import json
import os
import sys
import traceback

sys.path.insert(0, os.path.dirname(os.path.abspath(__file__)))
import vlib  # noqa: E402


def main():
    ap = argparse.ArgumentParser()
    ap.add_argument("prop")
    ap.add_argument("--tier", default=os.environ.get("VERIF_TIER", "quick"), choices=["quick", "thorough"])
    ap.add_argument("--replay", default=None)
    ap.add_argument("--no-build", action="store_true", help="skip lake build/audit (development only)")
    args = ap.parse_args()
    prop = args.prop.upper()
    seed = int(os.environ.get("VERIF_SEED", "0"))
    os.environ.setdefault("TZ", "UTC")
    # exceptions raised inside __del__ of filesystem objects under test (e.g. a write-mode archive
    # finalised at garbage collection) are not part of any verdict: keep them out of the output
    sys.unraisablehook = lambda *a: None
    try:
        mod = importlib.import_module("props.%s" % prop.lower())
    except ImportError:
        traceback.print_exc()
        print("no check for property %s" % prop)
        return 2
    rep = vlib.Report(prop, args.tier, seed)
    try:
        vlib.repo_on_path()
        if args.replay:
            case = json.load(open(args.replay))
            return mod.replay(rep, case)
        proof = None
        if not args.no_build:
            proof = vlib.ensure_built(prop, extra_modules=getattr(mod, "EXTRA_PROOF_MODULES", ()))
            if args.tier == "thorough" and proof.ok:
                # the toolchain's independent re-checker replays the compiled declarations through the kernel
                lcm = list(getattr(mod, "LEANCHECKER_MODULES", ())) or (["FsProofs.%s" % prop] + list(getattr(mod, "EXTRA_PROOF_MODULES", ())))
                with vlib.BuildLock():
                    rc, out = vlib._run(["lake", "env", "leanchecker"] + lcm, cwd=vlib.LEAN)
                rep.extra["leanchecker"] = {"rc": rc, "modules": lcm, "tail": out[-300:]}
                if rc != 0:
                    proof.bad.append(("leanchecker", out[-400:]))
        deep = proof is not None and not proof.ok
        mod.run(rep, args.tier, seed, deep=deep)
        rep.flush_deferred()
        if proof is not None and not proof.ok and not any(v["found_input"] for v in rep.violations):
            why = []
            if not proof.built:
                why.append("lake build failed: " + proof.build_log[-1500:])
            why += ["%s: %s" % b for b in proof.bad]
            why += ["forbidden token: " + h for h in proof.forbidden]
            rep.violation(
                {"broken_proof_obligations": why, "theorems": proof.theorems},
                "proof obligations of %s no longer check and no failing input was found: %s" % (prop, "; ".join(why)[:400]),
                found_input=False,
            )
        rc = rep.finish(proof)
        print(
            "%s %s seed=%d: obligations=%s discharged=%s programs=%d evaluations=%d distinct=%d violations=%d known=%d wall=%.1fs"
            % (
                prop,
                args.tier,
                seed,
                proof.obligations if proof else "-",
                proof.discharged if proof else "-",
                rep.programs,
                rep.evaluations,
                len(rep.distinct),
                len(rep.violations),
                len(set(rep.known_hits)),
                __import__("time").time() - rep.t0,
            )
        )
        return rc
    except vlib.Infra as e:
        print("INFRA: %s" % e)
        return 2
    except Exception:
        traceback.print_exc()
        return 2


if __name__ == "__main__":
    sys.exit(main())
