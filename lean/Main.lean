/-
  Line-protocol driver over the executable model.  One request per line:
  `<cmd> <arg>...` (strings hex-encoded UTF-8, `-` = empty); one reply per line.
-/
import FsModel.PathDriver
import FsModel.RefDriver
import FsModel.FileDriver
import FsModel.CopyDriver
import FsModel.ArchiveDriver
import FsModel.RouteDriver
import FsModel.FaultDriver
import FsModel.GuardDriver
import FsModel.ParseDriver
import FsModel.WalkDriver
import FsModel.ConfineDriver
import FsModel.BulkDriver
import FsModel.GlobDriver
import FsModel.ConcDriver
import FsModel.InfoDriver
import FsModel.OsDriver
import FsModel.WrapDriver2
import FsModel.TextDriver
import FsModel.HandlesDriver
import FsModel.MultiFsDriver
import FsModel.FtpDriver
import FsModel.MountFsDriver
import FsModel.ErrorsDriver
import FsModel.BaseWalkDriver

open Fs

def handlers : List (String → List String → Option String) :=
  [ PathDriver.handle, RefDriver.handle, FileDriver.handle, CopyDriver.handle, ArchiveDriver.handle, RouteDriver.handle, FaultDriver.handle, GuardDriver.handle, ParseDriver.handle, WalkDriver.handle, ConfineDriver.handle, BulkDriver.handle, GlobDriver.handle, ConcDriver.handle, InfoDriver.handle, OsDriver.handle, WrapDriver2.handle, TextDriver.handle, HandlesDriver.handle, MultiFsDriver.handle, FtpDriver.handle, MountFsDriver.handle, ErrorsDriver.handle, BaseWalkDriver.handle ]

def dispatch (line : String) : String :=
  match (line.trimAscii.toString.splitOn " ").filter (· ≠ "") with
  | [] => "bad-op"
  | cmd :: args =>
    let rec go : List (String → List String → Option String) → String
      | [] => "bad-op"
      | h :: hs => match h cmd args with
        | some r => r
        | none => go hs
    go handlers

partial def loop (h : IO.FS.Stream) (out : IO.FS.Stream) : IO Unit := do
  let line ← h.getLine
  if line.isEmpty then return ()
  out.putStrLn (dispatch line)
  if line.trimAscii.toString == "flush" then out.flush
  loop h out

def main : IO Unit := do
  let out ← IO.getStdout
  loop (← IO.getStdin) out
  out.flush
