/-
  FsModel.RouteSpec — the documented routing rules of MountFS / MultiFS, stated independently of
  the transcribed code (component lists instead of string prefixes; classification of member
  calls), against which `FsProofs/C17.lean` proves `FsModel.Mount` / `FsModel.Multi`.
-/
import FsModel.PathSpec
import FsModel.Mount
import FsModel.Multi

namespace Fs.RouteSpec
open Fs Fs.Path Fs.Ref Fs.Route

/-- The documented MountFS rule on component lists: the first mount point (in mount order)
whose components are a prefix of the path's components, with the remaining components. -/
def routeSpec : List (List Str × Nat) → List Str → Option (Nat × List Str)
  | [], _ => none
  | (ms, i) :: rest, cs => if ms.isPrefixOf cs then some (i, cs.drop ms.length) else routeSpec rest cs

/-- the absolute path with the given components -/
def absOf (cs : List Str) : Str := '/' :: joinSlash cs

/-- the mount table `MountFS.mount` stores for mount points given by their components -/
def tableOf (t : List (List Str × Nat)) : Mount.Table :=
  t.map fun e => (Mount.mountKey (absOf e.1), e.2)

/-- which member `_delegate` picks for a path (none: the path cannot be normalised) -/
def routeMember (t : Mount.Table) (p : Str) : Option Nat :=
  match Mount.delegate t p with
  | .ok (i, _) => some i
  | .err _ => none

/-- the paths the inherited `FS.makedirs(p)` hands to the methods of the composite: `p` itself and
every prefix produced by `recursepath(abspath(p))` (also in `abspath` form) -/
def makedirsPaths (p : Str) : List Str :=
  p :: (match recursepath (abspath p) true with
        | .ok l => l ++ l.map abspath
        | .err _ => [])

/-- member calls that only read — `openbin` in a mode without `w`, `a`, `+`, `x` included —:
they cannot change the member (proved in C17, `query_changes_nothing`) -/
def isQuery : Ref.Op → Bool
  | .exists_ _ | .isdir _ | .isfile _ | .listdir _ | .getsize _ | .gettype _ | .isempty _
  | .getinfo _ | .readbytes _ => true
  | .openbin _ m => !(m.contains 'w' || m.contains 'a' || m.contains '+' || m.contains 'x')
  | _ => false

/-- primitives that remove a resource (MultiFS sends them to the member containing the path) -/
def removes : Prim → Bool
  | .remove _ | .removedir _ => true
  | _ => false

/-- `a.key ≤ b.key` as a proposition: lexicographic on (priority, insertion index) -/
def KeyLe (a b : Multi.Entry) : Prop := a.prio < b.prio ∨ (a.prio = b.prio ∧ a.idx ≤ b.idx)

/-- member `e` of a MultiFS contains the path: its `exists(p)` answers `True` -/
def Holds (f : Fss) (p : Str) (e : Multi.Entry) : Prop :=
  (Ref.step (f e.fs) (.exists_ p)).2 = .ok (.bool true)

/-- what member `e` contributes to a union listing of `p` -/
def listingOf (f : Fss) (p : Str) (e : Multi.Entry) : List Name :=
  match (Ref.step (f e.fs) (.listdir p)).2 with
  | .ok (.names l) => l
  | _ => []

/-- what member `e` answers to `listdir(p)` -/
def listAnswer (f : Fss) (p : Str) (e : Multi.Entry) : Out := (Ref.step (f e.fs) (.listdir p)).2

/-- the first member, in the given (priority) order, that contains the path: its `listdir` does
not answer `ResourceNotFound` -/
def firstHolder (f : Fss) (p : Str) : List Multi.Entry → Option Multi.Entry
  | [] => none
  | e :: es => if listAnswer f p e = .err .ResourceNotFound then firstHolder f p es else some e

end Fs.RouteSpec
