/-
  Driver commands for the C04 / C18 models (class and method names are plain identifiers):

  guard.classes                                   -> L<cls>,<cls>,…  (concrete classes of the guard table)
  guard.names <cls>                               -> <name>,<name>,…
  guard.row <cls> <method>                        -> guard=<g> def=<cls> shape=<s> kind=<k> safe=<0|1> must=<0|1>
  ro.step <cls> <wclosed> <iclosed> <tree> <op…>  -> <out> | <tree'> | <wclosed'> | <iclosed'> | mut=<0|1>
  wrap.step <cls> <wclosed> <iclosed> <tree> <op…>-> same, for a plain delegating wrapper
  arch.run <flags>                                -> closed=<b> temp=<b> writes=<n> attempts=<n> outs=<o,o,…>
      flags: one character per close() call, `1` = the archive writer raises during that call
  temp.close <autoClean 0|1>                      -> closed=<b> dir=<b>
  comp.close <autoClose 0|1> <n members>          -> closed=<b> members=<b,b,…>
  sub.close <closing 0|1>                         -> closed=<b> parent=<b>
-/
import FsModel.Guard
import FsModel.RefDriver
import FsModel.Proto

namespace Fs.GuardDriver
open Fs Fs.Ref Fs.Guard Fs.Generated Fs.Proto

def kindName (m : String) : String :=
  match kindOf m with
  | some k => k.name
  | none => "none"

def stepReply (r : RO.State × Out) (op : Op) : String :=
  res RefDriver.valStr r.2 ++ " | " ++ RefDriver.dumpTree r.1.inner.root ++ " | " ++ boolStr r.1.closed ++
    " | " ++ boolStr r.1.inner.closed ++ " | mut=" ++ boolStr (refMutating op)

def parseState (args : List String) : Option (String × RO.State × Op) := do
  let cls ← args[0]?
  let wc ← args[1]?
  let ic ← args[2]?
  let t ← RefDriver.loadTree (← args[3]?)
  let op ← RefDriver.parseOp (args.drop 4)
  pure (cls, { inner := { root := t, closed := ic == "1" }, closed := wc == "1" }, op)

def handle (cmd : String) (args : List String) : Option String :=
  match cmd with
  | "guard.classes" => some (",".intercalate concreteClasses)
  | "guard.names" => do
    let cls ← args[0]?
    some (",".intercalate (publicOf cls))
  | "guard.row" => do
    let cls ← args[0]?
    let m ← args[1]?
    some ("guard=" ++ (guardOf cls m).name ++ " def=" ++ definedIn cls m ++ " shape=" ++ (shapeOf cls m).name ++
      " kind=" ++ kindName m ++ " safe=" ++ boolStr (Safe cls m) ++
      " must=" ++ boolStr (!(kindOf m == some .helper)))
  | "ro.step" => do
    let (cls, st, op) ← parseState args
    some (stepReply (RO.step cls st op) op)
  | "wrap.step" => do
    let (cls, st, op) ← parseState args
    some (stepReply (Wrap.step cls st op) op)
  | "arch.run" => do
    let f ← args[0]?
    let flags := if f == "-" then [] else f.toList.map (· == '1')
    let r := Finalise.Arch.run Finalise.Arch.init flags
    some ("closed=" ++ boolStr r.1.closed ++ " temp=" ++ boolStr r.1.tempClosed ++ " writes=" ++ toString r.1.writes ++
      " attempts=" ++ toString r.1.attempts ++ " outs=" ++ ",".intercalate (r.2.map Finalise.CloseOut.name))
  | "temp.close" => do
    let a ← args[0]?
    let s : Finalise.Temp := { closed := false, cleaned := false, dirExists := true, autoClean := a == "1" }
    let r := s.close.close
    some ("closed=" ++ boolStr r.closed ++ " dir=" ++ boolStr r.dirExists)
  | "comp.close" => do
    let a ← args[0]?
    let n ← (← args[1]?).toNat?
    let s : Finalise.Comp := { closed := false, autoClose := a == "1", members := List.replicate n false }
    let r := s.close
    some ("closed=" ++ boolStr r.closed ++ " members=" ++ ",".intercalate (r.members.map boolStr))
  | "sub.close" => do
    let a ← args[0]?
    let s : Finalise.Sub := { closed := false, parentClosed := false, closing := a == "1" }
    let r := s.close
    some ("closed=" ++ boolStr r.closed ++ " parent=" ++ boolStr r.parentClosed)
  | _ => none

end Fs.GuardDriver
