/-
  FsModel.Confine — the path-confinement mechanisms of pyfilesystem2, transcribed as written:

  * `FS.validatepath`            (fs/base.py)    check → invalid chars → max sys path length → abspath ∘ normpath
  * `OSFS._to_sys_path` / `OSFS.getsyspath` (fs/osfs.py, POSIX: `os.sep = "/"`, `posixpath.join`)
  * `SubFS.__init__` / `SubFS.delegate_path` (fs/subfs.py), nested SubFS by composition
  * `MountFS.mount` / `MountFS._delegate`    (fs/mountfs.py)
  * `ReadTarFS._directory_entries`           (fs/tarfs.py)
  * `ReadZipFS._directory` / `_path_to_zip_name` (fs/zipfs.py) over the small part of
    `MemoryFS.makedirs/create` it uses

  Everything is over `Str = List Char`; no Mathlib import (the driver links this module).
-/
import FsModel.Path
import FsModel.PathSpec

namespace Fs.Confine
open Fs Fs.Path

/-! ### FS.validatepath -/

/-- the exceptions `validatepath` can raise (`InvalidPath` is not in the shared `Err` enum) -/
inductive VErr where
  | FilesystemClosed | InvalidCharsInPath | InvalidPath | IllegalBackReference
  deriving DecidableEq, Repr

def VErr.name : VErr → String
  | .FilesystemClosed => "FilesystemClosed" | .InvalidCharsInPath => "InvalidCharsInPath"
  | .InvalidPath => "InvalidPath" | .IllegalBackReference => "IllegalBackReference"

instance : DecidableEq (Except VErr Str) := fun a b =>
  match a, b with
  | .ok x, .ok y => if h : x = y then isTrue (by rw [h]) else isFalse (by intro h'; cases h'; exact h rfl)
  | .error x, .error y =>
    if h : x = y then isTrue (by rw [h]) else isFalse (by intro h'; cases h'; exact h rfl)
  | .ok _, .error _ => isFalse (by intro h; cases h)
  | .error _, .ok _ => isFalse (by intro h; cases h)

/-- what `validatepath` reads from the filesystem object -/
structure Cfg where
  /-- `self.isclosed()` -/
  closed : Bool := false
  /-- `getmeta()["invalid_path_chars"]` (OSFS on POSIX, FTPFS: `"\0"`; MemoryFS: none) -/
  invalid : List Char := ['\x00']
  /-- `getmeta().get("max_sys_path_length", -1)`; `none` = -1 -/
  maxSys : Option Nat := none
  /-- the OSFS root as a string (only used for the length test) -/
  root : Str := []

/-- `posixpath.join(a, b)` for two arguments -/
def osJoin (a b : Str) : Str :=
  if startsWithSlash b then b
  else if a == [] || endsWithSlash a then a ++ b
  else a ++ '/' :: b

/-- `OSFS._to_sys_path(path)` on POSIX:
`os.path.join(self._root_path, path.lstrip("/").replace("/", os.sep))` — as a string. -/
def sysPathStr (root : Str) (p : Str) : Str := osJoin root (lstripSlash p)

/-- `OSFS.getsyspath(path)` (public; normalises by itself since the fix of commit 082454e):
`_path = relpath(normpath(path)); os.path.join(self._root_path, _path.replace("/", os.sep))` -/
def getsyspath (root : Str) (p : Str) : Res Str := do
  let n ← normpath p
  pure (osJoin root (relpath n))

/-- the `max_sys_path_length` test of `validatepath`: `len(self.getsyspath(path)) > max` -/
def tooLong (cfg : Cfg) (n : Str) : Bool :=
  match cfg.maxSys with
  | none => false
  | some m => decide ((osJoin cfg.root (relpath n)).length > m)

/-- `FS.validatepath(path)` (with the `OSFS` override, whose extra `fsencode` test can only
fail on lone surrogates, which `Str` does not contain).  The length test calls
`self.getsyspath(path)` on the raw path, which raises `IllegalBackReference` by itself. -/
def validatepath (cfg : Cfg) (p : Str) : Except VErr Str :=
  if cfg.closed then .error .FilesystemClosed                              -- self.check()
  else if p.any (fun c => cfg.invalid.contains c) then .error .InvalidCharsInPath
  else match normpath p with
    | .err _ => .error .IllegalBackReference
    | .ok n => if tooLong cfg n then .error .InvalidPath else .ok (abspath n)

/-! ### OSFS: what reaches the operating system -/

/-- the `/`-separated components the kernel sees (empty ones — doubled or trailing slashes —
are ignored by POSIX path resolution): `PathSpec.comps` -/
abbrev osComps (s : Str) : List Str := PathSpec.comps s

/-- the system path of a *validated* path as a list of OS path components -/
def sysPath (rootComps : List Str) (q : Str) : List Str := rootComps ++ osComps q

/-! ### SubFS -/

/-- `SubFS.__init__`: `self._sub_dir = abspath(normpath(path))` -/
def subInit (path : Str) : Res Str := do
  let n ← normpath path
  pure (abspath n)

/-- `SubFS.delegate_path`: `join(self._sub_dir, relpath(normpath(path)))` -/
def subDelegate (sub : Str) (p : Str) : Res Str := do
  let n ← normpath p
  join [sub, relpath n]

/-- a chain of nested `SubFS` objects, outermost (the one the user holds) first:
`fs.opendir(s₁).opendir(s₂)…` is `[sₙ, …, s₁]`; each level hands its result to its parent. -/
def nestedDelegate : List Str → Str → Res Str
  | [], p => .ok p
  | sub :: parents, p => do
    let q ← subDelegate sub p
    nestedDelegate parents q

/-- `SubFS.delegate_path` **as coded**: the parent's `invalid_path_chars` are refused first
(`errors.InvalidCharsInPath`), before `normpath` could remove them (`"x\0/.."`) -/
def subDelegateChk (invalid : List Char) (sub : Str) (p : Str) : Res Str :=
  if p.any (fun c => invalid.contains c) then .err .InvalidCharsInPath
  else subDelegate sub p

/-- a chain of nested `SubFS` objects as coded; every level asks its own parent for the invalid
characters (MemoryFS, OSFS and a SubFS of them all answer `"\0"`) -/
def nestedDelegateChk (invalid : List Char) : List Str → Str → Res Str
  | [], p => .ok p
  | sub :: parents, p => do
    let q ← subDelegateChk invalid sub p
    nestedDelegateChk invalid parents q

/-! ### MountFS -/

/-- `MountFS.mount`: the stored mount path `forcedir(abspath(normpath(path)))` -/
def mountPoint (path : Str) : Res Str := do
  let n ← normpath path
  pure (forcedir (abspath n))

/-- first index whose mount path is a string prefix of `_path` (`for mount_path, fs in self.mounts`) -/
def findMount (path : Str) : List Str → Nat → Option (Nat × Str)
  | [], _ => none
  | m :: ms, i => if startsWith path m then some (i, m) else findMount path ms (i + 1)

/-- `MountFS._delegate` after its invalid-character test (`mountDelegateChk`): `some i` = the i-th mounted
filesystem with the mount-relative path; `none` = `self.default_fs` with the **raw** path, exactly as the code
returns it. -/
def mountDelegate (mounts : List Str) (p : Str) : Res (Option Nat × Str) := do
  let n ← normpath p
  let _path := forcedir (abspath n)
  match findMount _path mounts 0 with
  | some (i, m) => pure (some i, rstripSlash (_path.drop m.length))
  | none => pure (none, p)

/-- `MountFS._delegate` **as coded** (since /repo 48e26ed): the MountFS's own `invalid_path_chars`
(`"\0"`) are refused on the RAW path first (`errors.InvalidCharsInPath`), before `normpath` could remove
them (`"foo/x\0/../a"` used to reach the filesystem mounted at `foo` as `a`); then `mountDelegate` -/
def mountDelegateChk (invalid : List Char) (mounts : List Str) (p : Str) : Res (Option Nat × Str) :=
  if p.any (fun c => invalid.contains c) then .err .InvalidCharsInPath
  else mountDelegate mounts p

/-! ### ReadTarFS._directory_entries -/

/-- insert into an `OrderedDict` used as an ordered set of keys (a repeated key keeps its
first position) -/
def odInsert (keys : List Str) (k : Str) : List Str := if keys.contains k then keys else keys ++ [k]

/-- one member name: `strip("/")`, `normpath`; `none` when it is dropped
(IllegalBackReference, or normalises to `""`) -/
def tarKey (name : Str) : Option Str :=
  match normpath (stripSlash name) with
  | .err _ => none
  | .ok n => if n == [] then none else some n

/-- the keys of `ReadTarFS._directory_entries`, in order -/
def tarKeys (names : List Str) : List Str :=
  names.foldl (fun acc nm => match tarKey nm with | none => acc | some k => odInsert acc k) []

/-- all non-empty component prefixes of a key: the key itself and its implicit parents -/
def prefixesOf (cs : List Str) : List (List Str) :=
  (List.range cs.length).map (fun i => cs.take (i + 1))

def dedup (l : List (List Str)) : List (List Str) :=
  l.foldl (fun acc x => if acc.contains x then acc else acc ++ [x]) []

/-- every path reachable through `listdir`/`isdir`/`getinfo` of a `ReadTarFS`
(as component lists; the root `[]` is not listed) -/
def tarVisible (names : List Str) : List (List Str) :=
  dedup ((tarKeys names).flatMap (fun k => prefixesOf (osComps k)))

/-! ### ReadZipFS._directory

The directory is a `MemoryFS` filled by `makedirs(…, recreate=True)` and `create(…)`; only the
shape matters here, so it is a list of `(components, isDir)` without the root. -/

abbrev ZDir := List (List Str × Bool)

def zLookup (d : ZDir) (cs : List Str) : Option Bool :=
  if cs == [] then some true else (d.find? (fun e => e.1 == cs)).map (·.2)

/-- `validatepath` of the `MemoryFS` directory (no invalid characters) as a component list -/
def zValidate (p : Str) : Res (List Str) := iteratepath p

/-- the ancestors `makedirs` walks through, shortest first (all proper non-empty prefixes) -/
def properPrefixes (cs : List Str) : List (List Str) :=
  (List.range (cs.length - 1)).map (fun i => cs.take (i + 1))

/-- `get_intermediate_dirs` + `makedir` of each missing ancestor: an ancestor that is a file
⇒ `DirectoryExpected` -/
def zMkGo (d : ZDir) : List (List Str) → Res ZDir
  | [] => .ok d
  | pre :: rest =>
    match zLookup d pre with
    | some true => zMkGo d rest
    | some false => .err .DirectoryExpected
    | none => zMkGo (d ++ [(pre, true)]) rest

/-- `MemoryFS.makedirs(path, recreate=True)`:
`get_intermediate_dirs` (an ancestor that is a file ⇒ `DirectoryExpected`), `makedir` of each
missing ancestor, then `makedir(path)` whose `DirectoryExists` is swallowed — also when the
existing entry is a *file* — and finally `opendir(path)` (⇒ `DirectoryExpected` on a file). -/
def zMakedirs (d : ZDir) (p : Str) : Res ZDir :=
  match zValidate p with
  | .err e => .err e
  | .ok cs =>
    match zMkGo d (properPrefixes cs) with
    | .err e => .err e
    | .ok d' =>
      match zLookup d' cs with
      | some true => .ok d'
      | some false => .err .DirectoryExpected
      | none => .ok (d' ++ [(cs, true)])

/-- `MemoryFS.create(path)` (`wipe=False`): nothing when the path exists; otherwise
`openbin(path, "wb")`, which needs the parent to be an existing directory. -/
def zCreate (d : ZDir) (p : Str) : Res ZDir :=
  match zValidate p with
  | .err e => .err e
  | .ok cs =>
    match zLookup d cs with
    | some _ => .ok d
    | none =>
      match zLookup d cs.dropLast with
      | some true => .ok (d ++ [(cs, false)])
      | _ => .err .ResourceNotFound

/-- the loop body of `ReadZipFS._directory` for one member name -/
def zStep (d : ZDir) (name : Str) : Res ZDir :=
  if endsWithSlash name then zMakedirs d name
  else
    match zMakedirs d (dirname name) with
    | .err e => .err e
    | .ok d' => zCreate d' name

/-- `ReadZipFS._directory` on first access: the directory built so far and, if a member name
made the loop raise, that error (the partially filled directory stays cached by the code). -/
def zipDirectory : List Str → ZDir → ZDir × Option Err
  | [], d => (d, none)
  | nm :: rest, d =>
    match zStep d nm with
    | .ok d' => zipDirectory rest d'
    | .err e => (d, some e)

/-- `ReadZipFS._path_to_zip_name` (Python 3): the name handed to `zipfile` -/
def zipName (d : ZDir) (p : Str) : Res Str :=
  match normpath p with
  | .err e => .err e
  | .ok n =>
    let r := relpath n
    match iteratepath r with
    | .ok cs => .ok (if zLookup d cs == some true then forcedir r else r)
    | .err e => .err e

end Fs.Confine
