/-
  Driver command for the functor model of WrapFS / SubFS (FsModel.Wrap) over `Mem.step`
  (MemoryFS as coded) as the inner filesystem:

  wrapm.step <kind: wrap|sub|csub> <subpath-hex> <wclosed 0|1> <tree> <op…>
      -> <ok v|err E> | <PARENT tree'> | <wclosed'> | <iclosed'>

  `kind = sub`  : `SubFS(MemoryFS, subpath)`  (`_sub_dir = abspath(normpath(subpath))`)
  `kind = csub` : `ClosingSubFS(MemoryFS, subpath)`
  `kind = wrap` : `WrapFS(MemoryFS)` (the sub path is ignored)
  The tree is the tree of the PARENT (wrapped) MemoryFS, which is open.
  (`wrap.step` of GuardDriver is the table-driven guard model of C04/C18; this one is the
  method-by-method transcription.)
-/
import FsModel.Wrap
import FsModel.Mem
import FsModel.RefDriver
import FsModel.Proto

namespace Fs.WrapDriver2
open Fs Fs.Ref Fs.Proto

def handle (cmd : String) (args : List String) : Option String :=
  match cmd with
  | "wrapm.step" => do
    let kind ← args[0]?
    let sub ← arg args 1
    let wc ← args[2]?
    let t ← RefDriver.loadTree (← args[3]?)
    let op ← RefDriver.parseOp (args.drop 4)
    let w : Wrap.WState State := { closed := wc == "1", inner := { root := t, closed := false } }
    let r ← (match kind with
      | "wrap" => some (Wrap.step false Wrap.idDelegate Mem.step w op)
      | "sub" | "csub" =>
        (match Confine.subInit sub with
         | .ok subDir => some (Wrap.Sub.step (kind == "csub") subDir Mem.step w op)
         | .err _ => none)
      | _ => none)
    some (res RefDriver.valStr r.2 ++ " | " ++ RefDriver.dumpTree r.1.inner.root ++ " | " ++
      boolStr r.1.closed ++ " | " ++ boolStr r.1.inner.closed)
  | _ => none

end Fs.WrapDriver2
