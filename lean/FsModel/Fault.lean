/-
  FsModel.Fault — primitive-step programs of every *move* path of pyfilesystem2, executed with
  one injected failure (or a crash) at an arbitrary step.                           (property C07)

  * A **primitive step** (`Prim`) is one call on a filesystem object or on a file object it
    returned (`exists/getinfo/scandir/listdir/openbin/read/write/close/makedir/remove/removedir/
    setinfo`, the entry of a compound library call such as `upload`, `download`, `copy`,
    `makedirs`, `removetree`), `os.rename`, and the critical sections of `MemoryFS.move/movedir/
    removetree`, which run under the filesystem lock without any I/O in between (one step).
  * The **state** is two stores (`a`: the source filesystem, `b`: the destination filesystem;
    a same-filesystem move uses side `a` for both) mapping component paths to bytes, plus the
    list of directories, plus the one chunk buffer of `tools.copy_file_data`.
  * A **program** (`Prog`) is the step sequence a move performs, with the `try/except/else`,
    `try/finally` and `with` structure of the Python code.  Programs are produced by
    transcribing `FS.move`, `FS.movedir`, `FS.copy`, `FS.upload/download`, `FS.removetree`,
    `MemoryFS.move/movedir/removetree`, `OSFS.copy/removetree`, `fs.move.move_file/move_dir/
    move_fs`, `fs.copy.copy_file_internal/copy_structure/copy_dir_if/copy_modified_time`
    (`workers = 0`: `Copier.copy` is `copy_file_internal`).  Branches of the Python code that
    only *read* the state (`if not overwrite and self.exists(dst)`, the length of a loop) are
    resolved when the program is generated from the initial state: query steps do not change
    the state and a failure aborts the normal flow, so the state they see is the initial one.
  * `exec` runs a program with an optional `Fault`: step `k` raises an `FSError`
    (`OperationFailed`) or an `OSError` *instead of* executing, and the exception propagates
    through the handlers exactly as written; or the process stops there (`crash`: no handler,
    no `finally` runs).  `late := true` is the variant "the step took effect, then raised".
-/
import FsModel.Basic

namespace Fs.Fault
open Fs

abbrev Name := Str
/-- a path is its list of components (`iteratepath`); `[]` is the root -/
abbrev Path := List Name

/-! ## Stores -/

abbrev Files := List (Path × Bytes)

/-- first entry for `p` -/
def fget : Files → Path → Option Bytes
  | [], _ => none
  | (q, b) :: r, p => if q = p then some b else fget r p

def fdel (fs : Files) (p : Path) : Files := fs.filter (fun e => decide (e.1 ≠ p))

def fset (fs : Files) (p : Path) (b : Bytes) : Files := (p, b) :: fdel fs p

/-- `r` is `p` or an ancestor of `p` (`fs.path.isbase` on components) -/
def isPre (r p : Path) : Bool := r.isPrefixOf p

/-- `combine(droot, frombase(root, p))` -/
def rebase (root droot p : Path) : Path := droot ++ p.drop root.length

structure Store where
  files : Files
  dirs : List Path
  deriving DecidableEq, Repr, Inhabited

namespace Store
def isFile (st : Store) (p : Path) : Bool := (fget st.files p).isSome
def isDir (st : Store) (p : Path) : Bool := decide (p = []) || decide (p ∈ st.dirs)
def has (st : Store) (p : Path) : Bool := st.isFile p || st.isDir p
/-- some entry lies strictly below `p` -/
def hasChild (st : Store) (p : Path) : Bool :=
  st.files.any (fun e => isPre p e.1 && decide (e.1 ≠ p)) || st.dirs.any (fun d => isPre p d && decide (d ≠ p))
def parentOk (st : Store) (p : Path) : Bool := st.isDir p.dropLast
def setFile (st : Store) (p : Path) (b : Bytes) : Store := { st with files := fset st.files p b }
def delFile (st : Store) (p : Path) : Store := { st with files := fdel st.files p }
def addDir (st : Store) (p : Path) : Store := { st with dirs := p :: st.dirs }
def delDir (st : Store) (p : Path) : Store := { st with dirs := st.dirs.filter (fun d => decide (d ≠ p)) }
/-- remove everything at or below `p` (the root itself is never removed) -/
def delTree (st : Store) (p : Path) : Store :=
  { files := st.files.filter (fun e => !isPre p e.1), dirs := st.dirs.filter (fun d => !isPre p d) }
/-- re-link the subtree `p` as `q` -/
def moveTree (st : Store) (p q : Path) : Store :=
  { files := ((st.files.filter (fun e => isPre p e.1)).map (fun e => (rebase p q e.1, e.2)))
              ++ st.files.filter (fun e => !isPre p e.1),
    dirs := ((st.dirs.filter (fun d => isPre p d)).map (rebase p q)) ++ st.dirs.filter (fun d => !isPre p d) }
end Store

inductive Side where
  | a | b
  deriving DecidableEq, Repr, Inhabited

structure State where
  a : Store
  b : Store
  buf : Bytes := []
  deriving DecidableEq, Repr, Inhabited

namespace State
def get (s : State) : Side → Store
  | .a => s.a
  | .b => s.b
def put (s : State) : Side → Store → State
  | .a, st => { s with a := st }
  | .b, st => { s with b := st }
def file (s : State) (σ : Side) (p : Path) : Option Bytes := fget (s.get σ).files p
end State

/-! ## Exceptions -/

/-- what a step can raise: an `fs.errors` class, or a plain `OSError` -/
inductive Exc where
  | fs (e : Err)
  | os
  deriving DecidableEq, Repr, Inhabited

/-- the `except` clauses that occur on the move paths -/
inductive Catch where
  | fsError          -- `except FSError`           (move_file: cleanup of the destination)
  | osError          -- `except OSError`           (FS.move: rename attempt)
  | notFound         -- `except ResourceNotFound`  (tools.get_intermediate_dirs)
  | dirExists        -- `except DirectoryExists`   (FS.makedirs)
  deriving DecidableEq, Repr

def Catch.matches : Catch → Exc → Bool
  | .fsError, .fs _ => true
  | .osError, .os => true
  | .notFound, .fs .ResourceNotFound => true
  | .dirExists, .fs .DirectoryExists => true
  | _, _ => false

/-! ## Primitive steps -/

inductive Prim where
  /-- entry of a compound library call (`upload`, `download`, `copy`, `makedirs`, `removetree`,
      `move`, `movedir`, `open` …): a call on the filesystem that can fail before doing anything -/
  | call (name : String) (σ : Side) (p : Path)
  | exists_ (σ : Side) (p : Path)
  | getinfo (σ : Side) (p : Path)
  | scandir (σ : Side) (p : Path)
  | openR (σ : Side) (p : Path)
  | openW (σ : Side) (p : Path)
  /-- `read(chunk)` at offset `off` of the handle on `(σ, p)` into the buffer -/
  | read (σ : Side) (p : Path) (off len : Nat)
  /-- `write(buffer)` on the handle on `(σ, p)` (appends: the handle was opened with `w`) -/
  | write (σ : Side) (p : Path)
  | close (σ : Side) (p : Path)
  | makedir (σ : Side) (p : Path) (recreate : Bool)
  /-- `remove` (`os := true`: the `os.remove` inside `OSFS.removetree`) -/
  | remove (σ : Side) (p : Path) (os : Bool)
  | removedir (σ : Side) (p : Path) (os : Bool)
  | setinfo (σ : Side) (p : Path)
  /-- `OSFS.copy`: `shutil.copy2`, opaque -/
  | copyAtomic (σ : Side) (p q : Path)
  /-- `os.rename(src_sys_path, dst_sys_path)`; assumed atomic -/
  | rename (σ : Side) (p : Path) (τ : Side) (q : Path)
  /-- critical section of `MemoryFS.move` (checks + re-link under the lock) -/
  | relinkFile (σ : Side) (p q : Path) (overwrite : Bool)
  /-- critical section of `MemoryFS.movedir` for a destination that does not exist yet -/
  | relinkDir (σ : Side) (p q : Path) (create : Bool)
  /-- `MemoryFS.removetree` (one `remove_entry`/`clear` under the lock) -/
  | unlinkTree (σ : Side) (p : Path)
  deriving DecidableEq, Repr

namespace Prim

def name : Prim → String
  | call n _ _ => n
  | exists_ .. => "exists" | getinfo .. => "getinfo" | scandir .. => "scandir"
  | openR .. => "openbin_r" | openW .. => "openbin_w" | read .. => "read" | write .. => "write"
  | close .. => "close" | makedir .. => "makedir"
  | remove _ _ false => "remove" | remove _ _ true => "os.remove"
  | removedir _ _ false => "removedir" | removedir _ _ true => "os.rmdir"
  | setinfo .. => "setinfo" | copyAtomic .. => "shutil.copy2" | rename .. => "os.rename"
  | relinkFile .. => "mem.relink_file" | relinkDir .. => "mem.relink_dir" | unlinkTree .. => "mem.unlink_tree"

def side : Prim → Side
  | call _ σ _ | exists_ σ _ | getinfo σ _ | scandir σ _ | openR σ _ | openW σ _ | read σ _ _ _
  | write σ _ | close σ _ | makedir σ _ _ | remove σ _ _ | removedir σ _ _ | setinfo σ _
  | copyAtomic σ _ _ | rename σ _ _ _ | relinkFile σ _ _ _ | relinkDir σ _ _ _ | unlinkTree σ _ => σ

def path : Prim → Path
  | call _ _ p | exists_ _ p | getinfo _ p | scandir _ p | openR _ p | openW _ p | read _ p _ _
  | write _ p | close _ p | makedir _ p _ | remove _ p _ | removedir _ p _ | setinfo _ p
  | copyAtomic _ p _ | rename _ p _ _ | relinkFile _ p _ _ | relinkDir _ p _ _ | unlinkTree _ p => p

/-- may this step change the content found at file path `x` of side `ρ`? (syntactic) -/
def mutates (pr : Prim) (ρ : Side) (x : Path) : Bool :=
  match pr with
  | openW σ p | write σ p | remove σ p _ => decide (σ = ρ) && decide (p = x)
  | copyAtomic σ _ q => decide (σ = ρ) && decide (q = x)
  | rename σ p τ q => (decide (σ = ρ) && decide (p = x)) || (decide (τ = ρ) && decide (q = x))
  | relinkFile σ p q _ => decide (σ = ρ) && (decide (p = x) || decide (q = x))
  | relinkDir σ p q _ => decide (σ = ρ) && (isPre p x || isPre q x)
  | unlinkTree σ p => decide (σ = ρ) && isPre p x
  | _ => false

/-- steps without any effect on the state (queries, `close`, entries of compound calls) -/
def isPure : Prim → Bool
  | .call .. | .exists_ .. | .getinfo .. | .scandir .. | .openR .. | .close .. | .setinfo .. => true
  | _ => false

/-- the step as executed when it does not fail by injection: the new state, or the exception the
    real call raises in this state (without effect) -/
def step (pr : Prim) (s : State) : Except Exc State :=
  match pr with
  | call _ _ _ => .ok s
  | exists_ _ _ => .ok s
  | getinfo σ p => if (s.get σ).has p then .ok s else .error (.fs .ResourceNotFound)
  | scandir σ p =>
      if (s.get σ).isDir p then .ok s
      else if (s.get σ).isFile p then .error (.fs .DirectoryExpected) else .error (.fs .ResourceNotFound)
  | openR σ p =>
      if (s.get σ).isFile p then .ok s
      else if (s.get σ).isDir p then .error (.fs .FileExpected) else .error (.fs .ResourceNotFound)
  | openW σ p =>
      if p = [] then .error (.fs .FileExpected)
      else if !(s.get σ).parentOk p then .error (.fs .ResourceNotFound)
      else if (s.get σ).isDir p then .error (.fs .FileExpected)
      else .ok (s.put σ ((s.get σ).setFile p []))
  | read σ p off len => .ok { s with buf := (((s.file σ p).getD []).drop off).take len }
  | write σ p =>
      match s.file σ p with
      | some cur => .ok (s.put σ ((s.get σ).setFile p (cur ++ s.buf)))
      | none => .ok s            -- the handle points to an unlinked file: nothing visible changes
  | close _ _ => .ok s
  | makedir σ p recreate =>
      if p = [] then (if recreate then .ok s else .error (.fs .DirectoryExists))
      else if !(s.get σ).parentOk p then .error (.fs .ResourceNotFound)
      else if (s.get σ).isDir p then (if recreate then .ok s else .error (.fs .DirectoryExists))
      else if (s.get σ).isFile p then .error (.fs .DirectoryExists)
      else .ok (s.put σ ((s.get σ).addDir p))
  | remove σ p os =>
      if (s.get σ).isFile p then .ok (s.put σ ((s.get σ).delFile p))
      else if os then .error .os
      else if (s.get σ).isDir p then .error (.fs .FileExpected) else .error (.fs .ResourceNotFound)
  | removedir σ p os =>
      if p = [] then .error (if os then .os else .fs .RemoveRootError)
      else if (s.get σ).isDir p then
        (if (s.get σ).hasChild p then .error (if os then .os else .fs .DirectoryNotEmpty)
         else .ok (s.put σ ((s.get σ).delDir p)))
      else if os then .error .os
      else if (s.get σ).isFile p then .error (.fs .DirectoryExpected) else .error (.fs .ResourceNotFound)
  | setinfo σ p => if (s.get σ).has p then .ok s else .error (.fs .ResourceNotFound)
  | copyAtomic σ p q =>
      match s.file σ p with
      | none => .error (.fs .FileExpected)
      | some b =>
        if p = q then .error (.fs .IllegalDestination)
        else if !(s.get σ).parentOk q then .error (.fs .DirectoryExpected)
        else if (s.get σ).isDir q then .error (.fs .FileExpected)
        else .ok (s.put σ ((s.get σ).setFile q b))
  | rename σ p τ q =>
      match s.file σ p with
      | none => .error .os
      | some b =>
        if q = [] || !(s.get τ).parentOk q || (s.get τ).isDir q then .error .os
        else
          let s1 := s.put σ ((s.get σ).delFile p)
          .ok (s1.put τ ((s1.get τ).setFile q b))
  | relinkFile σ p q overwrite =>
      match s.file σ p with
      | none => .error (.fs (if (s.get σ).isDir p then .FileExpected else .ResourceNotFound))
      | some b =>
        if !(s.get σ).parentOk q then .error (.fs .ResourceNotFound)
        else if !overwrite && (s.get σ).has q then .error (.fs .DestinationExists)
        else if p = q then .ok s
        else if q = [] || (s.get σ).isDir q then .error (.fs .FileExpected)
        else .ok (s.put σ (((s.get σ).delFile p).setFile q b))
  | relinkDir σ p q create =>
      if p = [] || !(s.get σ).isDir p then
        .error (.fs (if (s.get σ).isFile p then .DirectoryExpected else .ResourceNotFound))
      else if !(s.get σ).parentOk q || (s.get σ).has q || (s.get σ).hasChild q || isPre p q then
        .error (.fs .ResourceNotFound)
      else if !create then .error (.fs .ResourceNotFound)
      else .ok (s.put σ ((s.get σ).moveTree p q))
  | unlinkTree σ p =>
      if p = [] then .ok (s.put σ ((s.get σ).delTree p))
      else if (s.get σ).isDir p then .ok (s.put σ ((s.get σ).delTree p))
      else if (s.get σ).isFile p then .error (.fs .DirectoryExpected) else .error (.fs .ResourceNotFound)

end Prim

/-! ## Programs -/

/-- the control structure of the Python code around the primitive steps.  Every `try` body that
    has an `except` clause on the move paths is a single call, so `tryCatch/tryElse` guard one
    primitive step. -/
inductive Prog where
  | skip
  | prim (p : Prim)
  /-- an explicit `raise` statement (not a fault point) -/
  | raise (x : Exc)
  | seq (a b : Prog)
  /-- `try: p  except c: handler [; raise]` — `reraise` re-raises the caught exception after
      the handler returned -/
  | tryCatch (p : Prim) (c : Catch) (handler : Prog) (reraise : Bool)
  /-- `try: p  except c: handler  else: els` — with the rest of the function after the `try`
      moved into `handler` when `els` ends in `return` -/
  | tryElse (p : Prim) (c : Catch) (handler : Prog) (els : Prog)
  /-- `try: body finally: fin`; also `with f: body` (`fin` = `f.close()`) -/
  | tryFinally (body fin : Prog)
  deriving Repr

infixr:60 " ;; " => Prog.seq

namespace Prog

/-- the primitive steps of a program, in textual order -/
def prims : Prog → List Prim
  | skip => []
  | prim p => [p]
  | raise _ => []
  | seq a b => a.prims ++ b.prims
  | tryCatch p _ h _ => p :: h.prims
  | tryElse p _ h e => p :: (h.prims ++ e.prims)
  | tryFinally b f => b.prims ++ f.prims

/-- no handler of the program swallows exception `x`: an `except` clause that matches `x`
    re-raises -/
def transparent (x : Exc) : Prog → Bool
  | .skip | .prim _ | .raise _ => true
  | .seq a b => a.transparent x && b.transparent x
  | .tryCatch _ c h rr => (!c.matches x || rr) && h.transparent x
  | .tryElse _ c h e => !c.matches x && h.transparent x && e.transparent x
  | .tryFinally b f => b.transparent x && f.transparent x

def seqs : List Prog → Prog
  | [] => skip
  | p :: ps => seq p (seqs ps)

end Prog

/-! ## Execution with one fault -/

inductive Kind where
  | fserr   -- step raises `fs.errors.OperationFailed`
  | oserr   -- step raises `OSError`
  | crash   -- the process stops before the step; no handler runs
  deriving DecidableEq, Repr

structure Fault where
  pos : Nat
  kind : Kind
  /-- `true`: the step takes effect and *then* raises (not an atomic failure) -/
  late : Bool := false
  deriving DecidableEq, Repr

def Kind.exc : Kind → Exc
  | .fserr => .fs .OperationFailed
  | .oserr => .os
  | .crash => .os

inductive Out where
  | ok
  | raised (x : Exc)
  | crashed
  deriving DecidableEq, Repr

def Out.isErr : Out → Bool
  | .raised _ => true
  | _ => false

structure Res where
  state : State
  out : Out
  /-- number of the next primitive step -/
  ctr : Nat
  /-- the fault position was reached -/
  hit : Bool
  deriving Repr

/-- one primitive step under a fault -/
def execPrim (f : Option Fault) (p : Prim) (n : Nat) (s : State) : Res :=
  match f with
  | some ⟨k, kind, late⟩ =>
    if k = n then
      match kind with
      | .crash => ⟨s, .crashed, n + 1, true⟩
      | _ =>
        if late then
          match p.step s with
          | .ok s' => ⟨s', .raised kind.exc, n + 1, true⟩
          | .error _ => ⟨s, .raised kind.exc, n + 1, true⟩
        else ⟨s, .raised kind.exc, n + 1, true⟩
    else
      match p.step s with
      | .ok s' => ⟨s', .ok, n + 1, false⟩
      | .error x => ⟨s, .raised x, n + 1, false⟩
  | none =>
    match p.step s with
    | .ok s' => ⟨s', .ok, n + 1, false⟩
    | .error x => ⟨s, .raised x, n + 1, false⟩

/-- run `prog` from step number `n` in state `s` -/
def exec (f : Option Fault) : Prog → Nat → State → Res
  | .skip, n, s => ⟨s, .ok, n, false⟩
  | .prim p, n, s => execPrim f p n s
  | .raise x, n, s => ⟨s, .raised x, n, false⟩
  | .seq a b, n, s =>
    let r := exec f a n s
    match r.out with
    | .ok => let r2 := exec f b r.ctr r.state; { r2 with hit := r.hit || r2.hit }
    | _ => r
  | .tryCatch p c h rr, n, s =>
    let r := execPrim f p n s
    match r.out with
    | .raised x =>
      if c.matches x then
        let r2 := exec f h r.ctr r.state
        match r2.out with
        | .ok => { r2 with out := if rr then .raised x else .ok, hit := r.hit || r2.hit }
        | _ => { r2 with hit := r.hit || r2.hit }
      else r
    | _ => r
  | .tryElse p c h e, n, s =>
    let r := execPrim f p n s
    match r.out with
    | .ok => let r2 := exec f e r.ctr r.state; { r2 with hit := r.hit || r2.hit }
    | .raised x =>
      if c.matches x then
        let r2 := exec f h r.ctr r.state; { r2 with hit := r.hit || r2.hit }
      else r
    | .crashed => r
  | .tryFinally b fin, n, s =>
    let r := exec f b n s
    match r.out with
    | .crashed => r
    | o =>
      let r2 := exec f fin r.ctr r.state
      match r2.out with
      | .ok => { r2 with out := o, hit := r.hit || r2.hit }
      | _ => { r2 with hit := r.hit || r2.hit }

/-- the run with step `k` failing (`FSError`/`OSError`) or the process stopping at `k` -/
def runFault (prog : Prog) (k : Nat) (kind : Kind) (s : State) : Res :=
  exec (some ⟨k, kind, false⟩) prog 0 s

/-- the same with a failure reported *after* the step took effect -/
def runFaultLate (prog : Prog) (k : Nat) (kind : Kind) (s : State) : Res :=
  exec (some ⟨k, kind, true⟩) prog 0 s

/-- the un-faulted run -/
def run (prog : Prog) (s : State) : Res := exec none prog 0 s

/-- the state when the process stops just before step `k` -/
def prefixRun (prog : Prog) (k : Nat) (s : State) : State := (runFault prog k .crash s).state

/-! ## The move programs -/

inductive Backend where
  | base   -- only the essential methods are overridden: every default of `fs/base.py` is used
  | mem    -- MemoryFS
  | os     -- OSFS
  deriving DecidableEq, Repr

/-- a move configuration -/
structure Cfg where
  /-- `src_fs is dst_fs` -/
  same : Bool := false
  srcB : Backend := .mem
  dstB : Backend := .mem
  preserve : Bool := false
  /-- `cleanup_dst_on_error` of `move_file` -/
  cleanup : Bool := true
  /-- `overwrite` of `FS.move` (move_file passes `True`) -/
  overwrite : Bool := true
  /-- `create` of `FS.movedir` -/
  create : Bool := true
  /-- `copy_modified_time(src, dst)` is (still) called *after* an atomic move (`os.rename` in
      `FS.move`, the re-link of `MemoryFS.move/movedir`), when the source no longer exists —
      the call then raises `ResourceNotFound` although the move is complete (a defect of the
      pinned tree, see findings/C07-preserve-time-after-atomic-move.md).  The harness probes the
      real code and selects the variant; every theorem holds for both. -/
  ptAfterAtomic : Bool := true
  /-- bytes per `read` minus one (so the chunk size is never 0) -/
  chunk : Nat := 1048575
  deriving DecidableEq, Repr

namespace Cfg
def srcSide (_ : Cfg) : Side := .a
def dstSide (c : Cfg) : Side := if c.same then .a else .b
def chunkSize (c : Cfg) : Nat := c.chunk + 1
/-- `preserve_time` handling after an atomic move -/
def preserveAtomic (c : Cfg) : Bool := c.preserve && c.ptAfterAtomic
def dstBackend (c : Cfg) : Backend := if c.same then c.srcB else c.dstB
/-- `move_file` attempts an `os.rename` (whose failure it handles by falling back to a copy):
    same OSFS, or two filesystems that both have system paths -/
def usesRename (c : Cfg) : Bool :=
  (c.same && decide (c.srcB = .os)) || (!c.same && decide (c.srcB = .os) && decide (c.dstB = .os))
end Cfg

/-- number of non-empty chunks of a file of `len` bytes -/
def nChunks (c len : Nat) : Nat := (len + c - 1) / c

/-- `tools.copy_file_data`: `for chunk in iter(lambda: read(c) or None, None): write(chunk)` —
    `k` more chunks from chunk index `i`, then the read that returns `b""` -/
def copyLoop (σ : Side) (p : Path) (τ : Side) (q : Path) (c : Nat) : Nat → Nat → Prog
  | i, 0 => .prim (.read σ p (i * c) c)
  | i, k + 1 => .prim (.read σ p (i * c) c) ;; .prim (.write τ q) ;; copyLoop σ p τ q c (i + 1) k

/-- `with src.openbin(p) as rf: dst.upload(q, rf)` (`FS.upload`: `with self.openbin(q, "wb") as
    wf: copy_file_data(rf, wf)`); `open` is the name of the opening call (`open` for `FS.move`) -/
def uploadCopy (σ : Side) (p : Path) (τ : Side) (q : Path) (c len : Nat) : Prog :=
  .prim (.openR σ p) ;;
  .tryFinally
    (.prim (.call "upload" τ q) ;; .prim (.openW τ q) ;;
      .tryFinally (copyLoop σ p τ q c 0 (nChunks c len)) (.prim (.close τ q)))
    (.prim (.close σ p))

/-- `with dst.openbin(q, "w") as wf: src.download(p, wf)` (`FS.download`: `with self.openbin(p)
    as rf: copy_file_data(rf, wf)`) — used when the destination has a system path -/
def downloadCopy (σ : Side) (p : Path) (τ : Side) (q : Path) (c len : Nat) : Prog :=
  .prim (.openW τ q) ;;
  .tryFinally
    (.prim (.call "download" σ p) ;; .prim (.openR σ p) ;;
      .tryFinally (copyLoop σ p τ q c 0 (nChunks c len)) (.prim (.close σ p)))
    (.prim (.close τ q))

/-- `copy.copy_modified_time` -/
def copyModTime (σ : Side) (p : Path) (τ : Side) (q : Path) : Prog :=
  .prim (.getinfo σ p) ;; .prim (.setinfo τ q)

def preservePart (pt : Bool) (σ : Side) (p : Path) (τ : Side) (q : Path) : Prog :=
  if pt then copyModTime σ p τ q else .skip

def fileLen (s : State) (σ : Side) (p : Path) : Nat := ((s.file σ p).getD []).length

/-- `FS.copy(p, q, overwrite=True)` on one filesystem (`OSFS.copy` is `shutil.copy2`) -/
def fsCopy (cfg : Cfg) (s : State) (σ : Side) (p q : Path) : Prog :=
  .prim (.call "copy" σ p) ;;
  (match cfg.srcB with
   | .os => .prim (.copyAtomic σ p q)
   | _ =>
     if p = q then .raise (.fs .IllegalDestination)
     else uploadCopy σ p σ q cfg.chunkSize (fileLen s σ p) ;; preservePart cfg.preserve σ p σ q)

/-- `copy.copy_file_internal` -/
def copyFileInternal (cfg : Cfg) (s : State) (p q : Path) : Prog :=
  if cfg.same then
    (if p = q then .raise (.fs .IllegalDestination) else fsCopy cfg s .a p q)
  else
    (match cfg.dstB with
     | .os => downloadCopy .a p .b q cfg.chunkSize (fileLen s .a p)
     | _ => uploadCopy .a p .b q cfg.chunkSize (fileLen s .a p)) ;;
    preservePart cfg.preserve .a p .b q

/-- the copy path of `FS.move`: `with self.open(p, "rb") as rf: self.upload(q, rf)`;
    `copy_modified_time`; — the final `self.remove(p)` is added by the caller -/
def fsMoveCopyPart (cfg : Cfg) (s : State) (σ : Side) (p : Path) (τ : Side) (q : Path) : Prog :=
  uploadCopy σ p τ q cfg.chunkSize (fileLen s σ p) ;; preservePart cfg.preserve σ p τ q

/-- `if not overwrite and self.exists(dst): raise DestinationExists(dst)`, then `k` -/
def owCheck (cfg : Cfg) (s : State) (τ : Side) (q : Path) (k : Prog) : Prog :=
  if cfg.overwrite then k
  else .prim (.exists_ τ q) ;; (if (s.get τ).has q then .raise (.fs .DestinationExists) else k)

/-- `FS.move` (fs/base.py).  `rename`: `getmeta()["supports_rename"]`.  `(σ, p)` and `(τ, q)` are
    on one filesystem object; the two sides differ only for the OSFS that `move_file` creates on
    the common parent of two system paths. -/
def fsMove (cfg : Cfg) (s : State) (rename : Bool) (σ : Side) (p : Path) (τ : Side) (q : Path) : Prog :=
  .prim (.call "move" σ p) ;;
  owCheck cfg s τ q
    (.prim (.getinfo σ p) ;;
     (if (s.get σ).isDir p then .raise (.fs .FileExpected)
      else if σ = τ ∧ p = q then .skip
      else
        let copyPath := fsMoveCopyPart cfg s σ p τ q ;; .prim (.remove σ p false)
        if rename then
          .tryElse (.rename σ p τ q) .osError copyPath (preservePart cfg.preserveAtomic σ p τ q)
        else copyPath))

/-- `MemoryFS.move` -/
def memMove (cfg : Cfg) (p q : Path) : Prog :=
  .prim (.call "move" .a p) ;; .prim (.relinkFile .a p q cfg.overwrite) ;;
  preservePart cfg.preserveAtomic .a p .a q

/-- `fs.move.move_file` -/
def moveFile (cfg : Cfg) (s : State) (p q : Path) : Prog :=
  if cfg.same then
    (match cfg.srcB with
     | .mem => memMove { cfg with overwrite := true } p q
     | .os => fsMove { cfg with overwrite := true } s true .a p .a q
     | .base => fsMove { cfg with overwrite := true } s false .a p .a q)
  else if cfg.srcB = .os ∧ cfg.dstB = .os then
    -- both have a system path: `OSFS(common).move(rel_src, rel_dst, overwrite=True)`
    fsMove { cfg with overwrite := true } s true .a p .b q
  else
    -- standard copy and delete
    (.prim (.call "copy_file" .a p) ;; copyFileInternal cfg s p q) ;;
    .tryCatch (.remove .a p false) .fsError
      (if cfg.cleanup then .prim (.remove .b q false) else .skip) true

/-! ### directory moves -/

/-- the entries of the subtree `root`, grouped by depth (breadth-first order of the walker) -/
def byDepth (ps : List Path) : List Path :=
  let m := ps.foldl (fun acc p => max acc p.length) 0
  (List.range (m + 1)).flatMap (fun n => ps.filter (fun p => p.length == n))

/-- directories of the subtree in walk order, the root first -/
def subDirs (st : Store) (root : Path) : List Path :=
  root :: byDepth (st.dirs.filter (fun d => isPre root d && decide (d ≠ root)))

def filesIn (st : Store) (d : Path) : List Path :=
  (st.files.filter (fun e => decide (e.1.dropLast = d) && decide (e.1 ≠ []))).map (·.1)

def dirsIn (st : Store) (d : Path) : List Path :=
  st.dirs.filter (fun x => decide (x.dropLast = d) && decide (x ≠ []))

/-- `FS.makedirs(root, recreate=True)` as `copy_structure` calls it right after
    `makedir(root, recreate=True)`: the probe of `get_intermediate_dirs` finds `root`, the
    `makedir` raises `DirectoryExists` (swallowed), `opendir` looks at it again -/
def makedirsExisting (τ : Side) (q : Path) : Prog :=
  .prim (.call "makedirs" τ q) ;;
  .tryCatch (.getinfo τ q) .notFound .skip false ;;
  .tryCatch (.makedir τ q false) .dirExists .skip false ;;
  .prim (.getinfo τ q)

/-- `copy.copy_structure`: one `scandir` per source directory, one `makedir(recreate=True)` per
    sub-directory -/
def copyStructure (cfg : Cfg) (s : State) (root droot : Path) : Prog :=
  if cfg.same ∧ isPre root droot then .raise (.fs .IllegalDestination)
  else
    makedirsExisting cfg.dstSide droot ;;
    Prog.seqs ((subDirs s.a root).map fun d =>
      .prim (.scandir .a d) ;;
      Prog.seqs ((dirsIn s.a d).map fun x => .prim (.makedir cfg.dstSide (rebase root droot x) true)))

/-- the paths of the files at or below `root` -/
def treeFiles (st : Store) (root : Path) : List Path :=
  (st.files.map (·.1)).filter (fun x => isPre root x)

/-- the file loop of `copy_dir_if("always")` with `workers = 0`: the walker scans every
    directory of the subtree and every file found is copied with `copy_file_internal`.
    (The real walker is lazy — it scans a directory, yields its files, then scans the next
    one; here all scans come first.  The difference stays inside one phase.) -/
def copyFiles (cfg : Cfg) (s : State) (root droot : Path) : Prog :=
  Prog.seqs ((subDirs s.a root).map fun d => .prim (.scandir .a d)) ;;
  Prog.seqs ((treeFiles s.a root).map fun x => copyFileInternal cfg s x (rebase root droot x))

/-- `removetree(root)` on the source -/
def removeTree (cfg : Cfg) (s : State) (root : Path) : Prog :=
  .prim (.call "removetree" .a root) ;;
  match cfg.srcB with
  | .mem => .prim (.unlinkTree .a root)
  | b =>
    let os := decide (b = .os)
    Prog.seqs ((subDirs s.a root).reverse.map fun d =>
      (if os then .skip else .prim (.scandir .a d)) ;;
      Prog.seqs ((filesIn s.a d).map fun x => .prim (.remove .a x os)) ;;
      (if d = root then .skip else .prim (.removedir .a d os))) ;;
    (if root = [] then .skip else .prim (.removedir .a root os))

/-- everything `move_dir` does before it touches the source: check, `makedir`, `copy_dir` -/
def moveDirCopyPhase (cfg : Cfg) (s : State) (root droot : Path) : Prog :=
  .prim (.getinfo .a root) ;;
  (if (s.a).isDir root then
     .prim (.makedir cfg.dstSide droot true) ;;
     copyStructure cfg s root droot ;;
     copyFiles cfg s root droot
   else .raise (.fs .DirectoryExpected))

/-- `fs.move.move_dir` (workers = 0) -/
def moveDir (cfg : Cfg) (s : State) (root droot : Path) : Prog :=
  moveDirCopyPhase cfg s root droot ;; removeTree cfg s root

/-- `fs.move.move_fs` -/
def moveFs (cfg : Cfg) (s : State) : Prog := moveDir cfg s [] []

/-- `if not create and not self.exists(dst): raise ResourceNotFound(dst)`, then `k` -/
def createCheck (cfg : Cfg) (s : State) (q : Path) (k : Prog) : Prog :=
  if cfg.create then k
  else .prim (.exists_ .a q) ;; (if (s.a).has q then k else .raise (.fs .ResourceNotFound))

/-- `FS.movedir` (fs/base.py) -/
def fsMovedir (cfg : Cfg) (s : State) (p q : Path) : Prog :=
  .prim (.call "movedir" .a p) ;;
  (if p = q then .skip
   else if isPre p q then .raise (.fs .IllegalDestination)
   else createCheck cfg s q (moveDir { cfg with same := true } s p q))

/-- `MemoryFS.movedir`: re-link when the destination does not exist, else the base class -/
def memMovedir (cfg : Cfg) (s : State) (p q : Path) : Prog :=
  .prim (.call "movedir" .a p) ;;
  (if p = q then .skip
   else if isPre p q then .raise (.fs .IllegalDestination)
   else if (s.a).isDir p ∧ (q = [] ∨ ((s.a).parentOk q ∧ (s.a).has q)) then
     fsMovedir { cfg with srcB := .mem } s p q
   else
     .prim (.relinkDir .a p q cfg.create) ;; preservePart cfg.preserveAtomic .a p .a q)

/-! ## The observables of C07 (executable; the `Prop` versions are in `FsProofs/C07.lean`) -/

/-- the files of the source subtree, with their bytes -/
def srcFiles (s : State) (root : Path) : List (Path × Bytes) :=
  (s.a.files.filter (fun e => isPre root e.1)).filter (fun e => fget s.a.files e.1 == some e.2)

def srcIntactB (s s' : State) (root : Path) : Bool :=
  (srcFiles s root).all fun e => s'.file .a e.1 == some e.2

def dstCompleteB (τ : Side) (s s' : State) (root droot : Path) : Bool :=
  (srcFiles s root).all fun e => s'.file τ (rebase root droot e.1) == some e.2

def noLossB (τ : Side) (s s' : State) (root droot : Path) : Bool :=
  (srcFiles s root).all fun e =>
    s'.file .a e.1 == some e.2 || s'.file τ (rebase root droot e.1) == some e.2

/-- the phase a step falls in, from the state in which it is reached:
    0 = before the copy is complete, 1 = copy complete and source untouched,
    2 = the source has been (partly) removed -/
def phaseOf (τ : Side) (s cur : State) (root droot : Path) : Nat :=
  if !srcIntactB s cur root then 2 else if dstCompleteB τ s cur root droot then 1 else 0

/-! ### the same observables as propositions (what the theorems of C07 are about) -/

/-- **NoLoss**: every file of the source subtree `root` of `s` still has its original bytes
    readable at its source path in `s'`, or is complete at the corresponding destination path
    (`τ` is the side of the destination filesystem) -/
def NoLoss (τ : Side) (root droot : Path) (s s' : State) : Prop :=
  ∀ x b, isPre root x = true → s.file .a x = some b →
    s'.file .a x = some b ∨ s'.file τ (rebase root droot x) = some b

/-- every file of the source subtree is complete at its destination path -/
def Moved (τ : Side) (root droot : Path) (s s' : State) : Prop :=
  ∀ x b, isPre root x = true → s.file .a x = some b → s'.file τ (rebase root droot x) = some b

/-- every file of the source subtree is untouched -/
def SrcIntact (root : Path) (s s' : State) : Prop :=
  ∀ x b, isPre root x = true → s.file .a x = some b → s'.file .a x = some b

/-- the single-file versions (`move`, `move_file`): source `(a, p)`, destination `(τ, q)` -/
def NoLossFile (τ : Side) (p q : Path) (s s' : State) : Prop :=
  ∀ b, s.file .a p = some b → s'.file .a p = some b ∨ s'.file τ q = some b

def MovedFile (τ : Side) (p q : Path) (s s' : State) : Prop :=
  ∀ b, s.file .a p = some b → s'.file τ q = some b

/-- same-filesystem directory move: no destination path of a source file lies inside the source
    subtree again (false only when the destination is a proper ancestor of the source and the
    source contains an entry named like its own first component below the destination — the
    known defect `movedir-dst-ancestor-of-src-name-clash`) -/
def NoClash (s : State) (root droot : Path) : Prop :=
  ∀ x, isPre root x = true → (s.a).isFile x = true → isPre root (rebase root droot x) = false

end Fs.Fault
