/-
  FsModel.MountFs — `MountFS` **as coded** (fs/mountfs.py + the fs/base.py defaults it inherits),
  as a FUNCTOR over the step functions of its member filesystems (C01 / MOUNT).

  `FsModel/Mount.lean` (C17) answers "which member receives which call"; its members are reference
  states and it records traces.  This module answers "what does the user of the MountFS see": the
  members are ARBITRARY filesystems — `F : FS σ` (`Mem.step`, a wrapper, or another `MountFs.step`:
  the functor composes, which is how a MountFS mounted inside a MountFS is covered) — and
  `FsProofs/MountRefines.lean` proves that the composition refines `Ref.step` on the GLUED tree
  when the members refine `Ref.step` on theirs.

  State: the MountFS's own `_closed` flag, `auto_close`, `default_fs` (a `MemoryFS()`, state of
  `D : FS State`, in practice `Mem.step`), and `self.mounts`: the insertion-ordered list of
  (`forcedir(abspath(normpath(path)))`, member state).  `released` holds the members `close()` has
  closed and dropped from the table (`del self.mounts[:]`) — not reachable through the MountFS any
  more, kept so that their final state can be observed.

  Routing is `Mount.delegate` of C17 itself (`table`: entry `k` of the list is member `k+1`, `0` is
  `default_fs`), so `C17.mount_route_component_prefix` & co. apply verbatim.

  Mount points: `mount()` registers the key and runs `default_fs.makedirs(key, recreate=True)`, so every
  mount point is a PLACEHOLDER DIRECTORY of the default tree (`mountOne`).  The placeholder is what makes
  `listdir`/`scandir` of the parent show the mount point; `_scan_mount_points` re-describes such an entry
  through `self.getinfo` (the mounted filesystem's root, under the mount point's name).

  Methods `MountFS` defines itself (`prim`, each `check(); _delegate; member call`):
  getinfo (name fix-up for a mounted root), listdir, scandir (+ `_scan_mount_points`), makedir,
  openbin / open (mode validated BEFORE `check()`), remove, removedir (`_delegate` on the raw path, then
  `""`/`"/"` refused), readbytes, getsize, gettype, isdir, isfile, setinfo, upload,
  writebytes, validatepath, close.  Everything else is the fs/base.py default = a program over those
  (`Route.Prog`; the programs for exists, isempty, create, touch, appendbytes, makedirs, move, copy are
  C17's `RouteBase`, validated there against the call traces of the real code; the walker-based
  `removetree`, `copydir`, `movedir` are transcribed here: `baseRemovetree`, `baseCopydir`, `baseMovedir`).

  Abstractions: a file handle is a session (open … close inside one call, as in `Mem`); the `Info`s of
  a scan are `scandir` names + one `getinfo` per entry (the real walker reads `is_dir` from the member's
  own scan, and from `self.getinfo` for a mount point: same answers); a directory scan is atomic (the
  real generators are consumed lazily: differs only when a bulk copy writes into the directory it is
  still reading); walks are bounded by `fuel` directories of depth.

  No Mathlib import (the driver links this module).
-/
import FsModel.Ref
import FsModel.RouteBase
import FsModel.Mount

namespace Fs.MountFs
open Fs Fs.Path Fs.Ref Fs.Route

/-- a member filesystem: one call = new state and outcome (as `Wrap.FS`) -/
abbrev FS (σ : Type) := σ → Op → σ × Out

structure MState (σ : Type) where
  closed : Bool
  autoClose : Bool
  dflt : State
  mounts : List (Str × σ)
  released : List (Str × σ) := []

/-! ### routing -/

def tableFrom {σ : Type} : Nat → List (Str × σ) → Mount.Table
  | _, [] => []
  | i, (k, _) :: r => (k, i) :: tableFrom (i + 1) r

/-- `self.mounts` as C17's table: list entry `k` is member `k + 1` (member `0` = `default_fs`) -/
def table {σ : Type} (l : List (Str × σ)) : Mount.Table := tableFrom 1 l

/-- `MountFS._delegate(path)` = `Mount.delegate`: a path with an invalid character (NUL) is refused first
(since /repo 48e26ed); then `forcedir(abspath(normpath(path)))`, FIRST mount whose key is a string prefix
(remainder without trailing slashes), else `(default_fs, path)` with the RAW path -/
def delegate {σ : Type} (ms : MState σ) (p : Str) : Res (Nat × Str) := Mount.delegate (table ms.mounts) p

section Functor
variable {σ : Type} (D : FS State) (F : FS σ)

/-- one call on the `i`-th mounted member -/
def callAt : List (Str × σ) → Nat → Op → List (Str × σ) × Out
  | [], _, _ => ([], .err .Leak)                 -- unreachable: indices come from `table`
  | (k, s) :: r, 0, op => let x := F s op; ((k, x.1) :: r, x.2)
  | e :: r, i + 1, op => let x := callAt r i op; (e :: x.1, x.2)

/-- one call on member `i` (`0` = `default_fs`) -/
def call (ms : MState σ) (i : Nat) (op : Op) : MState σ × Out :=
  match i with
  | 0 => let x := D ms.dflt op; ({ ms with dflt := x.1 }, x.2)
  | j + 1 => let x := callAt F ms.mounts j op; ({ ms with mounts := x.1 }, x.2)

/-- `fs, _path = self._delegate(path); return fs.<method>(_path, …)` -/
def routed (ms : MState σ) (p : Str) (mk : Str → Op) : MState σ × Out :=
  match delegate ms p with
  | .err e => (ms, .err e)
  | .ok (i, r) => call D F ms i (mk r)

/-- `self.check()` -/
def checked (ms : MState σ) (k : MState σ × Out) : MState σ × Out :=
  if ms.closed then (ms, .err .FilesystemClosed) else k

/-- `raw["basic"]["name"] = name` on the `Info` a call returned (when `rename`) -/
def renameInfo (rename : Bool) (name : Name) : Out → Out
  | .ok (.info n d sz) => if rename then .ok (.info name d sz) else .ok (.info n d sz)
  | o => o

/-- the body of `MountFS.getinfo` after `check()`: the root of a mounted filesystem is reported under
the name of its mount point, `basename(normpath(path))` -/
def getinfoRouted (ms : MState σ) (p : Str) : MState σ × Out :=
  match delegate ms p with
  | .err e => (ms, .err e)
  | .ok (i, r) =>
    let x := call D F ms i (.getinfo r)
    -- `if fs is not self.default_fs and not relpath(_path)`: name := `basename(normpath(path))`
    (x.1, renameInfo (decide (i ≠ 0 ∧ relpath r = [])) (basename (Mount.normOf p)) x.2)

/-- `_scan_mount_points`: every yielded entry whose path is a mount point is replaced by
`self.getinfo(dir_path + name)` (a full `getinfo`, `check()` included; the name is unchanged) -/
def scanMountPoints (dirKey : Str) : List Name → MState σ → MState σ × Res Unit
  | [], ms => (ms, .ok ())
  | name :: rest, ms =>
    if ms.mounts.any (fun m => m.1 = forcedir (dirKey ++ name)) then
      let r := checked ms (getinfoRouted D F ms (dirKey ++ name))
      match r.2 with
      | .err e => (r.1, .err e)
      | .ok _ => scanMountPoints dirKey rest r.1
    else scanMountPoints dirKey rest ms

/-- the body of `MountFS.scandir` after `check()`; `firstOnly`: the iterator is advanced once
(`FS.isempty`: `next(iter(self.scandir(path)), None) is None`), else it is consumed -/
def scanRouted (ms : MState σ) (p : Str) (firstOnly : Bool) : MState σ × Out :=
  match delegate ms p with
  | .err e => (ms, .err e)
  | .ok (i, r) =>
    let x := call D F ms i (.listdir r)
    match x.2 with
    | .ok (.names l) =>
      let fin : Out := if firstOnly then .ok (.bool l.isEmpty) else .ok (.names l)
      if i = 0 ∧ ms.mounts ≠ [] then
        let y := scanMountPoints D F (Mount.mountKey (Mount.normOf p)) (if firstOnly then l.take 1 else l) x.1
        (y.1, match y.2 with
          | .err e => .err e
          | .ok _ => fin)
      else (x.1, fin)
    | o => (x.1, o)

/-- every method `MountFS` defines, as invoked by clients and by the inherited defaults
(`Route.Prim`: `openRead/openWrite/openAppend` are `open(p, "rb"|"wb"|"ab")` sessions, `scanFirst` is
how `FS.isempty` uses `scandir`; `upload` writes what was read).  Not needed by any `Ref.Op`:
`makedirs` (not a MountFS method), `open_`, `readtext`, `download`, `writetext`. -/
def prim (ms : MState σ) (pr : Prim) : MState σ × Out :=
  match pr with
  | .getinfo p => checked ms (getinfoRouted D F ms p)
  | .scandir p => checked ms (scanRouted D F ms p false)
  | .scanFirst p => checked ms (scanRouted D F ms p true)
  | .openbin p m =>
    if (parseBinMode m).isNone then (ms, .err .ValueError)      -- `validate_openbin_mode(mode)` first
    else checked ms (routed D F ms p (.openbin · m))
  | .removedir p =>
    -- since /repo 48e26ed: `fs, _path = self._delegate(path)` first (the RAW path: invalid characters are
    -- refused), then `if normpath(path) in ("", "/"): raise RemoveRootError`, then `fs.removedir(_path)`
    checked ms
      (match delegate ms p with
       | .err e => (ms, .err e)
       | .ok _ =>
         if Mount.normOf p = [] ∨ Mount.normOf p = ['/'] then (ms, .err .RemoveRootError)
         else routed D F ms p .removedir)
  | .makedirs _ _ | .open_ _ _ _ | .readtext _ | .download _ | .writetext _ _ => (ms, .err .Unsupported)
  | _ => checked ms (routed D F ms pr.path (pr.memberOp ·))

/-- `MountFS.validatepath`: `check(); fs, _path = _delegate(path); fs.validatepath(_path)`, then
`abspath(normpath(path))` (cannot fail after `_delegate`).  A member's `validatepath` fails exactly when
its `exists` does, and like it changes nothing (as in C17). -/
def validatepath (ms : MState σ) (p : Str) : Res Unit :=
  if ms.closed then .err .FilesystemClosed
  else match delegate ms p with
    | .err e => .err e
    | .ok (i, r) =>
      match (call D F ms i (.exists_ r)).2 with
      | .err e => .err e
      | .ok _ => .ok ()

def sem : Sem (MState σ) :=
  { prim := fun ms pr => let r := prim D F ms pr; (r.1, r.2, [])
    validate := fun ms p => (validatepath D F ms p, [])
    closed := fun ms => ms.closed }

/-! ### `mount()` and `close()` -/

/-- `MountFS.mount(path, fs)` for an FS instance that is not the MountFS itself: `MountError` when the
new key starts with an existing key; the table is extended BEFORE `default_fs.makedirs(key,
recreate=True)` creates the placeholder directory; no `check()`.  (`Mount.mount` of C17, over `D`.) -/
def mountOne (ms : MState σ) (p : Str) (m : σ) : MState σ × Mount.MountOut :=
  match normpath p with
  | .err e => (ms, .err e)
  | .ok n =>
    let key := Mount.mountKey n
    if ms.mounts.any (fun e => startsWith key e.1) then (ms, .mountError)
    else
      let r := D ms.dflt (.makedirs key true)
      ({ ms with mounts := ms.mounts ++ [(key, m)], dflt := r.1 },
        match r.2 with
        | .ok _ => .ok
        | .err e => .err e)

/-- `for _path, fs in self.mounts: fs.close()` — stops at the first member whose `close` raises -/
def closeMembers : List (Str × σ) → List (Str × σ) × Out
  | [] => ([], .ok .unit)
  | (k, s) :: r =>
    match F s .close with
    | (s1, .err e) => ((k, s1) :: r, .err e)
    | (s1, .ok _) => let x := closeMembers r; ((k, s1) :: x.1, x.2)

/-- `MountFS.close()`: the flag first (`super().close()`), then with `auto_close` every mounted member in
table order and `del self.mounts[:]`, then `default_fs.close()` -/
def close (ms : MState σ) : MState σ × Out :=
  let ms1 := { ms with closed := true }
  let closeDefault (m : MState σ) : MState σ × Out :=
    let d := D m.dflt .close
    ({ m with dflt := d.1 }, match d.2 with | .ok _ => .ok .unit | .err e => .err e)
  if ms.autoClose then
    match closeMembers F ms.mounts with
    | (l, .err e) => ({ ms1 with mounts := l }, .err e)
    | (l, .ok _) => closeDefault { ms1 with mounts := [], released := ms.released ++ l }
  else closeDefault ms1

end Functor

/-! ### the walker-based defaults of fs/base.py as programs over the methods of the filesystem

`Walker()` without filters: `_check_open_dir`, `_check_scan_dir`, `_check_file` are all true and
`on_error` re-raises.  An entry's `is_dir` is read with one `getinfo`. -/

/-- sequencing: run `p`; an error ends the whole program, a normal return continues with `k` -/
def andThen : Prog → Prog → Prog
  | .ret (.ok _), k => k
  | .ret (.err e), _ => .ret (.err e)
  | .call p f, k => .call p (fun o => andThen (f o) k)
  | .validate p q, k => .validate p (andThen q k)
  | .check q, k => .check (andThen q k)

def leak : Prog := .ret (.err .Leak)

/-- the entries of one directory during `removetree`'s depth-first walk (`Walker(search="depth").info`):
a file is yielded at once (→ `self.remove`), a directory after its contents (→ `self.removedir`) -/
def rmEnts (rec : Str → Prog → Prog) (d : Str) : List Name → Prog → Prog
  | [], k => k
  | x :: xs, k =>
    let p := combine d x
    .call (.getinfo p) fun
      | .err e => .ret (.err e)
      | .ok v =>
        if isDirInfo v then
          rec p (.call (.removedir p) fun
            | .err e => .ret (.err e)
            | .ok _ => rmEnts rec d xs k)
        else .call (.remove p) fun
          | .err e => .ret (.err e)
          | .ok _ => rmEnts rec d xs k

/-- remove everything below directory `d` (fuel = depth bound), then continue with `k` -/
def rmDir : Nat → Str → Prog → Prog
  | 0, _, _ => leak
  | n + 1, d, k =>
    .call (.scandir d) fun
      | .ok (.names l) => rmEnts (rmDir n) d l k
      | .ok _ => leak
      | .err e => .ret (.err e)

/-- `FS.removetree`: `_dir_path = self.validatepath(dir_path)` (since /repo 433aea4; before,
`abspath(normpath(dir_path))` with no `check()` and no validation of its own), the depth-first walk, then
`if _dir_path != "/": self.removedir(dir_path)` with the RAW path -/
def baseRemovetree (fuel : Nat) (p : Str) : Prog :=
  .validate p <|
    let d := absnorm p
    rmDir fuel d (if d = ['/'] then .ret (.ok .unit) else one (.removedir p))

/-- the inner loop of `_walk_breadth` over the entries of `d`: `visit path isDir` is what the consumer
does with a yielded entry; directories are pushed on the queue (`acc`, FIFO) -/
def bfsEnts (visit : Str → Bool → Prog → Prog) (rec : List Str → Prog) (d : Str) :
    List Name → List Str → Prog
  | [], acc => rec acc
  | x :: xs, acc =>
    let p := combine d x
    .call (.getinfo p) fun
      | .err e => .ret (.err e)
      | .ok v =>
        if isDirInfo v then visit p true (bfsEnts visit rec d xs (acc ++ [p]))
        else visit p false (bfsEnts visit rec d xs acc)

/-- `_walk_breadth` (fuel = number of directories that may be scanned) -/
def bfs (visit : Str → Bool → Prog → Prog) : Nat → List Str → Prog → Prog
  | 0, [], k => k
  | 0, _ :: _, _ => leak
  | _ + 1, [], k => k
  | n + 1, d :: q, k =>
    .call (.scandir d) fun
      | .ok (.names l) => bfsEnts visit (fun new => bfs visit n new k) d l q
      | .ok _ => leak
      | .err e => .ret (.err e)

def destOf (s d p : Str) (k : Str → Prog) : Prog :=
  match frombase s p with
  | .ok rel => k (combine d rel)
  | .err e => .ret (.err e)

/-- `copy_dir(fs, s, fs, d)` on ONE filesystem object (`s`, `d` = `abspath(normpath(·))` of the
arguments): `copy_structure` (`makedirs(d, recreate=True)`, then `makedir(·, recreate=True)` for every
directory of the breadth-first walk), then for every file of a second breadth-first walk
`Copier(workers=0).copy` = `copy_file_internal` = `validatepath` ×2, same-path test,
`fs.copy(src, dst, overwrite=True)` -/
def copyDir (fuel : Nat) (s d : Str) (k : Prog) : Prog :=
  if isbase s d then .ret (.err .IllegalDestination)
  else
    andThen (baseMakedirs d true) <|
    bfs (fun p isDir k1 =>
        if isDir then destOf s d p fun t => .call (.makedir t true) fun
          | .err e => .ret (.err e)
          | .ok _ => k1
        else k1) fuel [s] <|
    bfs (fun p isDir k1 =>
        if isDir then k1
        else destOf s d p fun t =>
          .validate p <| .validate t <|
            if absnorm p = absnorm t then .ret (.err .IllegalDestination)
            else andThen (baseCopy p t true) k1) fuel [s] k

/-- `FS.copydir` -/
def baseCopydir (fuel : Nat) (src dst : Str) (create : Bool) : Prog :=
  .validate src <| .validate dst <|
    let ns := absnorm src
    let nd := absnorm dst
    if isbase ns nd then .ret (.err .IllegalDestination)
    else
      let body : Prog :=
        .call (.getinfo ns) fun
          | .err e => .ret (.err e)
          | .ok v =>
            if !isDirInfo v then .ret (.err .DirectoryExpected)
            else copyDir fuel ns nd (.ret (.ok .unit))
      if create then body
      else existsThen nd fun b => if b then body else .ret (.err .ResourceNotFound)

/-- `FS.movedir` = the guards, then `move_dir(self, src_path, self, dst_path)` with the RAW paths:
`getinfo(src).is_dir`, `makedir(dst, recreate=True)`, `copy_dir`, `removetree(src)` -/
def baseMovedir (fuel : Nat) (src dst : Str) (create : Bool) : Prog :=
  .validate src <| .validate dst <|
    let ns := absnorm src
    let nd := absnorm dst
    if ns = nd then .ret (.ok .unit)
    else if isbase ns nd then .ret (.err .IllegalDestination)
    else
      let body : Prog :=
        .call (.getinfo src) fun
          | .err e => .ret (.err e)
          | .ok v =>
            if !isDirInfo v then .ret (.err .DirectoryExpected)
            else .call (.makedir dst true) fun
              | .err e => .ret (.err e)
              | .ok _ => copyDir fuel ns nd (baseRemovetree fuel src)
      if create then body
      else existsThen dst fun b => if b then body else .ret (.err .ResourceNotFound)

/-- depth / directory-count bound of the walks (`fsharness.snapshot` bounds trees to depth 12) -/
def walkFuel : Nat := 4096

/-- every reference operation as the program a MountFS runs for it -/
def prog : Op → Prog
  | .exists_ p => baseExists p
  | .isdir p => one (.isdir p)
  | .isfile p => one (.isfile p)
  | .listdir p => one (.listdir p)
  | .getsize p => one (.getsize p)
  | .gettype p => one (.gettype p)
  | .isempty p => one (.scanFirst p)
  | .getinfo p => one (.getinfo p)
  | .readbytes p => one (.readbytes p)
  | .makedir p rc => one (.makedir p rc)
  | .makedirs p rc => baseMakedirs p rc
  | .writebytes p d => one (.writebytes p d)
  | .appendbytes p d => one (.openAppend p d)
  | .create p w => baseCreate p w
  | .touch p => baseTouch p
  | .settimes p => one (.setinfo p)
  | .openbin p m => one (.openbin p m)
  | .remove p => one (.remove p)
  | .removedir p => one (.removedir p)
  | .removetree p => baseRemovetree walkFuel p
  | .move s d ow => baseMove s d ow
  | .copy s d ow => baseCopy s d ow
  | .movedir s d c => baseMovedir walkFuel s d c
  | .copydir s d c => baseCopydir walkFuel s d c
  | .close => .ret (.ok .unit)

/-- **One call on a MountFS** whose default filesystem steps with `D` and whose mounted members step
with `F`. -/
def step {σ : Type} (D : FS State) (F : FS σ) (ms : MState σ) (op : Op) : MState σ × Out :=
  match op with
  | .close => close D F ms
  | _ => let r := (prog op).run (sem D F) ms; (r.1, r.2.1)

end Fs.MountFs
