/-
  Driver commands for `FsModel.BaseWalk` (the base-class bulk algorithms over primitive calls):

  basewalk.step <closed 0|1> <tree> <op…>   primitives = `Ref.step`; `removetree` is the base-class walker
  basewalk.mem  <closed 0|1> <tree> <op…>   primitives = `Mem.step` (MemoryFS as coded)
  basewalk.os   <closed 0|1> <tree> <op…>   primitives = `Os.step` (OSFS as coded)
      -> <ok v|err E> | <tree'> | <closed'> | adm= | wf=<0|1>          (the reply format of `ref.step`)

  For `mem` / `os`: `removetree` = the BASE-CLASS `FS.removetree` over the class's primitives (what
  `FS.removetree(fs_object, path)` runs), `copydir` = `FS.copydir`, `movedir` = `FS.movedir` whose `move_dir`
  ends with the CLASS's own `removetree` (MemoryFS and OSFS override it).  Every other operation is the
  primitive provider's.
-/
import FsModel.BaseWalk
import FsModel.Mem
import FsModel.Os
import FsModel.RefDriver
import FsModel.Proto

namespace Fs.BaseWalkDriver
open Fs Fs.Ref Fs.Proto Fs.RefDriver

/-- directories the walkers may visit in one call -/
def fuel : Nat := 4096

def reply (r : State × Out) : String :=
  res valStr r.2 ++ " | " ++ dumpTree r.1.root ++ " | " ++ boolStr r.1.closed ++ " | adm= | wf=" ++ boolStr (r.1.root.wf)

/-- the class's bulk operations: base-class `removetree` as an operation, own `removetree` inside `move_dir` -/
def classStep (F : BaseWalk.FS State) (s : State) (op : Op) : State × Out :=
  match op with
  | .removetree _ => BaseWalk.step fuel false F s op
  | _ => BaseWalk.step fuel true F s op

def handle (cmd : String) (args : List String) : Option String := do
  let F : BaseWalk.FS State ← match cmd with
    | "basewalk.step" => some (BaseWalk.step fuel false Ref.step)
    | "basewalk.mem" => some (classStep Mem.step)
    | "basewalk.os" => some (classStep Os.step)
    | _ => none
  let c ← args[0]?
  let t ← loadTree (← args[1]?)
  let op ← parseOp (args.drop 2)
  some (reply (F { root := t, closed := c == "1" } op))

end Fs.BaseWalkDriver
