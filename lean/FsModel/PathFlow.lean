/-
  FsModel.PathFlow — vocabulary of the generated `PathFlowTable` (DESIGN §4.6).

  The table itself (`FsModel/Generated/PathFlowTable.lean`) is regenerated from the source of
  fs/osfs.py and fs/ftpfs.py before every build by `harness/extract/pathflow.py`; the
  theorems over it (FsProofs/C03.lean) are re-proved by `decide` each time.
-/

namespace Fs.PathFlow

/-- where the path data reaching a sink comes from -/
inductive Source where
  /-- derived only from `self.validatepath(…)` / `normpath(…)` results (and constants, object
  attributes, names returned by the operating system for such a path) -/
  | validated
  /-- some raw (unvalidated) path parameter of a public method flows into the sink -/
  | raw
  /-- the extractor met syntax it does not understand -/
  | unknown
  deriving DecidableEq, Repr

/-- one call that hands a path to the outside world -/
structure Sink where
  /-- the callee as written: `os.stat`, `io.open`, `shutil.copy2`, `scandir`,
  `self._to_sys_path`, `self.getsyspath`, `self.ftp.sendcmd`, `_encode`, … -/
  callee : String
  line : Nat
  /-- source text of the path-carrying argument(s) -/
  arg : String
  source : Source
  /-- `false` when the sink sits in a branch that is statically dead on the platform the
  harness runs on (Linux, CPython ≥ 3.8, not Python 2): `deadWhy` names the guard -/
  live : Bool
  deadWhy : String := ""
  deriving Repr

structure Method where
  cls : String
  name : String
  line : Nat
  /-- callable from outside (no leading underscore, or a dunder) -/
  isPublic : Bool
  /-- the whole definition sits in a statically dead class-level branch -/
  live : Bool
  sinks : List Sink
  deriving Repr

end Fs.PathFlow
