/-
  FsModel.Regex — the regular-expression subset that `fs/wildcard.py` and `fs/glob.py`
  *generate*, with (a) a printer to the exact Python regex text, (b) a model of Python's
  `re` parser for that subset (text → AST; anything else is reported as `outside`), and
  (c) a backtracking matcher with the meaning of `re.compile(text, flags).match(s)`.

  The AST is *flat*: a regex is a flag set plus a sequence of items, each item a single
  character test (`one`), a repeated/optional single-character test (`star`, `plus`,
  `opt`) or an anchor.  The library never generates groups, alternation or nested
  repetition, so the matcher is structural recursion on the item list and
  "matches ↔ ∃ split of the subject" lemmas are direct (FsProofs/Lemmas/GlobLemmas).

  Python's `re` is external (DESIGN §5): this file is a re-statement of its documented
  behaviour for the subset, validated differentially on every run by harness/props/c14.py
  (`re.match` vs `Regex.matches`, `re.compile` errors vs `parse` errors).
  Case-insensitive matching is modelled for ASCII letters only.
-/
import FsModel.Basic

namespace Fs.Regex
open Fs

/-! ### result type of translators / the parser -/

inductive TErr where
  | reError               -- `re.error` raised by `re.compile`
  | valueError            -- `ValueError` (glob._translate on a `**` pattern)
  | illegalBackReference  -- `fs.errors.IllegalBackReference` (iteratepath of the pattern)
  | outside               -- the text leaves the modelled regex subset (model has no opinion)
  deriving DecidableEq, Repr

def TErr.name : TErr → String
  | .reError => "reError" | .valueError => "ValueError"
  | .illegalBackReference => "IllegalBackReference" | .outside => "outside"

inductive TR (α : Type) where
  | ok : α → TR α
  | err : TErr → TR α
  deriving Repr

namespace TR
def bind (r : TR α) (f : α → TR β) : TR β :=
  match r with | ok a => f a | err e => err e
def map (f : α → β) : TR α → TR β | ok a => ok (f a) | err e => err e
instance : Monad TR where
  pure := ok
  bind := bind
def isOk : TR α → Bool | ok _ => true | err _ => false
end TR

instance [DecidableEq α] : DecidableEq (TR α) := fun a b =>
  match a, b with
  | .ok x, .ok y => if h : x = y then isTrue (by rw [h]) else isFalse (by intro h'; cases h'; exact h rfl)
  | .err x, .err y => if h : x = y then isTrue (by rw [h]) else isFalse (by intro h'; cases h'; exact h rfl)
  | .ok _, .err _ => isFalse (by intro h; cases h)
  | .err _, .ok _ => isFalse (by intro h; cases h)

/-! ### AST -/

/-- a literal character together with the way it is written (`\c` or `c`) -/
structure LChar where
  c : Char
  esc : Bool
  deriving DecidableEq, Repr

/-- the characters `re.escape` (Python ≥ 3.7) puts a backslash in front of -/
def isSpecial (c : Char) : Bool :=
  c == '(' || c == ')' || c == '[' || c == ']' || c == '{' || c == '}' || c == '?' || c == '*' ||
  c == '+' || c == '-' || c == '|' || c == '^' || c == '$' || c == '\\' || c == '.' || c == '&' ||
  c == '~' || c == '#' || c == ' ' || c == '\t' || c == '\n' || c == '\r' ||
  c == Char.ofNat 11 || c == Char.ofNat 12

/-- `re.escape(c)` as a literal -/
def LChar.lit (c : Char) : LChar := ⟨c, isSpecial c⟩

inductive SetItem where
  | ch (a : LChar)
  | range (lo hi : LChar)
  deriving DecidableEq, Repr

inductive Atom where
  | chr (a : LChar)                          -- a literal character
  | any                                      -- `.`
  | set (neg : Bool) (items : List SetItem)  -- `[...]` / `[^...]`
  deriving DecidableEq, Repr

inductive Item where
  | one (a : Atom)
  | star (a : Atom) (lazy : Bool)   -- `a*`  / `a*?`
  | plus (a : Atom) (lazy : Bool)   -- `a+`  / `a+?`
  | opt (a : Atom) (lazy : Bool)    -- `a?`  / `a??`
  | bol                             -- `^`
  | eol                             -- `$`
  | endZ                            -- `\Z`
  deriving DecidableEq, Repr

/-- `inline` are the letters of a leading `(?…)` group as written (the library writes `ms`);
`ic` is the `re.IGNORECASE` argument of `re.compile`. -/
structure Regex where
  inline : List Char
  ic : Bool
  items : List Item
  deriving DecidableEq, Repr

structure Flags where
  dotall : Bool
  multiline : Bool
  ic : Bool
  deriving DecidableEq, Repr

def Regex.flags (r : Regex) : Flags :=
  { dotall := r.inline.contains 's', multiline := r.inline.contains 'm',
    ic := r.ic || r.inline.contains 'i' }

/-! ### printer: the exact Python source text -/

def LChar.toPy (a : LChar) : Str := if a.esc then ['\\', a.c] else [a.c]

def SetItem.toPy : SetItem → Str
  | .ch a => a.toPy
  | .range lo hi => lo.toPy ++ '-' :: hi.toPy

def Atom.toPy : Atom → Str
  | .chr a => a.toPy
  | .any => ['.']
  | .set neg items => '[' :: (if neg then ['^'] else []) ++ (items.flatMap SetItem.toPy) ++ [']']

def lazyMark (l : Bool) : Str := if l then ['?'] else []

def Item.toPy : Item → Str
  | .one a => a.toPy
  | .star a l => a.toPy ++ '*' :: lazyMark l
  | .plus a l => a.toPy ++ '+' :: lazyMark l
  | .opt a l => a.toPy ++ '?' :: lazyMark l
  | .bol => ['^']
  | .eol => ['$']
  | .endZ => ['\\', 'Z']

def itemsToPy (l : List Item) : Str := l.flatMap Item.toPy

def Regex.toPy (r : Regex) : Str :=
  (if r.inline.isEmpty then [] else '(' :: '?' :: r.inline ++ [')']) ++ itemsToPy r.items

/-! ### matcher: `re.compile(text, flags).match(s) is not None` -/

def lower (c : Char) : Char :=
  if 'A' ≤ c ∧ c ≤ 'Z' then Char.ofNat (c.toNat + 32) else c

def upper (c : Char) : Char :=
  if 'a' ≤ c ∧ c ≤ 'z' then Char.ofNat (c.toNat - 32) else c

def SetItem.has : SetItem → Char → Bool
  | .ch a, c => a.c == c
  | .range lo hi, c => decide (lo.c ≤ c) && decide (c ≤ hi.c)

def setHas (items : List SetItem) (c : Char) : Bool := items.any (·.has c)

/-- does the single-character test accept `c`?  With IGNORECASE a literal compares lower-cased
and a set is tried with both case variants, the negation applied afterwards (ASCII model). -/
def Atom.ok (f : Flags) : Atom → Char → Bool
  | .chr a, c => if f.ic then lower a.c == lower c else a.c == c
  | .any, c => f.dotall || c != '\n'
  | .set neg items, c =>
    (if f.ic then setHas items (lower c) || setHas items (upper c) else setHas items c) != neg

/-- `x*` followed by the continuation `k` (greedy or lazy: the same set of successes). -/
def starLoop (ok : Char → Bool) (k : Option Char → Str → Bool) : Option Char → Str → Bool
  | prev, [] => k prev []
  | prev, c :: cs => k prev (c :: cs) || (ok c && starLoop ok k (some c) cs)

def atBol (f : Flags) (prev : Option Char) : Bool :=
  prev == none || (f.multiline && prev == some '\n')

def atEol (f : Flags) (s : Str) : Bool :=
  s == [] || (if f.multiline then s.head? == some '\n' else s == ['\n'])

/-- `prev` is the character before the current position (`none` at the start of the subject);
the result says whether the items can be matched starting here (no need to reach the end:
`re.match`, not `fullmatch`). -/
def matchItems (f : Flags) : List Item → Option Char → Str → Bool
  | [], _, _ => true
  | .one a :: r, _, s =>
    match s with
    | c :: cs => a.ok f c && matchItems f r (some c) cs
    | [] => false
  | .star a _ :: r, prev, s => starLoop (a.ok f) (matchItems f r) prev s
  | .plus a _ :: r, _, s =>
    match s with
    | c :: cs => a.ok f c && starLoop (a.ok f) (matchItems f r) (some c) cs
    | [] => false
  | .opt a _ :: r, prev, s =>
    matchItems f r prev s ||
    (match s with
     | c :: cs => a.ok f c && matchItems f r (some c) cs
     | [] => false)
  | .bol :: r, prev, s => atBol f prev && matchItems f r prev s
  | .eol :: r, prev, s => atEol f s && matchItems f r prev s
  | .endZ :: r, prev, s => s == [] && matchItems f r prev s

def Regex.matches (r : Regex) (s : Str) : Bool := matchItems r.flags r.items none s

/-! ### parser: Python's `re` parser restricted to the subset (text → AST)

`reError` where Python raises `re.error`; `outside` for syntax the AST cannot express
(groups, alternation, counted repetition, possessive quantifiers, alphanumeric escapes
other than `\Z`, flags other than i/m/s). -/

def isAsciiAlnum (c : Char) : Bool :=
  ('0' ≤ c && c ≤ '9') || ('a' ≤ c && c ≤ 'z') || ('A' ≤ c && c ≤ 'Z')

/-- one member character inside a set -/
def setChar : Str → TR (LChar × Str)
  | [] => .err .reError
  | '\\' :: [] => .err .reError
  | '\\' :: c :: rest => if isAsciiAlnum c then .err .outside else .ok (⟨c, true⟩, rest)
  | c :: rest => .ok (⟨c, false⟩, rest)

/-- the loop of `sre_parse` over a set body (after `[` and an optional `^`) -/
def parseSetLoop : Nat → Str → List SetItem → TR (List SetItem × Str)
  | 0, _, _ => .err .outside
  | fuel + 1, s, acc =>
    match s with
    | [] => .err .reError                      -- unterminated character set
    | c :: rest0 =>
      if c == ']' && !acc.isEmpty then .ok (acc.reverse, rest0)
      else
        match (if c == ']' then TR.ok (⟨']', false⟩, rest0) else setChar s) with
        | .err e => .err e
        | .ok (code1, rest) =>
          match rest with
          | '-' :: rest' =>
            (match rest' with
             | [] => .err .reError
             | ']' :: rest'' => .ok ((SetItem.ch ⟨'-', false⟩ :: SetItem.ch code1 :: acc).reverse, rest'')
             | _ =>
               match setChar rest' with
               | .err e => .err e
               | .ok (code2, rest'') =>
                 if code2.c < code1.c then .err .reError   -- bad character range
                 else parseSetLoop fuel rest'' (SetItem.range code1 code2 :: acc))
          | _ => parseSetLoop fuel rest (SetItem.ch code1 :: acc)

def isQuant (c : Char) : Bool := c == '*' || c == '+' || c == '?'

/-- attach a following quantifier (if any) to an atom -/
def quantify (a : Atom) (rest : Str) : TR (Item × Str) :=
  match rest with
  | q :: r =>
    if isQuant q then
      let mk (l : Bool) : Item := if q == '*' then .star a l else if q == '+' then .plus a l else .opt a l
      match r with
      | '?' :: r' => .ok (mk true, r')
      | '+' :: _ => .err .outside          -- possessive quantifier
      | _ => .ok (mk false, r)
    else .ok (.one a, rest)
  | [] => .ok (.one a, [])

def parseItems : Nat → Str → List Item → TR (List Item)
  | 0, _, _ => .err .outside
  | fuel + 1, s, acc =>
    match s with
    | [] => .ok acc.reverse
    | '^' :: r => parseItems fuel r (.bol :: acc)
    | '$' :: r => parseItems fuel r (.eol :: acc)
    | '\\' :: [] => .err .reError
    | '\\' :: c :: r =>
      if c == 'Z' then parseItems fuel r (.endZ :: acc)
      else if isAsciiAlnum c then .err .outside
      else match quantify (.chr ⟨c, true⟩) r with
        | .err e => .err e
        | .ok (it, r') => parseItems fuel r' (it :: acc)
    | '.' :: r =>
      (match quantify .any r with
       | .err e => .err e
       | .ok (it, r') => parseItems fuel r' (it :: acc))
    | '[' :: r =>
      let (neg, body) := match r with
        | '^' :: b => (true, b)
        | b => (false, b)
      (match parseSetLoop (body.length + 1) body [] with
       | .err e => .err e
       | .ok (items, r1) =>
         match quantify (.set neg items) r1 with
         | .err e => .err e
         | .ok (it, r') => parseItems fuel r' (it :: acc))
    | c :: r =>
      if isQuant c then .err .reError          -- nothing to repeat / multiple repeat
      else if c == '(' || c == ')' || c == '|' || c == '{' then .err .outside
      else match quantify (.chr ⟨c, false⟩) r with
        | .err e => .err e
        | .ok (it, r') => parseItems fuel r' (it :: acc)

/-- letters of a leading `(?ims)` group -/
def parseInline : Str → TR (List Char × Str)
  | '(' :: '?' :: r =>
    let letters := r.takeWhile (fun c => c == 'i' || c == 'm' || c == 's')
    match r.drop letters.length with
    | ')' :: rest => if letters.isEmpty then .err .outside else .ok (letters, rest)
    | _ => .err .outside
  | s => .ok ([], s)

/-- `re.compile(text, re.IGNORECASE if ic else 0)` -/
def parse (text : Str) (ic : Bool) : TR Regex :=
  match parseInline text with
  | .err e => .err e
  | .ok (inl, rest) =>
    match parseItems (rest.length + 1) rest [] with
    | .err e => .err e
    | .ok items => .ok { inline := inl, ic := ic, items := items }

end Fs.Regex
