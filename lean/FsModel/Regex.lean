/-
  FsModel.Regex — the regular-expression subset that `fs/wildcard.py` and `fs/glob.py`
  *generate*, with (a) a printer to the exact Python regex text, (b) a model of Python's
  `re` parser for that subset (text → AST; anything else is reported as `outside`), and
  (c) a backtracking matcher with the meaning of `re.compile(text, flags).match(s)`.

  The AST is *flat*: a regex is a flag set plus a sequence of items, each item a single
  character test (`one`), a repeated/optional single-character test (`star`, `plus`,
  `opt`), an anchor, a one-character negative lookahead `(?!a)` (glob writes `(?!/)` in front
  of every bracket expression) or a starred non-capturing group whose body is a sequence of
  `a` / `a+` (glob writes `(?:/[^/]+)*` for a `**` component).  There is no alternation and no
  nesting beyond that one level, so the matcher is structural recursion on the item list and
  "matches ↔ ∃ split of the subject" lemmas are direct (FsProofs/Lemmas/GlobLemmas).

  Python's `re` is external (DESIGN §5): this file is a re-statement of its documented
  behaviour for the subset, validated differentially on every run by harness/props/c14.py
  (`re.match` vs `Regex.matches`, `re.compile` errors vs `parse` errors).
  Case-insensitive matching is modelled for ASCII letters only.
-/
import FsModel.Basic

namespace Fs.Regex
open Fs

/-! ### result type of translators / the parser -/

inductive TErr where
  | reError               -- `re.error` raised by `re.compile`
  | valueError            -- `ValueError` (glob._translate on a `**` pattern)
  | illegalBackReference  -- `fs.errors.IllegalBackReference` (iteratepath of the pattern)
  | outside               -- the text leaves the modelled regex subset (model has no opinion)
  deriving DecidableEq, Repr

def TErr.name : TErr → String
  | .reError => "reError" | .valueError => "ValueError"
  | .illegalBackReference => "IllegalBackReference" | .outside => "outside"

inductive TR (α : Type) where
  | ok : α → TR α
  | err : TErr → TR α
  deriving Repr

namespace TR
def bind (r : TR α) (f : α → TR β) : TR β :=
  match r with | ok a => f a | err e => err e
def map (f : α → β) : TR α → TR β | ok a => ok (f a) | err e => err e
instance : Monad TR where
  pure := ok
  bind := bind
def isOk : TR α → Bool | ok _ => true | err _ => false
end TR

instance [DecidableEq α] : DecidableEq (TR α) := fun a b =>
  match a, b with
  | .ok x, .ok y => if h : x = y then isTrue (by rw [h]) else isFalse (by intro h'; cases h'; exact h rfl)
  | .err x, .err y => if h : x = y then isTrue (by rw [h]) else isFalse (by intro h'; cases h'; exact h rfl)
  | .ok _, .err _ => isFalse (by intro h; cases h)
  | .err _, .ok _ => isFalse (by intro h; cases h)

/-! ### AST -/

/-- a literal character together with the way it is written (`\c` or `c`) -/
structure LChar where
  c : Char
  esc : Bool
  deriving DecidableEq, Repr

/-- the characters `re.escape` (Python ≥ 3.7) puts a backslash in front of -/
def isSpecial (c : Char) : Bool :=
  c == '(' || c == ')' || c == '[' || c == ']' || c == '{' || c == '}' || c == '?' || c == '*' ||
  c == '+' || c == '-' || c == '|' || c == '^' || c == '$' || c == '\\' || c == '.' || c == '&' ||
  c == '~' || c == '#' || c == ' ' || c == '\t' || c == '\n' || c == '\r' ||
  c == Char.ofNat 11 || c == Char.ofNat 12

/-- `re.escape(c)` as a literal -/
def LChar.lit (c : Char) : LChar := ⟨c, isSpecial c⟩

inductive SetItem where
  | ch (a : LChar)
  | range (lo hi : LChar)
  deriving DecidableEq, Repr

inductive Atom where
  | chr (a : LChar)                          -- a literal character
  | any                                      -- `.`
  | set (neg : Bool) (items : List SetItem)  -- `[...]` / `[^...]`
  deriving DecidableEq, Repr

/-- an element of the body of a starred group: `a` or `a+` -/
inductive GItem where
  | one (a : Atom)
  | plus (a : Atom)
  deriving DecidableEq, Repr

inductive Item where
  | one (a : Atom)
  | star (a : Atom) (lazy : Bool)   -- `a*`  / `a*?`
  | plus (a : Atom) (lazy : Bool)   -- `a+`  / `a+?`
  | opt (a : Atom) (lazy : Bool)    -- `a?`  / `a??`
  | bol                             -- `^`
  | eol                             -- `$`
  | endZ                            -- `\Z`
  | notAhead (a : Atom)             -- `(?!a)`
  | starGroup (body : List GItem)   -- `(?:body)*`
  deriving DecidableEq, Repr

/-- `inline` are the letters of a leading `(?…)` group as written (the library writes `ms`);
`ic` is the `re.IGNORECASE` argument of `re.compile`. -/
structure Regex where
  inline : List Char
  ic : Bool
  items : List Item
  deriving DecidableEq, Repr

structure Flags where
  dotall : Bool
  multiline : Bool
  ic : Bool
  deriving DecidableEq, Repr

def Regex.flags (r : Regex) : Flags :=
  { dotall := r.inline.contains 's', multiline := r.inline.contains 'm',
    ic := r.ic || r.inline.contains 'i' }

/-! ### printer: the exact Python source text -/

def LChar.toPy (a : LChar) : Str := if a.esc then ['\\', a.c] else [a.c]

def SetItem.toPy : SetItem → Str
  | .ch a => a.toPy
  | .range lo hi => lo.toPy ++ '-' :: hi.toPy

def Atom.toPy : Atom → Str
  | .chr a => a.toPy
  | .any => ['.']
  | .set neg items => '[' :: (if neg then ['^'] else []) ++ (items.flatMap SetItem.toPy) ++ [']']

def lazyMark (l : Bool) : Str := if l then ['?'] else []

def GItem.toPy : GItem → Str
  | .one a => a.toPy
  | .plus a => a.toPy ++ ['+']

def Item.toPy : Item → Str
  | .notAhead a => '(' :: '?' :: '!' :: a.toPy ++ [')']
  | .starGroup body => '(' :: '?' :: ':' :: body.flatMap GItem.toPy ++ [')', '*']
  | .one a => a.toPy
  | .star a l => a.toPy ++ '*' :: lazyMark l
  | .plus a l => a.toPy ++ '+' :: lazyMark l
  | .opt a l => a.toPy ++ '?' :: lazyMark l
  | .bol => ['^']
  | .eol => ['$']
  | .endZ => ['\\', 'Z']

def itemsToPy (l : List Item) : Str := l.flatMap Item.toPy

def Regex.toPy (r : Regex) : Str :=
  (if r.inline.isEmpty then [] else '(' :: '?' :: r.inline ++ [')']) ++ itemsToPy r.items

/-! ### matcher: `re.compile(text, flags).match(s) is not None` -/

def lower (c : Char) : Char :=
  if 'A' ≤ c ∧ c ≤ 'Z' then Char.ofNat (c.toNat + 32) else c

def upper (c : Char) : Char :=
  if 'a' ≤ c ∧ c ≤ 'z' then Char.ofNat (c.toNat - 32) else c

def SetItem.has : SetItem → Char → Bool
  | .ch a, c => a.c == c
  | .range lo hi, c => decide (lo.c ≤ c) && decide (c ≤ hi.c)

def setHas (items : List SetItem) (c : Char) : Bool := items.any (·.has c)

/-- does the single-character test accept `c`?  With IGNORECASE a literal compares lower-cased
and a set is tried with both case variants, the negation applied afterwards (ASCII model). -/
def Atom.ok (f : Flags) : Atom → Char → Bool
  | .chr a, c => if f.ic then lower a.c == lower c else a.c == c
  | .any, c => f.dotall || c != '\n'
  | .set neg items, c =>
    (if f.ic then setHas items (lower c) || setHas items (upper c) else setHas items c) != neg

/-- `x*` followed by the continuation `k` (greedy or lazy: the same set of successes). -/
def starLoop (ok : Char → Bool) (k : Option Char → Str → Bool) : Option Char → Str → Bool
  | prev, [] => k prev []
  | prev, c :: cs => k prev (c :: cs) || (ok c && starLoop ok k (some c) cs)

def atBol (f : Flags) (prev : Option Char) : Bool :=
  prev == none || (f.multiline && prev == some '\n')

def atEol (f : Flags) (s : Str) : Bool :=
  s == [] || (if f.multiline then s.head? == some '\n' else s == ['\n'])

/-- the body of a starred group, followed by the continuation `k` -/
def matchG (ok : Atom → Char → Bool) : List GItem → (Option Char → Str → Bool) → Option Char → Str → Bool
  | [], k, prev, s => k prev s
  | .one a :: r, k, _, s =>
    (match s with
     | c :: cs => ok a c && matchG ok r k (some c) cs
     | [] => false)
  | .plus a :: r, k, _, s =>
    (match s with
     | c :: cs => ok a c && starLoop (ok a) (matchG ok r k) (some c) cs
     | [] => false)

/-- `(?:body)*` followed by `k`: stop here, or run the body once over a non-empty piece of the
subject and go round again (an iteration that consumes nothing ends the loop in Python too).
`fuel` bounds the number of iterations; the length of the subject is always enough. -/
def groupLoop (ok : Atom → Char → Bool) (body : List GItem) (k : Option Char → Str → Bool) :
    Nat → Option Char → Str → Bool
  | 0, prev, s => k prev s
  | fuel + 1, prev, s =>
    k prev s ||
      matchG ok body (fun p s' => decide (s'.length < s.length) && groupLoop ok body k fuel p s') prev s

/-- `prev` is the character before the current position (`none` at the start of the subject);
the result says whether the items can be matched starting here (no need to reach the end:
`re.match`, not `fullmatch`). -/
def matchItems (f : Flags) : List Item → Option Char → Str → Bool
  | [], _, _ => true
  | .one a :: r, _, s =>
    match s with
    | c :: cs => a.ok f c && matchItems f r (some c) cs
    | [] => false
  | .star a _ :: r, prev, s => starLoop (a.ok f) (matchItems f r) prev s
  | .plus a _ :: r, _, s =>
    match s with
    | c :: cs => a.ok f c && starLoop (a.ok f) (matchItems f r) (some c) cs
    | [] => false
  | .opt a _ :: r, prev, s =>
    matchItems f r prev s ||
    (match s with
     | c :: cs => a.ok f c && matchItems f r (some c) cs
     | [] => false)
  | .bol :: r, prev, s => atBol f prev && matchItems f r prev s
  | .eol :: r, prev, s => atEol f s && matchItems f r prev s
  | .endZ :: r, prev, s => s == [] && matchItems f r prev s
  | .notAhead a :: r, prev, s =>
    (match s with
     | c :: _ => !a.ok f c
     | [] => true) && matchItems f r prev s
  | .starGroup body :: r, prev, s => groupLoop (fun a => a.ok f) body (matchItems f r) s.length prev s

def Regex.matches (r : Regex) (s : Str) : Bool := matchItems r.flags r.items none s

/-! ### parser: Python's `re` parser restricted to the subset (text → AST)

`reError` where Python raises `re.error`; `outside` for syntax the AST cannot express
(groups other than `(?!a)` and `(?:a b+ …)*`, alternation, counted repetition, possessive
quantifiers, alphanumeric escapes other than `\Z`, flags other than i/m/s). -/

def isAsciiAlnum (c : Char) : Bool :=
  ('0' ≤ c && c ≤ '9') || ('a' ≤ c && c ≤ 'z') || ('A' ≤ c && c ≤ 'Z')

/-- one member character inside a set -/
def setChar : Str → TR (LChar × Str)
  | [] => .err .reError
  | '\\' :: [] => .err .reError
  | '\\' :: c :: rest => if isAsciiAlnum c then .err .outside else .ok (⟨c, true⟩, rest)
  | c :: rest => .ok (⟨c, false⟩, rest)

/-- the loop of `sre_parse` over a set body (after `[` and an optional `^`) -/
def parseSetLoop : Nat → Str → List SetItem → TR (List SetItem × Str)
  | 0, _, _ => .err .outside
  | fuel + 1, s, acc =>
    match s with
    | [] => .err .reError                      -- unterminated character set
    | c :: rest0 =>
      if c == ']' && !acc.isEmpty then .ok (acc.reverse, rest0)
      else
        match (if c == ']' then TR.ok (⟨']', false⟩, rest0) else setChar s) with
        | .err e => .err e
        | .ok (code1, rest) =>
          match rest with
          | '-' :: rest' =>
            (match rest' with
             | [] => .err .reError
             | ']' :: rest'' => .ok ((SetItem.ch ⟨'-', false⟩ :: SetItem.ch code1 :: acc).reverse, rest'')
             | _ =>
               match setChar rest' with
               | .err e => .err e
               | .ok (code2, rest'') =>
                 if code2.c < code1.c then .err .reError   -- bad character range
                 else parseSetLoop fuel rest'' (SetItem.range code1 code2 :: acc))
          | _ => parseSetLoop fuel rest (SetItem.ch code1 :: acc)

def isQuant (c : Char) : Bool := c == '*' || c == '+' || c == '?'

/-- attach a following quantifier (if any) to an atom -/
def quantify (a : Atom) (rest : Str) : TR (Item × Str) :=
  match rest with
  | q :: r =>
    if isQuant q then
      let mk (l : Bool) : Item := if q == '*' then .star a l else if q == '+' then .plus a l else .opt a l
      match r with
      | '?' :: r' => .ok (mk true, r')
      | '+' :: _ => .err .outside          -- possessive quantifier
      | _ => .ok (mk false, r)
    else .ok (.one a, rest)
  | [] => .ok (.one a, [])

/-- one atom at the head of the text (inside a lookahead / group) -/
def parseAtom (s : Str) : TR (Atom × Str) :=
  match s with
  | '\\' :: c :: r => if isAsciiAlnum c then .err .outside else .ok (.chr ⟨c, true⟩, r)
  | '.' :: r => .ok (.any, r)
  | '[' :: r =>
    let (neg, body) := match r with
      | '^' :: b => (true, b)
      | b => (false, b)
    (match parseSetLoop (body.length + 1) body [] with
     | .err e => .err e
     | .ok (items, r1) => .ok (.set neg items, r1))
  | c :: r =>
    if isQuant c || c == '(' || c == ')' || c == '|' || c == '{' || c == '^' || c == '$' || c == '\\' then .err .outside
    else .ok (.chr ⟨c, false⟩, r)
  | [] => .err .outside

/-- the body of `(?:…)`: atoms, each optionally followed by `+`, up to the closing `)` -/
def parseGroupBody : Nat → Str → List GItem → TR (List GItem × Str)
  | 0, _, _ => .err .outside
  | fuel + 1, s, acc =>
    match s with
    | ')' :: r => .ok (acc.reverse, r)
    | _ =>
      match parseAtom s with
      | .err e => .err e
      | .ok (a, r) =>
        match r with
        | '+' :: r' =>
          (match r' with
           | '?' :: _ => .err .outside
           | '+' :: _ => .err .outside
           | _ => parseGroupBody fuel r' (.plus a :: acc))
        | '*' :: _ => .err .outside
        | '?' :: _ => .err .outside
        | _ => parseGroupBody fuel r (.one a :: acc)

def parseItems : Nat → Str → List Item → TR (List Item)
  | 0, _, _ => .err .outside
  | fuel + 1, s, acc =>
    match s with
    | [] => .ok acc.reverse
    | '^' :: r => parseItems fuel r (.bol :: acc)
    | '$' :: r => parseItems fuel r (.eol :: acc)
    | '\\' :: [] => .err .reError
    | '\\' :: c :: r =>
      if c == 'Z' then parseItems fuel r (.endZ :: acc)
      else if isAsciiAlnum c then .err .outside
      else match quantify (.chr ⟨c, true⟩) r with
        | .err e => .err e
        | .ok (it, r') => parseItems fuel r' (it :: acc)
    | '.' :: r =>
      (match quantify .any r with
       | .err e => .err e
       | .ok (it, r') => parseItems fuel r' (it :: acc))
    | '[' :: r =>
      let (neg, body) := match r with
        | '^' :: b => (true, b)
        | b => (false, b)
      (match parseSetLoop (body.length + 1) body [] with
       | .err e => .err e
       | .ok (items, r1) =>
         match quantify (.set neg items) r1 with
         | .err e => .err e
         | .ok (it, r') => parseItems fuel r' (it :: acc))
    | '(' :: '?' :: '!' :: r =>
      (match parseAtom r with
       | .err e => .err e
       | .ok (a, r1) =>
         match r1 with
         | ')' :: r2 =>
           (match r2 with
            | q :: _ => if isQuant q then .err .outside else parseItems fuel r2 (.notAhead a :: acc)
            | [] => parseItems fuel r2 (.notAhead a :: acc))
         | _ => .err .outside)
    | '(' :: '?' :: ':' :: r =>
      (match parseGroupBody (r.length + 1) r [] with
       | .err e => .err e
       | .ok (body, r1) =>
         match r1 with
         | '*' :: r2 =>
           (match r2 with
            | q :: _ => if isQuant q then .err .outside else parseItems fuel r2 (.starGroup body :: acc)
            | [] => parseItems fuel r2 (.starGroup body :: acc))
         | _ => .err .outside)
    | c :: r =>
      if isQuant c then .err .reError          -- nothing to repeat / multiple repeat
      else if c == '(' || c == ')' || c == '|' || c == '{' then .err .outside
      else match quantify (.chr ⟨c, false⟩) r with
        | .err e => .err e
        | .ok (it, r') => parseItems fuel r' (it :: acc)

/-- letters of a leading `(?ims)` group -/
def parseInline : Str → TR (List Char × Str)
  | '(' :: '?' :: r =>
    let letters := r.takeWhile (fun c => c == 'i' || c == 'm' || c == 's')
    match r.drop letters.length with
    | ')' :: rest => if letters.isEmpty then .err .outside else .ok (letters, rest)
    | _ => .err .outside
  | s => .ok ([], s)

/-- `re.compile(text, re.IGNORECASE if ic else 0)` -/
def parse (text : Str) (ic : Bool) : TR Regex :=
  match parseInline text with
  | .err e => .err e
  | .ok (inl, rest) =>
    match parseItems (rest.length + 1) rest [] with
    | .err e => .err e
    | .ok items => .ok { inline := inl, ic := ic, items := items }

end Fs.Regex
