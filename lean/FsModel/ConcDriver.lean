/-
  Driver commands of C08 (concurrency model).

  conc.impl                       → `removedir=<0|1> move=<0|1> writebytes=<0|1> readbytes=<0|1>` (from the generated table)
  conc.shape <cls> <method>       → shape of the (inherited) method in the generated table, or `missing`
  conc.runs <impl> <tree> <call> / <call> / …
        <impl> = `T` (table) or four bits removedir,move,writebytes,readbytes
        → every maximal schedule of the segment-level model:
          `<sched> | <done> | <deadlocked> | <lin> | <out> , <out> … | <tree>` joined by ` ; `
  conc.sched <impl> <tree> <sched> <call> / …   → the same for one given schedule (`bad-schedule` if not executable)
  lru.runs <prog> / <prog> … @ <cache>          → every maximal schedule of the LRUCache machine:
          prog = `get k` | `set cap k v` | `match cap k compiled` | `lookup k compiled`; cache = `k=v,k=v` or `-`
          `<sched> | <raised bits> | <vals> | <cache>` joined by ` ; `
-/
import FsModel.Conc
import FsModel.Generated.LockTable
import FsModel.RefDriver

namespace Fs.Conc

/-- the implementation description the model runs with, computed from the generated table -/
def tableImpl : Impl :=
  Impl.ofShapes (Lock.shapeOf Generated.lockTable Generated.lockBases "MemoryFS" "removedir")
    (Lock.shapeOf Generated.lockTable Generated.lockBases "MemoryFS" "move")
    (Lock.shapeOf Generated.lockTable Generated.lockBases "MemoryFS" "writebytes")
    (Lock.shapeOf Generated.lockTable Generated.lockBases "MemoryFS" "readbytes")

end Fs.Conc

namespace Fs.ConcDriver
open Fs Fs.Ref Fs.Conc Fs.Proto

def shapeName : Lock.Shape → String
  | .noShared => "noShared" | .singleLocked => "singleLocked" | .singleCall => "singleCall"
  | .multi => "multi" | .unknown => "unknown"

def parseImpl (s : String) : Option Impl :=
  if s == "T" then some tableImpl
  else match s.toList with
    | [a, b, c, d] => some { removedirAtomic := a == '1', moveAtomic := b == '1',
                             writebytesAtomic := c == '1', readbytesAtomic := d == '1' }
    | _ => none

def splitOnTok (tok : String) (l : List String) : List (List String) :=
  let rec go (cur : List String) (acc : List (List String)) : List String → List (List String)
    | [] => (cur.reverse :: acc).reverse
    | x :: xs => if x == tok then go [] (cur.reverse :: acc) xs else go (x :: cur) acc xs
  go [] [] l

def outStr : Option Out → String
  | none => "none"
  | some o => res RefDriver.valStr o

def schedStr (s : List Nat) : String := if s.isEmpty then "-" else ".".intercalate (s.map toString)

def runStr (calls : List Op) (s : State) (r : List Nat × Cfg State Loc) : String :=
  schedStr r.1 ++ " | " ++ boolStr r.2.done ++ " | " ++ boolStr r.2.deadlocked ++ " | " ++
    boolStr (r.2.done && linOk calls s r.2) ++ " | " ++ " , ".intercalate (r.2.locs.map fun l => outStr l.out) ++
    " | " ++ RefDriver.dumpTree r.2.sh.root

def parseSched (s : String) : Option (List Nat) :=
  if s == "-" then some [] else (s.splitOn ".").mapM String.toNat?

def parseCache (s : String) : Option Lru.Cache :=
  if s == "-" then some [] else (s.splitOn ",").mapM fun kv =>
    match kv.splitOn "=" with
    | [k, v] => do pure ((← k.toNat?), (← v.toNat?))
    | _ => none

def parseLruProg : List String → Option (List (Instr Lru.Cache Lru.LLoc))
  | ["get", k] => do pure (Lru.getitem (← k.toNat?))
  | ["set", cap, k, v] => do pure (Lru.setitem (← cap.toNat?) (← k.toNat?) (← v.toNat?))
  | ["match", cap, k, v] => do pure (Lru.matchCall (← cap.toNat?) (← k.toNat?) (← v.toNat?))
  | ["lookup", k, v] => do pure (Lru.lookupCall (← k.toNat?) (← v.toNat?))
  | _ => none

def cacheStr (c : Lru.Cache) : String :=
  if c.isEmpty then "-" else ",".intercalate (c.map fun (k, v) => toString k ++ "=" ++ toString v)

def handle (cmd : String) (args : List String) : Option String :=
  match cmd with
  | "conc.impl" =>
    some ("removedir=" ++ boolStr tableImpl.removedirAtomic ++ " move=" ++ boolStr tableImpl.moveAtomic ++
      " writebytes=" ++ boolStr tableImpl.writebytesAtomic ++ " readbytes=" ++ boolStr tableImpl.readbytesAtomic)
  | "conc.shape" => do
    let c ← args[0]?
    let m ← args[1]?
    match Lock.resolve Generated.lockTable Generated.lockBases 8 c m with
    | some e => some (shapeName e.shape ++ " " ++ e.cls)
    | none => some "missing"
  | "conc.runs" => do
    let impl ← parseImpl (← args[0]?)
    let t ← RefDriver.loadTree (← args[1]?)
    let calls ← (splitOnTok "/" (args.drop 2)).mapM RefDriver.parseOp
    let s : State := { root := t, closed := false }
    let rs := (initCfg impl s calls).allRuns
    some (" ; ".intercalate (rs.map (runStr calls s)))
  | "conc.sched" => do
    let impl ← parseImpl (← args[0]?)
    let t ← RefDriver.loadTree (← args[1]?)
    let sched ← parseSched (← args[2]?)
    let calls ← (splitOnTok "/" (args.drop 3)).mapM RefDriver.parseOp
    let s : State := { root := t, closed := false }
    match (initCfg impl s calls).exec sched with
    | some c => some (runStr calls s (sched, c))
    | none => some "bad-schedule"
  | "lru.runs" => do
    match splitOnTok "@" args with
    | [progsTok, [cacheTok]] =>
      let progs ← (splitOnTok "/" progsTok).mapM parseLruProg
      let cache ← parseCache cacheTok
      let c := Cfg.init cache (progs.map fun _ => ({} : Lru.LLoc)) progs
      some (" ; ".intercalate (c.allRuns.map fun r =>
        schedStr r.1 ++ " | " ++ String.ofList (r.2.locs.map fun l => if l.raised then '1' else '0') ++ " | " ++
        ",".intercalate (r.2.locs.map fun l => match l.val with | some v => toString v | none => "-") ++ " | " ++
        cacheStr r.2.sh))
    | _ => none
  | _ => none

end Fs.ConcDriver
