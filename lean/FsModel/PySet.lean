/-
  FsModel.PySet — a Python `set` of strings in generated code (harness/extract/permgen.py).

  The set is a `List Str` whose order and multiplicity are NOT observable: the translator only emits
  membership-style observers (`in`, `issuperset`, `issubset`, `sorted`) and refuses iteration and `len`.
  `update`/`add` append, `difference_update` filters, a set comprehension is `filter` + `map` — the same
  representation the hand model `Fs.Info.Permissions` uses, so the equalities of `PermGenEq` are about the
  same lists, and extensional equality of the observers follows (`InfoLaws.permissions_set_ops`).
  `sorted(s)` is `FtpParse.sortedSet` (strictly increasing by code point), the one `Permissions.dump` uses.
-/
import FsModel.PyStr
import FsModel.FtpParse

namespace Fs.PySet
open Fs

/-- `s.difference_update(xs)` -/
def pySetDiff (s xs : List Str) : List Str := s.filter fun n => !xs.contains n

/-- `sorted(s)` for a set (or list) of strings: duplicates collapse, code-point order -/
abbrev pySorted (s : List Str) : List Str := FtpParse.sortedSet s

/-- `x or d` for an optional string `x` (`None` and `""` are both false) -/
def pyOrOpt (x : Option Str) (d : Str) : Str :=
  match x with
  | some s => if s.isEmpty then d else s
  | none => d

/-- `l[i] = v`; `IndexError` outside the range (negative indices count from the end) -/
def pySetItem (l : List α) (i : Int) (v : α) : Res (List α) :=
  if i < 0 then
    (if i.natAbs ≤ l.length then .ok (l.set (l.length - i.natAbs) v) else .err .IndexError)
  else
    (if i.toNat < l.length then .ok (l.set i.toNat v) else .err .IndexError)

end Fs.PySet
