/-
  FsModel.FtpParse — the FTP LIST parsers of `fs/_ftp_parse.py` and the MLSD / FEAT parsing of
  `fs/ftpfs.py`, transcribed over `Str = List Char`.

  * `RE_LINUX`, `RE_WINDOWSNT` are written as the explicit tokenisers they denote.  Every
    quantifier in them is followed by a construct whose first character class is disjoint from
    the repeated one (`\s` vs `\d`, `\w`, `[A-Za-z0-9…]`; `\S` vs `\s`), so lazy/greedy makes no
    difference and each repetition is a maximal run; the final `\s+(.*?)$` / `\s+(.*)$` take the
    maximal whitespace run and then need the remainder to be free of `\n` except for one final
    `\n` (which `$` leaves out).
  * `time.strptime` for the four formats used (`%b %d %Y`, `%b %d %H:%M`, `%d-%m-%y %I:%M%p`,
    `%d-%m-%y %H:%M`) is modelled from the regular expressions `_strptime` builds in the C locale
    plus its date validation; `calendar.timegm` / `datetime - EPOCH` are days-from-civil
    arithmetic.
  * character classes (`\s`, `\d`, `\w`, `str.isdigit`, `str.lower`, `str.splitlines`) are exact
    for U+0000–U+00FF; above that `\s`/`strip` is exact (the Unicode white-space list), `\d`,
    `isdigit` are false, `lower` is the identity and `\w` holds on a few letter blocks only
    (see `isWord`) — the harness checks this table against Python at start-up and generates only
    characters on which it is exact.
  * `unicodedata.normalize("NFC", name)` is external: the model returns the un-normalised name and
    the harness applies NFC to it before comparing.
  * helpers that can raise `ValueError` in Python (`int` beyond the digit limit, `calendar.timegm`,
    `datetime(...)`) return `Res`; the callers' `try … except ValueError` are transcribed, and the
    property theorems show that no error reaches `parse_line`, `parse`, `_parse_mlsx`.
-/
import FsModel.Basic
import FsModel.Path
import FsModel.Parse

namespace Fs.FtpParse
open Fs Fs.Path Fs.Parse

/-! ### character classes -/

/-- `\s`, `str.isspace`, what `str.strip()` removes -/
abbrev isSpace (c : Char) : Bool := isPySpace c

/-- `\d` (ASCII digits; no other decimal digit exists below U+0100) -/
def isDigit (c : Char) : Bool := 48 ≤ c.toNat && c.toNat ≤ 57

/-- `\w` for `str` patterns: exact below U+0100, a few letter blocks above -/
def isWord (c : Char) : Bool :=
  let n := c.toNat
  isAlnumAscii c || n == 95 ||
  n == 170 || n == 178 || n == 179 || n == 181 || n == 185 || n == 186 ||
  n == 188 || n == 189 || n == 190 ||
  (192 ≤ n && n ≤ 214) || (216 ≤ n && n ≤ 246) || (248 ≤ n && n ≤ 255) ||
  (0x391 ≤ n && n ≤ 0x3A1) || (0x3A3 ≤ n && n ≤ 0x3C9) || (0x410 ≤ n && n ≤ 0x44F) ||
  (0x3041 ≤ n && n ≤ 0x3096) || (0x4E00 ≤ n && n ≤ 0x9FFF)

/-- `str.isdigit()` per character (includes superscript digits) -/
def isDigitProp (c : Char) : Bool :=
  isDigit c || c.toNat == 178 || c.toNat == 179 || c.toNat == 185

/-- `str.lower()` per character (ASCII and Latin-1) -/
def lowerChar (c : Char) : Char :=
  let n := c.toNat
  if (65 ≤ n && n ≤ 90) || (192 ≤ n && n ≤ 214) || (216 ≤ n && n ≤ 222) then Char.ofNat (n + 32)
  else c

def lower (s : Str) : Str := s.map lowerChar

def lstrip (s : Str) : Str := s.dropWhile isSpace
def rstrip (s : Str) : Str := (s.reverse.dropWhile isSpace).reverse
/-- `s.strip()` -/
def strip (s : Str) : Str := rstrip (lstrip s)

/-- maximal non-empty run of characters satisfying `p` at the start of `s` -/
def run1 (p : Char → Bool) (s : Str) : Option (Str × Str) :=
  match s.takeWhile p with
  | [] => none
  | t => some (t, s.dropWhile p)

/-- value of a string of ASCII digits -/
def natOfDigits (s : Str) : Nat := s.foldl (fun acc c => acc * 10 + (c.toNat - 48)) 0

/-- `sys.get_int_max_str_digits()` -/
def maxStrDigits : Nat := 4300

/-- `int(s)` for a string matched by `\d+`: `ValueError` beyond the digit limit -/
def intOfDigits (s : Str) : Res Nat :=
  if s.length > maxStrDigits then .err .ValueError else .ok (natOfDigits s)

/-! ### `int(str)` on arbitrary text -/

/-- white space accepted around the number by `int()`: ASCII `\t\n\v\f\r` and space, and every
    non-ASCII Unicode space (but not U+001C–U+001F) -/
def isIntSpace (c : Char) : Bool :=
  let n := c.toNat
  (9 ≤ n && n ≤ 13) || n == 32 || (128 ≤ n && isSpace c)

/-- digits with single underscores between them: `d(_?d)*`; returns the digits -/
def intBody : Str → Option Str
  | [] => none
  | [c] => if isDigit c then some [c] else none
  | c :: d :: rest =>
    if isDigit c then
      if d = '_' then (intBody rest).map (c :: ·)
      else (intBody (d :: rest)).map (c :: ·)
    else none

/-- optional sign of an `int()` literal -/
def splitSign : Str → Bool × Str
  | '-' :: r => (true, r)
  | '+' :: r => (false, r)
  | r => (false, r)

/-- `int(s)`: `none` = `ValueError` -/
def pyInt (s : Str) : Option Int :=
  let t := ((s.dropWhile isIntSpace).reverse.dropWhile isIntSpace).reverse
  let sb := splitSign t
  match intBody sb.2 with
  | none => none
  | some ds =>
    if ds.length > maxStrDigits then none
    else some (if sb.1 then - (natOfDigits ds : Int) else (natOfDigits ds : Int))

/-! ### calendar arithmetic -/

def isLeap (y : Nat) : Bool := y % 4 == 0 && (y % 100 != 0 || y % 400 == 0)

def daysInMonth (y m : Nat) : Nat :=
  if m == 2 then (if isLeap y then 29 else 28)
  else if m == 4 || m == 6 || m == 9 || m == 11 then 30 else 31

/-- `datetime.date(y, m, d)` is constructible -/
def validDate (y m d : Nat) : Bool :=
  1 ≤ y && y ≤ 9999 && 1 ≤ m && m ≤ 12 && 1 ≤ d && d ≤ daysInMonth y m

/-- days from 1970-01-01 to the civil date `y-m-d` (proleptic Gregorian; `y ≥ 1`, `1 ≤ m ≤ 12`) -/
def daysFromCivil (y m d : Nat) : Int :=
  let y' := if m ≤ 2 then y - 1 else y
  let era := y' / 400
  let yoe := y' % 400
  let mp := (m + 9) % 12
  let doy := (153 * mp + 2) / 5 + d - 1
  let doe := yoe * 365 + yoe / 4 - yoe / 100 + doy
  ((era * 146097 + doe : Nat) : Int) - 719468

/-- inverse of `daysFromCivil` for days on or after 0001-03-01 given as offset `z ≥ 0` from
    0000-03-01 (`z = days + 719468`) -/
def civilFromDays (days : Int) : Nat × Nat × Nat :=
  let z := (days + 719468).toNat
  let era := z / 146097
  let doe := z % 146097
  let yoe := (doe - doe / 1460 + doe / 36524 - doe / 146096) / 365
  let doy := doe - (365 * yoe + yoe / 4 - yoe / 100)
  let mp := (5 * doy + 2) / 153
  let d := doy - (153 * mp + 2) / 5 + 1
  let m := if mp < 10 then mp + 3 else mp - 9
  let y := yoe + era * 400
  (if m ≤ 2 then y + 1 else y, m, d)

/-- seconds since the epoch of a civil UTC time -/
def epochOf (y m d h mi s : Nat) : Int :=
  daysFromCivil y m d * 86400 + (h * 3600 + mi * 60 + s : Nat)

/-! ### `time.strptime` for the formats used, and `_parse_time` -/

def monthTable : List Str :=
  [['j','a','n'], ['f','e','b'], ['m','a','r'], ['a','p','r'], ['m','a','y'], ['j','u','n'],
   ['j','u','l'], ['a','u','g'], ['s','e','p'], ['o','c','t'], ['n','o','v'], ['d','e','c']]

/-- `%b` (C locale, IGNORECASE): month number -/
def monthOf (tok : Str) : Option Nat :=
  (monthTable.idxOf? (tok.map fun c => if 65 ≤ c.toNat && c.toNat ≤ 90 then Char.ofNat (c.toNat + 32) else c)).map (· + 1)

def allDigits (s : Str) : Bool := s.all isDigit

/-- a 1- or 2-digit field: one digit must be ≥ `lo1`, two digits must lie in `[lo2, hi2]` -/
def field12 (lo1 lo2 hi2 : Nat) (s : Str) : Option Nat :=
  if allDigits s then
    let v := natOfDigits s
    if s.length == 1 then (if lo1 ≤ v then some v else none)
    else if s.length == 2 then (if lo2 ≤ v && v ≤ hi2 then some v else none)
    else none
  else none

/-- `%d` : `3[0-1]|[1-2]\d|0[1-9]|[1-9]` -/
def dayField := field12 1 1 31
/-- `%m`, `%I` : `1[0-2]|0[1-9]|[1-9]` -/
def monField := field12 1 1 12
/-- `%H` : `2[0-3]|[0-1]\d|\d` -/
def hourField := field12 0 0 23
/-- `%M` : `[0-5]\d|\d` -/
def minField := field12 0 0 59

/-- `wsTokens` worker: `cur` is the current token (reversed, non-empty), `inWs` says whether a
    white-space run has started after it -/
def wsTokGo : Str → Bool → Str → Option (List Str)
  | cur, inWs, [] => if inWs then none else some [cur.reverse]
  | cur, inWs, x :: xs =>
    if isSpace x then wsTokGo cur true xs
    else if inWs then (wsTokGo [x] false xs).map (cur.reverse :: ·)
    else wsTokGo (x :: cur) false xs

/-- split on maximal white-space runs; `none` when the text starts or ends with white space or
    is empty (the strptime regexes are anchored and must consume everything) -/
def wsTokens : Str → Option (List Str)
  | [] => none
  | c :: rest => if isSpace c then none else wsTokGo [c] false rest

structure Tm where
  year : Option Nat      -- `none`: the format has no year (strptime reports 1900)
  month : Nat
  day : Nat
  hour : Nat
  minute : Nat
  deriving DecidableEq, Repr

/-- strptime's own date validation (`datetime_date(year, month, day)`; a missing year is 1900,
    or 1904 for Feb 29) -/
def tmValid (t : Tm) : Bool :=
  match t.year with
  | some y => validDate y t.month t.day
  | none => if t.month == 2 && t.day == 29 then true else validDate 1900 t.month t.day

/-- `"%b %d %Y"` -/
def strpBdY (t : Str) : Option Tm :=
  match wsTokens t with
  | some [mon, day, yr] =>
    match monthOf mon, dayField day with
    | some m, some d =>
      if yr.length == 4 && allDigits yr then
        let tm : Tm := ⟨some (natOfDigits yr), m, d, 0, 0⟩
        if tmValid tm then some tm else none
      else none
    | _, _ => none
  | _ => none

/-- `"%b %d %H:%M"` -/
def strpBdHM (t : Str) : Option Tm :=
  match wsTokens t with
  | some [mon, day, hm] =>
    match monthOf mon, dayField day with
    | some m, some d =>
      let p := partition ':' hm
      if p.2.1 then
        match hourField p.1, minField p.2.2 with
        | some h, some mi =>
          let tm : Tm := ⟨none, m, d, h, mi⟩
          if tmValid tm then some tm else none
        | _, _ => none
      else none
    | _, _ => none
  | _ => none

/-- the ` [1-9]` alternative of `%d` at the very start of the text -/
def dropDaySpace : Str → Option Str
  | ' ' :: c :: '-' :: rest => if 49 ≤ c.toNat && c.toNat ≤ 57 then some (c :: '-' :: rest) else none
  | ' ' :: _ => none
  | s => some s

/-- `%d-%m-%y` on one token -/
def dmy (tok : Str) : Option (Nat × Nat × Nat) :=
  match splitOn '-' tok with
  | [d, m, y] =>
    match dayField d, monField m with
    | some dv, some mv =>
      if y.length == 2 && allDigits y then
        let yv := natOfDigits y
        some (if yv ≤ 68 then 2000 + yv else 1900 + yv, mv, dv)
      else none
    | _, _ => none
  | _ => none

/-- `"%d-%m-%y %I:%M%p"` -/
def strpNt12 (t : Str) : Option Tm :=
  match dropDaySpace t with
  | none => none
  | some t' =>
    match wsTokens t' with
    | some [date, tim] =>
      match dmy date with
      | some (y, m, d) =>
        let p := partition ':' tim
        if p.2.1 then
          let mins := p.2.2.takeWhile isDigit
          let ampm := (p.2.2.dropWhile isDigit).map fun c =>
            if 65 ≤ c.toNat && c.toNat ≤ 90 then Char.ofNat (c.toNat + 32) else c
          match monField p.1, minField mins with
          | some h, some mi =>
            let hour? : Option Nat :=
              if ampm = ['a', 'm'] then some (if h == 12 then 0 else h)
              else if ampm = ['p', 'm'] then some (if h == 12 then 12 else h + 12)
              else none
            match hour? with
            | some hh =>
              let tm : Tm := ⟨some y, m, d, hh, mi⟩
              if tmValid tm then some tm else none
            | none => none
          | _, _ => none
        else none
      | none => none
    | _ => none

/-- `"%d-%m-%y %H:%M"` -/
def strpNt24 (t : Str) : Option Tm :=
  match dropDaySpace t with
  | none => none
  | some t' =>
    match wsTokens t' with
    | some [date, tim] =>
      match dmy date with
      | some (y, m, d) =>
        let p := partition ':' tim
        if p.2.1 then
          match hourField p.1, minField p.2.2 with
          | some h, some mi =>
            let tm : Tm := ⟨some y, m, d, h, mi⟩
            if tmValid tm then some tm else none
          | _, _ => none
        else none
      | none => none
    | _ => none

/-- `year = _t.tm_year if _t.tm_year != 1900 else time.localtime().tm_year` -/
def substYear (currentYear : Nat) : Option Nat → Nat
  | none => currentYear
  | some y => if y = 1900 then currentYear else y

/-- the tail of `_parse_time`: substitute the current year for 1900 / a missing year, build the
    `datetime` (which raises `ValueError` for Feb 29 of a non-leap current year) and subtract the
    epoch. -/
def finishTime (currentYear : Nat) (t : Option Tm) : Res (Option Int) :=
  match t with
  | none => .ok none
  | some tm =>
    let y := substYear currentYear tm.year
    if validDate y tm.month tm.day then .ok (some (epochOf y tm.month tm.day tm.hour tm.minute 0))
    else .ok none      -- `except ValueError: return None` around `datetime(...)`

/-- `_decode_linux_time(mtime)` -/
def decodeLinuxTime (currentYear : Nat) (t : Str) : Res (Option Int) :=
  finishTime currentYear (match strpBdY t with | some tm => some tm | none => strpBdHM t)

/-- `_decode_windowsnt_time(mtime)` -/
def decodeNtTime (currentYear : Nat) (t : Str) : Res (Option Int) :=
  finishTime currentYear (match strpNt12 t with | some tm => some tm | none => strpNt24 t)

/-! ### `Permissions.parse(perms).dump()` -/

def ltStr : Str → Str → Bool
  | [], [] => false
  | [], _ :: _ => true
  | _ :: _, [] => false
  | a :: as, b :: bs => a.toNat < b.toNat || (a == b && ltStr as bs)

/-- insert into a sorted duplicate-free list (set + `sorted`) -/
def insertSorted (x : Str) : List Str → List Str
  | [] => [x]
  | y :: ys => if x = y then y :: ys else if ltStr x y then x :: y :: ys else y :: insertSorted x ys

def sortedSet (l : List Str) : List Str := l.foldr insertSorted []

/-- `Permissions.parse(ls).dump()`: names `u_*`, `g_*`, `o_*` for every non-`-` character of
    `ls[:3]`, `ls[3:6]`, `ls[6:9]`, as a sorted set -/
def permNames (ls : Str) : List Str :=
  let grp (pre : Char) (s : Str) : List Str := (s.filter (· != '-')).map fun p => [pre, '_', p]
  sortedSet (grp 'u' (ls.take 3) ++ grp 'g' ((ls.drop 3).take 3) ++ grp 'o' ((ls.drop 6).take 3))

/-! ### what a decoder returns -/

structure ListInfo where
  name : Str
  isDir : Bool
  size : Option Nat
  modified : Option Int
  perms : Option (List Str)
  user : Option Str
  group : Option Str
  ls : Str
  deriving DecidableEq, Repr

/-! ### RE_LINUX -/

structure LinuxGroups where
  ty : Char
  perms : Str
  links : Str
  uid : Str
  gid : Str
  size : Str
  mtime : Str
  name : Str
  deriving DecidableEq, Repr

def isAlnumA := isAlnumAscii
/-- `[A-Za-z0-9\-\.\_\@]` -/
def isIdChar (c : Char) : Bool := isAlnumAscii c || c == '-' || c == '.' || c == '_' || c == '@'

/-- `[A-Za-z0-9][A-Za-z0-9\-\.\_\@]*\$?` -/
def idTok (s : Str) : Option (Str × Str) :=
  match s with
  | c :: rest =>
    if isAlnumAscii c then
      let body := c :: rest.takeWhile isIdChar
      match rest.dropWhile isIdChar with
      | '$' :: r => some (body ++ ['$'], r)
      | r => some (body, r)
    else none
  | [] => none

/-- the nine permission characters by position, plus the optional `.`/`+` -/
def permTok (s : Str) : Option (Str × Str) :=
  match s with
  | a :: b :: c :: d :: e :: f :: g :: h :: i :: rest =>
    let r (x : Char) := x == 'r' || x == '-'
    let w (x : Char) := x == 'w' || x == '-'
    let x1 (x : Char) := x == 'x' || x == 's' || x == 'S' || x == '-'
    let x2 (x : Char) := x == 'x' || x == 't' || x == 'T' || x == '-'
    if r a && w b && x1 c && r d && w e && x1 f && r g && w h && x2 i then
      match rest with
      | '.' :: r' => some ([a, b, c, d, e, f, g, h, i, '.'], r')
      | '+' :: r' => some ([a, b, c, d, e, f, g, h, i, '+'], r')
      | _ => some ([a, b, c, d, e, f, g, h, i], rest)
    else none
  | _ => none

/-- the final `\s+(.*)$`: after the maximal white-space run the remainder, minus one final line
    feed, must not contain a line feed -/
def nameTok (s : Str) : Option Str :=
  match run1 isSpace s with
  | none => none
  | some (_, rest) =>
    let name := dropFinalNl rest
    if has '\n' name then none else some name

/-- `[-dlpscbD]` -/
def isTypeChar (c : Char) : Bool := ['-', 'd', 'l', 'p', 's', 'c', 'b', 'D'].contains c

/-- `RE_LINUX.match(line)` -/
def reLinux (line : Str) : Option LinuxGroups :=
  match line with
  | [] => none
  | ty :: s0 =>
    if !isTypeChar ty then none else
    match permTok s0 with
    | none => none
    | some (perms, s1) =>
    match run1 isSpace s1 with
    | none => none
    | some (_, s2) =>
    match run1 isDigit s2 with
    | none => none
    | some (links, s3) =>
    match run1 isSpace s3 with
    | none => none
    | some (_, s4) =>
    match idTok s4 with
    | none => none
    | some (uid, s5) =>
    match run1 isSpace s5 with
    | none => none
    | some (_, s6) =>
    match idTok s6 with
    | none => none
    | some (gid, s7) =>
    match run1 isSpace s7 with
    | none => none
    | some (_, s8) =>
    match run1 isDigit s8 with
    | none => none
    | some (size, s9) =>
    match run1 isSpace s9 with
    | none => none
    | some (_, s10) =>
    -- `\w{3}\s+\d{1,2}\s+[\w:]+`
    match s10 with
    | m1 :: m2 :: m3 :: s11 =>
      if !(isWord m1 && isWord m2 && isWord m3) then none else
      match run1 isSpace s11 with
      | none => none
      | some (w1, s12) =>
      match run1 isDigit s12 with
      | none => none
      | some (day, s13) =>
      if day.length > 2 then none else
      match run1 isSpace s13 with
      | none => none
      | some (w2, s14) =>
      match run1 (fun c => isWord c || c == ':') s14 with
      | none => none
      | some (last, s15) =>
      match nameTok s15 with
      | none => none
      | some name =>
        some ⟨ty, perms, links, uid, gid, size, [m1, m2, m3] ++ w1 ++ day ++ w2 ++ last, name⟩
    | _ => none

/-- `s.partition("->")` -/
def partitionArrow : Str → Str × Bool × Str
  | [] => ([], false, [])
  | '-' :: '>' :: rest => ([], true, rest)
  | c :: rest =>
    let r := partitionArrow rest
    (c :: r.1, r.2.1, r.2.2)

/-- `decode_linux(line, match)` -/
def decodeLinux (currentYear : Nat) (line : Str) (g : LinuxGroups) : Res ListInfo :=
  let isLink := g.ty == 'l'
  let isDir := g.ty == 'd' || isLink
  let name := if isLink then strip (partitionArrow g.name).1 else g.name
  match decodeLinuxTime currentYear g.mtime with
  | .err e => .err e
  | .ok mt =>
    match intOfDigits g.size with
    | .err e => .err e
    | .ok sz =>
      .ok ⟨name, isDir, some sz, mt, some (permNames g.perms), some g.uid, some g.gid, line⟩

/-! ### RE_WINDOWSNT -/

structure NtGroups where
  date : Str
  time : Str
  size : Option Str      -- `none` = `<DIR>`
  name : Str
  deriving DecidableEq, Repr

/-- `RE_WINDOWSNT.match(line)` -/
def reNt (line : Str) : Option NtGroups :=
  match run1 (fun c => !isSpace c) line with
  | none => none
  | some (date, s1) =>
  match run1 isSpace s1 with
  | none => none
  | some (_, s2) =>
  match run1 (fun c => !isSpace c) s2 with
  | none => none
  | some (tim, s3) =>
  match run1 isSpace s3 with
  | none => none
  | some (_, s4) =>
    match s4 with
    | '<' :: 'D' :: 'I' :: 'R' :: '>' :: s5 =>
      (nameTok s5).map fun name => ⟨date, tim, none, name⟩
    | _ =>
      match run1 isDigit s4 with
      | none => none
      | some (size, s5) => (nameTok s5).map fun name => ⟨date, tim, some size, name⟩

/-- `int(match.group("size"))` unless the entry is a `<DIR>` -/
def ntSize : Option Str → Res (Option Nat)
  | none => .ok none
  | some ds =>
    match intOfDigits ds with
    | .ok n => .ok (some n)
    | .err e => .err e

/-- `decode_windowsnt(line, match)` -/
def decodeNt (currentYear : Nat) (line : Str) (g : NtGroups) : Res ListInfo :=
  match ntSize g.size with
  | .err e => .err e
  | .ok size =>
    match decodeNtTime currentYear (g.date ++ ' ' :: g.time) with
    | .err e => .err e
    | .ok mt => .ok ⟨g.name, g.size.isNone, size, mt, none, none, none, line⟩

/-- `try: return decode_callable(line, match)  except ValueError: return None` -/
def skipErr (r : Res ListInfo) : Res (Option ListInfo) :=
  match r with
  | .ok i => .ok (some i)
  | .err e => if e = .ValueError then .ok none else .err e

/-- `parse_line(line)`: first decoder whose regex matches; a line whose fields the decoder cannot
    convert is skipped -/
def parseLine (currentYear : Nat) (line : Str) : Res (Option ListInfo) :=
  match reLinux line with
  | some g => skipErr (decodeLinux currentYear line g)
  | none =>
    match reNt line with
    | some g => skipErr (decodeNt currentYear line g)
    | none => .ok none

/-- `parse(lines)` -/
def parse (currentYear : Nat) : List Str → Res (List ListInfo)
  | [] => .ok []
  | line :: rest =>
    if strip line = [] then parse currentYear rest
    else
      match parseLine currentYear line with
      | .err e => .err e
      | .ok r =>
        match parse currentYear rest with
        | .err e => .err e
        | .ok infos => .ok (match r with | some i => i :: infos | none => infos)

/-! ### MLSD / MLST facts (`fs/ftpfs.py`) -/

/-- `d[k] = v` on an insertion-ordered association list -/
def dictSet (k v : Str) : List (Str × Str) → List (Str × Str)
  | [] => [(k, v)]
  | (k', v') :: rest => if k' = k then (k', v) :: rest else (k', v') :: dictSet k v rest

def dictGet (k : Str) : List (Str × Str) → Option Str
  | [] => none
  | (k', v') :: rest => if k' = k then some v' else dictGet k rest

/-- one `;`-separated piece of the facts part: `key, sep, value = fact.partition("=")`;
    `if sep: facts[key.strip().lower()] = value.strip()` (a piece without `=` is ignored) -/
def factStep (d : List (Str × Str)) (fact : Str) : List (Str × Str) :=
  let p := partition '=' fact
  if p.2.1 then dictSet (lower (strip p.1)) (strip p.2.2) d else d

/-- `s.endswith(";")` -/
def endsWithSemi (s : Str) : Bool := s.getLast? == some ';'

/-- the name an entry's pathname denotes:
    `if pathname not in ("", "/"): name = basename(pathname.rstrip("/")) or None`, then
    `name if name not in (".", "..") else None` -/
def pathName (pathname : Str) : Option Str :=
  let name : Option Str :=
    if pathname = [] ∨ pathname = ['/'] then none
    else
      let b := basename (rstripSlash pathname)
      if b = [] then none else some b
  if name = some ['.'] ∨ name = some ['.', '.'] then none else name

/-- `not sep or (facts_text and not facts_text.endswith(";"))`: the text has no facts part -/
def noFactsPart (line : Str) : Bool :=
  let p := partition ' ' line
  !p.2.1 || (!p.1.isEmpty && !endsWithSemi p.1)

/-- `FTPFS._parse_facts(line)` (RFC 3659 7.2, `entry = [ facts ] SP pathname`): the line is cut at
    its first space; without a space, or when the text before it is non-empty and does not end
    with `;`, the whole line is the pathname and there are no facts -/
def parseFacts (line : Str) : Option Str × List (Str × Str) :=
  let p := partition ' ' line
  let noFacts : Bool := noFactsPart line
  let factsText : Str := if noFacts then [] else p.1
  let pathname : Str := if noFacts then line else p.2.2
  (pathName pathname, (splitOn ';' factsText).foldl factStep [])

/-- `calendar.timegm((y, m, d, h, mi, s))`: `ValueError` unless `date(y, m, 1)` exists -/
def timegm (y m d h mi s : Int) : Res Int :=
  if 1 ≤ y ∧ y ≤ 9999 ∧ 1 ≤ m ∧ m ≤ 12 then
    .ok ((daysFromCivil y.toNat m.toNat 1 + d - 1) * 86400 + h * 3600 + mi * 60 + s)
  else .err .ValueError

/-- `FTPFS._parse_ftp_time(time_text)` -/
def parseFtpTime (t : Str) : Res (Option Int) :=
  match pyInt (t.take 4), pyInt ((t.drop 4).take 2), pyInt ((t.drop 6).take 2),
        pyInt ((t.drop 8).take 2), pyInt ((t.drop 10).take 2), pyInt ((t.drop 12).take 2) with
  | some y, some m, some d, some h, some mi, some s =>
    match timegm y m d h mi s with
    | .ok v => .ok (some v)
    | .err e => if e = .ValueError then .ok none else .err e    -- `timegm` is inside the `try`
  | _, _, _, _, _, _ => .ok none

structure MlsdInfo where
  name : Str
  isDir : Bool
  facts : List (Str × Str)
  size : Nat
  modified : Option (Option Int)      -- key absent / present with value `None` or a number
  created : Option (Option Int)
  deriving DecidableEq, Repr

def kType : Str := ['t','y','p','e']
def kFile : Str := ['f','i','l','e']
def kDir : Str := ['d','i','r']
def kSize : Str := ['s','i','z','e']
def kSizd : Str := ['s','i','z','d']
def kModify : Str := ['m','o','d','i','f','y']
def kCreate : Str := ['c','r','e','a','t','e']

/-- the `size` computation of `_parse_mlsx`: `isdigit()` then `int()` -/
def mlsdSize (facts : List (Str × Str)) : Res Nat :=
  let sizeStr := (dictGet kSize facts).getD ((dictGet kSizd facts).getD ['0'])
  if sizeStr ≠ [] ∧ sizeStr.all isDigitProp then
    match pyInt sizeStr with
    | some n => .ok n.toNat
    | none => .ok 0      -- `except ValueError: size = 0`
  else .ok 0

/-- `details[...] = cls._parse_ftp_time(facts[k])` when the fact is present -/
def mlsdTime (facts : List (Str × Str)) (k : Str) : Res (Option (Option Int)) :=
  match dictGet k facts with
  | none => .ok none
  | some v =>
    match parseFtpTime v with
    | .ok t => .ok (some t)
    | .err e => .err e

/-- `[\r\n]` -/
def isEol (c : Char) : Bool := c == '\r' || c == '\n'

/-- `line.rstrip("\r\n")` -/
def rstripEol (s : Str) : Str := (s.reverse.dropWhile isEol).reverse

/-- `line[1:] if line.startswith(" ") else line` (the one space a MLST reply line starts with) -/
def dropLeadSpace : Str → Str
  | ' ' :: rest => rest
  | s => s

/-- one line of `_parse_mlsx`: `.ok none` = skipped -/
def parseMlsxLine (line : Str) : Res (Option MlsdInfo) :=
  let nf := parseFacts (dropLeadSpace (rstripEol line))
  match nf.1 with
  | none => .ok none
  | some name =>
    let facts := nf.2
    let ty := (dictGet kType facts).getD kFile
    if ty ≠ kDir ∧ ty ≠ kFile then .ok none
    else
      match mlsdSize facts with
      | .err e => .err e
      | .ok sz =>
        match mlsdTime facts kModify with
        | .err e => .err e
        | .ok mo =>
          match mlsdTime facts kCreate with
          | .err e => .err e
          | .ok cr => .ok (some ⟨name, ty = kDir, facts, sz, mo, cr⟩)

/-- `list(FTPFS._parse_mlsx(lines))` -/
def parseMlsx : List Str → Res (List MlsdInfo)
  | [] => .ok []
  | line :: rest =>
    match parseMlsxLine line with
    | .err e => .err e
    | .ok r =>
      match parseMlsx rest with
      | .err e => .err e
      | .ok infos => .ok (match r with | some i => i :: infos | none => infos)

/-! ### FEAT (`FTPFS._parse_features`) -/

def isLineBreak (c : Char) : Bool :=
  let n := c.toNat
  n == 10 || n == 11 || n == 12 || n == 13 || n == 0x1c || n == 0x1d || n == 0x1e || n == 0x85 ||
  n == 0x2028 || n == 0x2029

/-- `s.splitlines()` -/
def splitlines (s : Str) : List Str := go [] s
where
  go : Str → Str → List Str
    | cur, [] => if cur = [] then [] else [cur.reverse]
    | cur, '\r' :: '\n' :: rest => cur.reverse :: go [] rest
    | cur, c :: rest => if isLineBreak c then cur.reverse :: go [] rest else go (c :: cur) rest

/-- `FTPFS._parse_features(feat_response)` -/
def parseFeatures (resp : Str) : List (Str × Str) :=
  if (partition '-' resp).1 = ['2', '1', '1'] then
    (splitlines resp).foldl (fun d line =>
      match line with
      | ' ' :: body => let p := partition ' ' body; dictSet p.1 p.2.2 d
      | _ => d) []
  else []

/-! ### renderers (the inverse direction of the round-trip theorems) -/

/-- no character that `str.splitlines` breaks at -/
def NoBreak (s : Str) : Prop := ∀ c ∈ s, isLineBreak c = false

def featLine (kv : Str × Str) : Str := ' ' :: kv.1 ++ (if kv.2 = [] then [] else ' ' :: kv.2)

def featHead : Str := "211-Features:".toList
def featEnd : Str := "211 End".toList

/-- a FEAT reply listing `feats` (one ` NAME[ PARAMS]` line per feature) -/
def renderFeat (feats : List (Str × Str)) : Str :=
  featHead ++ '\n' :: feats.flatMap (fun kv => featLine kv ++ ['\n']) ++ featEnd

/-- decimal digit character of `n % 10` -/
def digitChar (n : Nat) : Char := Char.ofNat (48 + n % 10)
/-- zero-padded two / four digit fields -/
def pad2 (n : Nat) : Str := [digitChar (n / 10), digitChar n]
def pad4 (n : Nat) : Str := [digitChar (n / 1000), digitChar (n / 100), digitChar (n / 10), digitChar n]

/-- `YYYYMMDDHHMMSS` of MLSD `modify` / `create` facts -/
def stamp (y m d h mi s : Nat) : Str := pad4 y ++ pad2 m ++ pad2 d ++ pad2 h ++ pad2 mi ++ pad2 s

/-- an MLSD line `k1=v1;k2=v2;…; name` -/
def renderMlsd (facts : List (Str × Str)) (name : Str) : Str :=
  facts.flatMap (fun kv => kv.1 ++ '=' :: kv.2 ++ [';']) ++ ' ' :: name

def monNames : List Str :=
  [['J','a','n'], ['F','e','b'], ['M','a','r'], ['A','p','r'], ['M','a','y'], ['J','u','n'],
   ['J','u','l'], ['A','u','g'], ['S','e','p'], ['O','c','t'], ['N','o','v'], ['D','e','c']]

def monName (m : Nat) : Str := monNames.getD (m - 1) []

/-- the last field of the date of a unix LIST line -/
inductive LTime where
  | year (y : Nat)
  | clock (h mi : Nat)
  deriving DecidableEq, Repr

def renderLTime : LTime → Str
  | .year y => pad4 y
  | .clock h mi => pad2 h ++ ':' :: pad2 mi

/-- what a unix LIST line states -/
structure LinuxEntry where
  ty : Char
  perms : Str            -- nine characters
  suffix : Str           -- "", "." or "+"
  links : Str            -- digits
  uid : Str
  gid : Str
  size : Str             -- digits
  month : Nat
  day : Nat
  time : LTime
  name : Str
  target : Option Str    -- shown as `name -> target` (links)

def renderLinux (e : LinuxEntry) : Str :=
  e.ty :: (e.perms ++ (e.suffix ++ (' ' :: (e.links ++ (' ' :: (e.uid ++ (' ' :: (e.gid ++ (' ' ::
    (e.size ++ (' ' :: (monName e.month ++ (' ' :: (pad2 e.day ++ (' ' :: (renderLTime e.time ++
    (' ' :: (e.name ++ (match e.target with
      | none => []
      | some t => [' ', '-', '>', ' '] ++ t)))))))))))))))))))

/-- what a Windows NT LIST line states (24 h time, optionally shown with a 12 h clock) -/
structure NtEntry where
  day : Nat
  month : Nat
  yy : Nat               -- two-digit year
  hour : Nat
  minute : Nat
  twelve : Bool
  size : Option Str      -- `none` = `<DIR>`
  name : Str

def ntClock (e : NtEntry) : Str :=
  if e.twelve then
    pad2 (if e.hour % 12 = 0 then 12 else e.hour % 12) ++ ':' :: pad2 e.minute ++
      (if e.hour < 12 then ['A', 'M'] else ['P', 'M'])
  else pad2 e.hour ++ ':' :: pad2 e.minute

def renderNt (e : NtEntry) : Str :=
  (pad2 e.day ++ '-' :: pad2 e.month ++ '-' :: pad2 e.yy) ++ (' ' :: ' ' :: (ntClock e ++ (' ' :: ' ' ::
    ((match e.size with
      | none => ['<', 'D', 'I', 'R', '>']
      | some ds => ds) ++ (' ' :: e.name)))))

/-- `%y`: 00–68 → 20xx, 69–99 → 19xx -/
def fullYear (yy : Nat) : Nat := if yy ≤ 68 then 2000 + yy else 1900 + yy

/-! ### well-formedness predicates of the round-trip theorems -/

/-- `rest` is empty or starts with a character outside `p` (it does not continue a run of `p`) -/
def Stops (p : Char → Bool) (rest : Str) : Prop := ∀ c r, rest = c :: r → p c = false

/-- no leading and no trailing white space (`s.strip() == s`) -/
def Stripped (s : Str) : Prop := Stops isSpace s ∧ Stops isSpace s.reverse

def factStr (kv : Str × Str) : Str := kv.1 ++ '=' :: kv.2

/-- one fact a line can state: RFC 3659 `fact = factname "=" value`, `value = *SCHAR` — neither
    part contains `;` (it ends the fact) or a space (the first space ends the facts part), the key
    contains no `=` (the value may: `type=OS.unix=slink:/target`), and neither has outer white
    space of any kind (the code `strip()`s both) -/
structure WFFact (kv : Str × Str) : Prop where
  k_eq : '=' ∉ kv.1
  k_semi : ';' ∉ kv.1
  k_sp : ' ' ∉ kv.1
  v_semi : ';' ∉ kv.2
  v_sp : ' ' ∉ kv.2
  k_strip : Stripped kv.1
  v_strip : Stripped kv.2

/-- the names an entry can state verbatim: everything except the empty name, names containing
    `/` (the entry's text is a *pathname*, its last component is the name) and `.` / `..`.
    `;`, `=`, inner, leading and trailing blanks, any other white space and any letter case are
    all fine (`C20.name_verbatim_iff`: this is exact). -/
structure WFName (name : Str) : Prop where
  ne : name ≠ []
  slash : '/' ∉ name
  dot : name ≠ ['.']
  dotdot : name ≠ ['.', '.']

/-- the name does not end with CR or LF (`_parse_mlsx` removes the line terminator with
    `rstrip("\r\n")`, i.e. every trailing CR / LF) -/
def NoEol (name : Str) : Prop := Stops isEol name.reverse

/-! ### Windows NT lines: pieces and well-formedness -/

def ntDate (e : NtEntry) : Str := pad2 e.day ++ '-' :: pad2 e.month ++ '-' :: pad2 e.yy

def ntTimeText (e : NtEntry) : Str := ntDate e ++ ' ' :: ntClock e

structure WFNtTime (e : NtEntry) : Prop where
  date : validDate (fullYear e.yy) e.month e.day = true
  yy : e.yy < 100
  hour : e.hour < 24
  minute : e.minute < 60

def ntSizeStr (e : NtEntry) : Str :=
  match e.size with
  | none => ['<', 'D', 'I', 'R', '>']
  | some ds => ds

structure WFNt (e : NtEntry) : Prop where
  time : WFNtTime e
  size : ∀ ds, e.size = some ds → ds ≠ [] ∧ (∀ c ∈ ds, isDigit c = true) ∧ ds.length ≤ maxStrDigits
  name_start : Stops isSpace e.name
  name_nl : '\n' ∉ e.name


/-! ### unix LIST lines: pieces and well-formedness -/

/-- the nine permission characters (position classes of the regex) -/
def permOk (p : Str) : Bool := p.length == 9 && (permTok p == some (p, []))

/-- `[A-Za-z0-9][A-Za-z0-9-._@]*\$?` -/
structure WFId (u : Str) : Prop where
  shape : ∃ c r d, u = c :: (r ++ d) ∧ isAlnumAscii c = true ∧ (∀ x ∈ r, isIdChar x = true) ∧
    (d = [] ∨ d = ['$'])

/-- the date of a unix LIST line is meaningful: a real calendar date; for the `HH:MM` form the
    day must exist in the current year (otherwise the entry has no time, see
    `C20.parse_line_feb29_repaired`), for the year form the year is not 1900 (which the code
    replaces by the current year) -/
def wfLTime (cy month day : Nat) : LTime → Prop
  | .year y => validDate y month day = true ∧ y ≠ 1900
  | .clock h mi => h < 24 ∧ mi < 60 ∧ validDate cy month day = true

/-- the epoch a unix LIST date denotes (`HH:MM` dates are in the current year) -/
def ltimeEpoch (cy month day : Nat) : LTime → Int
  | .year y => epochOf y month day 0 0 0
  | .clock hh mi => epochOf cy month day hh mi 0

def linuxTimeText (month day : Nat) (t : LTime) : Str :=
  monName month ++ ' ' :: (pad2 day ++ ' ' :: renderLTime t)

def NoArrow (s : Str) : Prop := (partitionArrow s).2.1 = false

def nameField (e : LinuxEntry) : Str :=
  e.name ++ (match e.target with
    | none => []
    | some t => [' ', '-', '>', ' '] ++ t)

structure WFLinuxName (e : LinuxEntry) : Prop where
  start : Stops isSpace e.name
  nl : '\n' ∉ e.name
  nl_target : ∀ t, e.target = some t → '\n' ∉ t
  link : e.ty = 'l' → NoArrow e.name ∧ Stripped e.name
  target : ∀ t, e.target = some t → e.ty = 'l' ∧ e.name ≠ []

structure WFLinux (cy : Nat) (e : LinuxEntry) : Prop where
  ty : isTypeChar e.ty = true
  perms : permOk e.perms = true
  suffix : e.suffix = [] ∨ e.suffix = ['.'] ∨ e.suffix = ['+']
  links : e.links ≠ [] ∧ ∀ c ∈ e.links, isDigit c = true
  uid : WFId e.uid
  gid : WFId e.gid
  size : e.size ≠ [] ∧ (∀ c ∈ e.size, isDigit c = true) ∧ e.size.length ≤ maxStrDigits
  time : wfLTime cy e.month e.day e.time
  name : WFLinuxName e


end Fs.FtpParse
