import FsModel.Walk
import FsModel.RefDriver
import FsModel.Proto

/-
  Driver commands of the walk model.

  `walk.run <tree> <start> <b|d> <iter|iterp|info|files|dirs|walk> <opt>…`   (`iterp`: breadth, paths-only queue)
  `walk.spec <tree> <start> <pre|post> <opt>…`
  `walk.depth <hex string>`            — `_calculate_depth`
  `walk.globpath <start> <hex name>`   — the two glob strings for an entry of directory <start>

  <tree>  : flat encoding `T…` of RefDriver (entries in listing order)
  <start> : hex of the `/`-joined components of the start directory (`-` = root); or, prefixed with
            `R`, hex of the *raw* start-path string handed to the walker (normalised by the model as
            `_iter_walk` does: `abspath(normpath(path))`)
  <opt>   : `f=`, `x=`, `fd=`, `xd=` + `L<hex,…>`  the names accepted by
            `fs.match(<that option>, ·)` (the matcher is a parameter of the model: it is
            instantiated with the truth table the harness computed with the real matcher);
            `fg=`, `fe=`, `xg=` + `L<hex,…>`  the path strings accepted by
            `fs.match_glob(filter_glob, ·, accept_prefix=True)` / `fs.match_glob(filter_glob, ·)` /
            `fs.match_glob(exclude_glob, ·)` (`fg` and `fe` are given together);
            `md=<int>`.  An absent key is `None`.
-/
namespace Fs.WalkDriver
open Fs Fs.Walk Fs.WalkSpec Fs.Proto

def parseList (a : String) : Option (List Str) :=
  if a.startsWith "L" then
    let body := (a.drop 1).toString
    if body.isEmpty then some [] else (body.splitOn ",").mapM hexToStr
  else none

def table (l : List Str) : Str → Bool := fun s => l.contains s

def parseOpt (o : Opts) (a : String) : Option Opts :=
  match a.splitOn "=" with
  | [k, v] =>
    if k == "md" then
      match v.toInt? with
      | some i => some { o with maxDepth := some i }
      | none => none
    else do
      let l ← parseList v
      match k with
      | "f" => some { o with filter := some (table l) }
      | "x" => some { o with exclude := some (table l) }
      | "fd" => some { o with filterDirs := some (table l) }
      | "xd" => some { o with excludeDirs := some (table l) }
      | "fg" => some { o with filterGlob := some { exact := (o.filterGlob.map (·.exact)).getD (fun _ => false), pref := table l } }
      | "fe" => some { o with filterGlob := some { exact := table l, pref := (o.filterGlob.map (·.pref)).getD (fun _ => false) } }
      | "xg" => some { o with excludeGlob := some (table l) }
      | _ => none
  | _ => none

def parseOpts (args : List String) : Option Opts :=
  args.foldlM parseOpt ({} : Opts)

def parseStart (a : String) : Option (Res WPath) := do
  if a.startsWith "R" then
    let s ← hexToStr (a.drop 1).toString
    pure (startOf s)
  else
    let s ← hexToStr a
    pure (.ok (if s.isEmpty then [] else Path.splitSlash s))

def kindStr (n : Node) : String := if n.isDir then "d" else "f"

def eventStr (e : Event) : String :=
  match e.2 with
  | some i => "E" ++ strToHex (render e.1) ++ ":" ++ strToHex i.1 ++ ":" ++ kindStr i.2
  | none => "M" ++ strToHex (render e.1)

def resStr (r : WPath × Node) : String := strToHex (render r.1) ++ ":" ++ kindStr r.2

def stepStr (s : Step) : String :=
  "S" ++ strToHex (render s.path) ++ ":" ++ strList (s.dirs.map (·.1)) ++ ":" ++ strList (s.files.map (·.1))

def seqStr {α : Type} (f : α → String) (l : List α) : String := "[" ++ ";".intercalate (l.map f) ++ "]"

def handle (cmd : String) (args : List String) : Option String :=
  match cmd with
  | "walk.run" => do
    let t ← RefDriver.loadTree (← args[0]?)
    let start ← parseStart (← args[1]?)
    let s ← match (← args[2]?) with
      | "b" => some Search.breadth
      | "d" => some Search.depth
      | _ => none
    let variant ← args[3]?
    let o ← parseOpts (args.drop 4)
    match variant with
    | "iter" => some (res (seqStr eventStr) (start.bind (iterWalk o s t)))
    | "iterp" => some (res (seqStr eventStr) (start.map (iterWalkPaths o t)))
    | "info" => some (res (seqStr resStr) (start.bind (info o s t)))
    | "files" => some (res (seqStr fun p => strToHex (render p)) (start.bind (files o s t)))
    | "dirs" => some (res (seqStr fun p => strToHex (render p)) (start.bind (dirs o s t)))
    | "walk" => some (res (seqStr stepStr) (start.bind (walk o s t)))
    | _ => none
  | "walk.spec" => do
    let t ← RefDriver.loadTree (← args[0]?)
    let start ← parseStart (← args[1]?)
    let order ← args[2]?
    let o ← parseOpts (args.drop 3)
    match order with
    | "pre" => some (res (seqStr resStr) (start.map (selected o t)))
    | "post" => some (res (seqStr resStr) (start.map (selectedPost o t)))
    | _ => none
  | "walk.depth" => do
    let p ← arg args 0
    some ("ok " ++ toString (calculateDepth p))
  | "walk.globpath" => do
    let start ← parseStart (← args[0]?)
    let k ← arg args 1
    some (res id (start.map fun st => strToHex (dirGlobPath st k) ++ " " ++ strToHex (fileGlobPath st k)))
  | _ => none

end Fs.WalkDriver
