import FsModel.Walk
import FsModel.RefDriver
import FsModel.Proto

/-
  Driver commands of the walk model.

  `walk.run <tree> <start> <b|d> <iter|iterp|info|files|dirs|walk> <opt>…`   (`iterp`: breadth, paths-only queue)
  `walk.spec <tree> <start> <pre|post> <opt>…`
  `walk.depth <hex string>`            — `_calculate_depth`
  `walk.globpath <start> <hex name>`   — the two glob strings for an entry of directory <start>

  <tree>  : flat encoding `T…` of RefDriver (entries in listing order)
  <start> : hex of the `/`-joined components of the start directory (`-` = root)
  <opt>   : `f=`, `x=`, `fd=`, `xd=` + `L<hex,…>`  the names accepted by
            `fs.match(<that option>, ·)` (the matcher is a parameter of the model: it is
            instantiated with the truth table the harness computed with the real matcher);
            `fg=`, `xg=` + `L<hex,…>`  the path strings accepted by
            `fs.match_glob(filter_glob, ·, accept_prefix=True)` / `fs.match_glob(exclude_glob, ·)`;
            `md=<int>`.  An absent key is `None`.
-/
namespace Fs.WalkDriver
open Fs Fs.Walk Fs.WalkSpec Fs.Proto

def parseList (a : String) : Option (List Str) :=
  if a.startsWith "L" then
    let body := (a.drop 1).toString
    if body.isEmpty then some [] else (body.splitOn ",").mapM hexToStr
  else none

def table (l : List Str) : Str → Bool := fun s => l.contains s

def parseOpt (o : Opts) (a : String) : Option Opts :=
  match a.splitOn "=" with
  | [k, v] =>
    if k == "md" then
      match v.toInt? with
      | some i => some { o with maxDepth := some i }
      | none => none
    else do
      let l ← parseList v
      match k with
      | "f" => some { o with filter := some (table l) }
      | "x" => some { o with exclude := some (table l) }
      | "fd" => some { o with filterDirs := some (table l) }
      | "xd" => some { o with excludeDirs := some (table l) }
      | "fg" => some { o with filterGlob := some (table l) }
      | "xg" => some { o with excludeGlob := some (table l) }
      | _ => none
  | _ => none

def parseOpts (args : List String) : Option Opts :=
  args.foldlM parseOpt ({} : Opts)

def parseStart (a : String) : Option WPath := do
  let s ← hexToStr a
  pure (if s.isEmpty then [] else Path.splitSlash s)

def kindStr (n : Node) : String := if n.isDir then "d" else "f"

def eventStr (e : Event) : String :=
  match e.2 with
  | some i => "E" ++ strToHex (render e.1) ++ ":" ++ strToHex i.1 ++ ":" ++ kindStr i.2
  | none => "M" ++ strToHex (render e.1)

def resStr (r : WPath × Node) : String := strToHex (render r.1) ++ ":" ++ kindStr r.2

def stepStr (s : Step) : String :=
  "S" ++ strToHex (render s.path) ++ ":" ++ strList (s.dirs.map (·.1)) ++ ":" ++ strList (s.files.map (·.1))

def seqStr {α : Type} (f : α → String) (l : List α) : String := "[" ++ ";".intercalate (l.map f) ++ "]"

def handle (cmd : String) (args : List String) : Option String :=
  match cmd with
  | "walk.run" => do
    let t ← RefDriver.loadTree (← args[0]?)
    let start ← parseStart (← args[1]?)
    let s ← match (← args[2]?) with
      | "b" => some Search.breadth
      | "d" => some Search.depth
      | _ => none
    let variant ← args[3]?
    let o ← parseOpts (args.drop 4)
    match variant with
    | "iter" => some (res (seqStr eventStr) (iterWalk o s t start))
    | "iterp" => some ("ok " ++ seqStr eventStr (iterWalkPaths o t start))
    | "info" => some (res (seqStr resStr) (info o s t start))
    | "files" => some (res (seqStr fun p => strToHex (render p)) (files o s t start))
    | "dirs" => some (res (seqStr fun p => strToHex (render p)) (dirs o s t start))
    | "walk" => some (res (seqStr stepStr) (walk o s t start))
    | _ => none
  | "walk.spec" => do
    let t ← RefDriver.loadTree (← args[0]?)
    let start ← parseStart (← args[1]?)
    let order ← args[2]?
    let o ← parseOpts (args.drop 3)
    match order with
    | "pre" => some ("ok " ++ seqStr resStr (selected o t start))
    | "post" => some ("ok " ++ seqStr resStr (selectedPost o t start))
    | _ => none
  | "walk.depth" => do
    let p ← arg args 0
    some ("ok " ++ toString (calculateDepth p))
  | "walk.globpath" => do
    let start ← parseStart (← args[0]?)
    let k ← arg args 1
    some ("ok " ++ strToHex (dirGlobPath start k) ++ " " ++ strToHex (fileGlobPath start k))
  | _ => none

end Fs.WalkDriver
