/-
  FsModel.Ref — the reference semantics of the FS API (DESIGN.md Appendix A).

  `Ref.step : State → Op → State × Res Val` is the contract every writable filesystem is
  compared with; `Ref.adm` lists, for a state and an operation, every error class whose
  documented condition holds (backends may order their checks differently, the verdict and
  the resulting tree are exact).
-/
import FsModel.Tree

namespace Fs.Ref
open Fs Fs.Path

structure State where
  root : Node
  closed : Bool
  deriving Repr, Inhabited

def State.empty : State := { root := .dir [], closed := false }

inductive Val where
  | unit
  | bool (b : Bool)
  | bytes (b : Bytes)
  | names (l : List Name)
  | nat (n : Nat)
  | info (name : Name) (isDir : Bool) (size : Nat)
  deriving Repr, Inhabited, DecidableEq

inductive Op where
  | exists_ (p : Str) | isdir (p : Str) | isfile (p : Str)
  | listdir (p : Str) | getsize (p : Str) | gettype (p : Str) | isempty (p : Str)
  | getinfo (p : Str) | readbytes (p : Str)
  | makedir (p : Str) (recreate : Bool) | makedirs (p : Str) (recreate : Bool)
  | writebytes (p : Str) (data : Bytes) | appendbytes (p : Str) (data : Bytes)
  | create (p : Str) (wipe : Bool) | touch (p : Str) | settimes (p : Str)
  | openbin (p : Str) (mode : Str)
  | remove (p : Str) | removedir (p : Str) | removetree (p : Str)
  | move (s d : Str) (overwrite : Bool) | copy (s d : Str) (overwrite : Bool)
  | movedir (s d : Str) (create : Bool) | copydir (s d : Str) (create : Bool)
  | close
  deriving Repr, Inhabited

/-! ### path validation (FS.validatepath) -/

/-- `validatepath`: invalid characters, then `abspath (normpath p)`, as a component list -/
def validate (p : Str) : Res (List Name) :=
  if p.contains '\x00' then .err .InvalidCharsInPath
  else iteratepath p

/-! ### mode strings (fs/mode.py) -/

structure Mode where
  reading : Bool
  writing : Bool
  create : Bool
  truncate : Bool
  exclusive : Bool
  appending : Bool
  deriving Repr, DecidableEq

def modeValidChars : List Char := ['r', 'w', 'x', 't', 'a', 'b', '+']

/-- `Mode(mode).validate_bin()` followed by the flag properties; `none` = ValueError.  Since
`fix: Mode.validate rejects the mode strings io.open rejects` a mode string may not repeat a
character and must contain exactly one of `r w x a`. -/
def parseBinMode (m : Str) : Option Mode :=
  match m with
  | [] => none
  | c :: _ =>
    if !(m.all fun x => modeValidChars.contains x) then none
    else if !(['r', 'w', 'x', 'a'].contains c) then none
    else if m.contains 't' then none
    else if !m.Nodup then none
    else if (['r', 'w', 'x', 'a'].filter fun x => m.contains x).length != 1 then none
    else
      let has (x : Char) := m.contains x
      some { reading := has 'r' || has '+',
             writing := has 'w' || has 'a' || has '+' || has 'x',
             create := has 'a' || has 'w' || has 'x',
             truncate := has 'w' || has 'x',
             exclusive := has 'x',
             appending := has 'a' }

/-! ### helpers on the tree -/

def parentOf (cs : List Name) : List Name := cs.dropLast

/-- some proper prefix of `cs` is a file (the path is "blocked") -/
def blockedByFile (t : Node) : List Name → List Name → Bool
  | _, [] => false
  | pre, c :: cs =>
    (match t.get pre with
     | some (.file _) => true
     | _ => false) || (if cs = [] then false else blockedByFile t (pre ++ [c]) cs)

/-- `a` is a (non-strict) component prefix of `b` -/
def isPrefix : List Name → List Name → Bool
  | [], _ => true
  | _ :: _, [] => false
  | a :: as, b :: bs => a == b && isPrefix as bs

mutual
/-- merge a source node over an optional existing destination node; `none` = a file/directory
name conflict somewhere inside (the bulk operation fails mid-way: loose case) -/
def mergeNode : Node → Option Node → Option Node
  | .file b, none => some (.file b)
  | .file b, some (.file _) => some (.file b)
  | .file _, some (.dir _) => none
  | .dir es, none => (mergeEnts es []).map .dir
  | .dir es, some (.dir ds) => (mergeEnts es ds).map .dir
  | .dir _, some (.file _) => none
def mergeEnts : Ents → Ents → Option Ents
  | [], ds => some ds
  | (k, v) :: es, ds =>
    match mergeNode v (Ents.lookup k ds) with
    | none => none
    | some n => mergeEnts es (Ents.put k n ds)
end

/-- create every missing directory along `cs` (used by makedirs / copydir create) -/
def mkdirs : List Name → List Name → Node → Node
  | _, [], t => t
  | pre, c :: cs, t =>
    let here := pre ++ [c]
    let t' := match t.get here with
      | none => t.set here (.dir [])
      | some _ => t
    mkdirs here cs t'

/-! ### the step function -/

abbrev Out := Res Val

def fail (s : State) (e : Err) : State × Out := (s, .err e)
def done (s : State) (v : Val := .unit) : State × Out := (s, .ok v)
def upd (s : State) (t : Node) (v : Val := .unit) : State × Out := ({ s with root := t }, .ok v)

def lastName (cs : List Name) : Name := cs.getLast?.getD []

/-- `t.set cs v`, where `cs = []` replaces the root itself -/
def setAt (t : Node) (cs : List Name) (v : Node) : Node := if cs = [] then v else t.set cs v

/-- write a file at `cs` (`f` computes the new content from the old, if any) -/
def writeFile (s : State) (cs : List Name) (f : Option Bytes → Bytes) (v : Val := .unit) : State × Out :=
  let t := s.root
  if cs = [] then fail s .FileExpected
  else match t.get (parentOf cs) with
    | none => fail s .ResourceNotFound
    | some (.file _) => fail s .ResourceNotFound
    | some (.dir _) =>
      match t.get cs with
      | some (.dir _) => fail s .FileExpected
      | some (.file b) => upd s (t.set cs (.file (f (some b)))) v
      | none => upd s (t.set cs (.file (f none))) v

def step1 (s : State) (cs : List Name) : Op → State × Out
  | .exists_ _ => done s (.bool (s.root.get cs).isSome)
  | .isdir _ => done s (.bool (match s.root.get cs with | some (.dir _) => true | _ => false))
  | .isfile _ => done s (.bool (match s.root.get cs with | some (.file _) => true | _ => false))
  | .listdir _ => match s.root.get cs with
    | none => fail s .ResourceNotFound
    | some (.file _) => fail s .DirectoryExpected
    | some (.dir es) => done s (.names (Ents.names es))
  | .isempty _ => match s.root.get cs with
    | none => fail s .ResourceNotFound
    | some (.file _) => fail s .DirectoryExpected
    | some (.dir es) => done s (.bool es.isEmpty)
  | .getsize _ => match s.root.get cs with
    | none => fail s .ResourceNotFound
    | some (.file b) => done s (.nat b.length)
    | some (.dir _) => done s (.nat 0)
  | .gettype _ => match s.root.get cs with
    | none => fail s .ResourceNotFound
    | some (.file _) => done s (.nat 2)
    | some (.dir _) => done s (.nat 1)
  | .getinfo _ => match s.root.get cs with
    | none => fail s .ResourceNotFound
    | some (.file b) => done s (.info (lastName cs) false b.length)
    | some (.dir _) => done s (.info (lastName cs) true 0)
  | .readbytes _ => match s.root.get cs with
    | none => fail s .ResourceNotFound
    | some (.dir _) => fail s .FileExpected
    | some (.file b) => done s (.bytes b)
  | .makedir _ recreate =>
    if cs = [] then (if recreate then done s else fail s .DirectoryExists)
    else match s.root.get (parentOf cs) with
      | none => fail s .ResourceNotFound
      | some (.file _) => fail s .ResourceNotFound
      | some (.dir _) =>
        match s.root.get cs with
        | some (.dir _) => if recreate then done s else fail s .DirectoryExists
        | some (.file _) => if recreate then fail s .DirectoryExpected else fail s .DirectoryExists
        | none => upd s (s.root.set cs (.dir []))
  | .makedirs _ recreate =>
    if blockedByFile s.root [] cs then fail s .DirectoryExpected
    else match s.root.get cs with
      | some (.dir _) => if recreate then done s else fail s .DirectoryExists
      | some (.file _) => if recreate then fail s .DirectoryExpected else fail s .DirectoryExists
      | none => upd s (mkdirs [] cs s.root)
  | .writebytes _ data => writeFile s cs (fun _ => data)
  | .appendbytes _ data => writeFile s cs (fun o => (o.getD []) ++ data)
  | .create _ wipe =>
    if !wipe && (s.root.get cs).isSome then done s (.bool false)
    else writeFile s cs (fun _ => []) (.bool true)
  | .touch _ =>
    if (s.root.get cs).isSome then done s
    else writeFile s cs (fun _ => [])
  | .settimes _ => if (s.root.get cs).isSome then done s else fail s .ResourceNotFound
  | .openbin _ mode =>
    match parseBinMode mode with
    | none => fail s .ValueError
    | some m =>
      if cs = [] then fail s .FileExpected
      else match s.root.get (parentOf cs) with
        | none => fail s .ResourceNotFound
        | some (.file _) => fail s .ResourceNotFound
        | some (.dir _) =>
          match s.root.get cs with
          | some (.dir _) => fail s .FileExpected
          | some (.file _) =>
            if m.exclusive then fail s .FileExists
            else if m.truncate then upd s (s.root.set cs (.file []))
            else done s
          | none =>
            if m.create then upd s (s.root.set cs (.file []))
            else fail s .ResourceNotFound
  | .remove _ =>
    if cs = [] then fail s .FileExpected
    else match s.root.get cs with
      | none => fail s .ResourceNotFound
      | some (.dir _) => fail s .FileExpected
      | some (.file _) => upd s (s.root.del cs)
  | .removedir _ =>
    if cs = [] then fail s .RemoveRootError
    else match s.root.get cs with
      | none => fail s .ResourceNotFound
      | some (.file _) => fail s .DirectoryExpected
      | some (.dir es) => if es.isEmpty then upd s (s.root.del cs) else fail s .DirectoryNotEmpty
  | .removetree _ =>
    if cs = [] then upd s (.dir [])
    else match s.root.get cs with
      | none => fail s .ResourceNotFound
      | some (.file _) => fail s .DirectoryExpected
      | some (.dir _) => upd s (s.root.del cs)
  | _ => done s

/-- place file content `b` at destination `d` (shared by move and copy) -/
def putFile (s : State) (d : List Name) (b : Bytes) : Option Node :=
  if d = [] then none
  else match s.root.get (parentOf d) with
    | some (.dir _) =>
      (match s.root.get d with
       | some (.dir _) => none
       | _ => some (s.root.set d (.file b)))
    | _ => none

def step2 (st : State) (s d : List Name) : Op → State × Out
  | .move _ _ ow =>
    match st.root.get s with
    | none => fail st .ResourceNotFound
    | some (.dir _) => fail st .FileExpected
    | some (.file b) =>
      if !ow && (st.root.get d).isSome then fail st .DestinationExists
      else if s = d then done st
      else if d = [] then fail st .FileExpected
      else match st.root.get (parentOf d) with
        | none => fail st .ResourceNotFound
        | some (.file _) => fail st .ResourceNotFound
        | some (.dir _) =>
          match st.root.get d with
          | some (.dir _) => fail st .FileExpected
          | _ => upd st ((st.root.set d (.file b)).del s)
  | .copy _ _ ow =>
    if !ow && (st.root.get d).isSome then fail st .DestinationExists
    else if s = d then fail st .IllegalDestination
    else match st.root.get s with
    | none => fail st .ResourceNotFound
    | some (.dir _) => fail st .FileExpected
    | some (.file b) =>
      if d = [] then fail st .FileExpected
      else match st.root.get (parentOf d) with
        | none => fail st .ResourceNotFound
        | some (.file _) => fail st .ResourceNotFound
        | some (.dir _) =>
          match st.root.get d with
          | some (.dir _) => fail st .FileExpected
          | _ => upd st (st.root.set d (.file b))
  | .movedir _ _ create =>
    if s = d then done st
    else if isPrefix s d then fail st .IllegalDestination
    else match st.root.get s with
    | none => fail st .ResourceNotFound
    | some (.file _) => fail st .DirectoryExpected
    | some (.dir es) =>
      match st.root.get d with
      | some (.file _) => fail st .DirectoryExpected
      | some (.dir _) =>
        -- the complete source content ends up at the destination: take the source out of
        -- the tree first, then merge it into what is (then) at the destination.  This matters
        -- when `d` is an ancestor of `s` and the source holds an entry named like itself.
        let t1 := st.root.del s
        (match t1.get d with
         | some (.dir ds) =>
           (match mergeEnts es ds with
            | none => fail st .OperationFailed     -- loose: file/directory conflict inside
            | some m => upd st (setAt t1 d (.dir m)))
         | _ => fail st .OperationFailed)
      | none =>
        if !create then fail st .ResourceNotFound
        else match st.root.get (parentOf d) with
          | some (.dir _) => upd st ((st.root.set d (.dir es)).del s)
          | _ => fail st .ResourceNotFound
  | .copydir _ _ create =>
    if isPrefix s d then fail st .IllegalDestination
    else match st.root.get d with
    | some (.file _) => (match st.root.get s with
        | none => fail st .ResourceNotFound
        | some (.file _) => fail st .DirectoryExpected
        | some (.dir _) => fail st .DirectoryExpected)
    | some (.dir ds) =>
      (match st.root.get s with
       | none => fail st .ResourceNotFound
       | some (.file _) => fail st .DirectoryExpected
       | some (.dir es) =>
         match mergeEnts es ds with
         | none => fail st .OperationFailed
         | some m => upd st (setAt st.root d (.dir m)))
    | none =>
      if !create then fail st .ResourceNotFound
      else match st.root.get s with
        | none => fail st .ResourceNotFound
        | some (.file _) => fail st .DirectoryExpected
        | some (.dir es) =>
          if blockedByFile st.root [] d then fail st .DirectoryExpected
          else upd st ((mkdirs [] d st.root).set d (.dir es))
  | _ => done st

/-- is this the "loose" failure of a bulk operation (only frame conditions are specified)? -/
def isLoose : Out → Bool
  | .err .OperationFailed => true
  | _ => false

def Op.paths : Op → List Str
  | .exists_ p | .isdir p | .isfile p | .listdir p | .getsize p | .gettype p | .isempty p
  | .getinfo p | .readbytes p | .makedir p _ | .makedirs p _ | .writebytes p _
  | .appendbytes p _ | .create p _ | .touch p | .settimes p | .openbin p _ | .remove p
  | .removedir p | .removetree p => [p]
  | .move s d _ | .copy s d _ | .movedir s d _ | .copydir s d _ => [s, d]
  | .close => []

/-- the reference step: closed check, path validation, then the operation -/
def step (s : State) (op : Op) : State × Out :=
  match op with
  | .close => ({ s with closed := true }, .ok .unit)
  | _ =>
    if s.closed then fail s .FilesystemClosed
    else
      -- openbin validates its mode before the path
      match op with
      | .openbin _ m => if (parseBinMode m).isNone then fail s .ValueError else
          (match op.paths.mapM validate with
           | .err e => fail s e
           | .ok [cs] => step1 s cs op
           | .ok _ => done s)
      | _ =>
        match op.paths.mapM validate with
        | .err e => fail s e
        | .ok [cs] => step1 s cs op
        | .ok [a, b] => step2 s a b op
        | .ok _ => done s

def run (s : State) : List Op → State × List Out
  | [] => (s, [])
  | op :: ops =>
    let (s', o) := step s op
    let (s'', os) := run s' ops
    (s'', o :: os)

end Fs.Ref
