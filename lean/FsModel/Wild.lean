/-
  FsModel.Wild — `fs/wildcard.py` as written: `_translate` (twice: the regex *text* it
  builds, character for character, and the `Regex` AST Python's parser makes of that text),
  `match`, `imatch`, `match_any`, `imatch_any`, `get_matcher`; and `WildSpec`, the documented
  (fnmatch) meaning of a wildcard pattern written directly.

  The `while i < n` loop of `_translate` is a structural recursion over the pattern with a
  *skip counter*: after a bracket expression of `k` characters the code sets `i = j + 1`;
  here the next `k + 1` characters are skipped.  (`go_skip` in GlobLemmas gives the usual
  "continue after the bracket" equation.)
-/
import FsModel.Regex

namespace Fs.Wild
open Fs Fs.Regex

/-! ### the bracket scan shared by wildcard._translate and glob._translate

```
j = i
if j < n and pattern[j] == "!": j = j + 1
if j < n and pattern[j] == "]": j = j + 1
while j < n and pattern[j] != "]": j = j + 1
if j >= n: (no bracket expression)  else: stuff = pattern[i:j]
```
-/

/-- text up to (excluding) the first `]`, and what follows it -/
def untilClose : Str → Option (Str × Str)
  | [] => none
  | c :: r =>
    if c = ']' then some ([], r)
    else match untilClose r with
      | none => none
      | some (a, b) => some (c :: a, b)

/-- `s` is the text after `[`; result `(stuff, rest)` with `s = stuff ++ "]" ++ rest` -/
def scanClass (s : Str) : Option (Str × Str) :=
  let pre1 : Str × Str := match s with
    | '!' :: r => (['!'], r)
    | r => ([], r)
  let pre2 : Str × Str := match pre1.2 with
    | ']' :: r => (pre1.1 ++ [']'], r)
    | r => (pre1.1, r)
  match untilClose pre2.2 with
  | none => none
  | some (a, b) => some (pre2.1 ++ a, b)

/-- ASCII model of `str.lower()` -/
def lowerStr (s : Str) : Str := s.map lower

/-! ### `_translate`: the text -/

/-- `stuff.replace("\\", "\\\\")` -/
def escBackslash (s : Str) : Str := s.flatMap fun c => if c = '\\' then ['\\', '\\'] else [c]

/-- the `[%s]` piece for a bracket expression (`negText` is `"^"` here, `"^/"` in glob) -/
def classText (negText : Str) (stuff : Str) : Str :=
  let st := escBackslash stuff
  let st' := match st with
    | '!' :: r => negText ++ r
    | '^' :: r => '\\' :: '^' :: r
    | r => r
  '[' :: st' ++ [']']

def reEscape (c : Char) : Str := (LChar.lit c).toPy

def textGo : Str → Nat → Str
  | [], _ => []
  | _ :: cs, n + 1 => textGo cs n
  | c :: cs, 0 =>
    if c = '*' then "[^/]*".toList ++ textGo cs 0
    else if c = '?' then '.' :: textGo cs 0
    else if c = '[' then
      match scanClass cs with
      | none => '\\' :: '[' :: textGo cs 0
      | some (stuff, _) => classText ['^'] stuff ++ textGo cs (stuff.length + 1)
    else reEscape c ++ textGo cs 0

/-- `wildcard._translate(pattern, case_sensitive)` -/
def translateText (pat : Str) (caseSensitive : Bool := true) : Str :=
  textGo (if caseSensitive then pat else lowerStr pat) 0

/-- the full text handed to `re.compile` by `match` / `imatch` -/
def regexText (pat : Str) (caseSensitive : Bool) : Str :=
  "(?ms)".toList ++ translateText pat caseSensitive ++ "\\Z".toList

/-! ### `_translate`: the AST -/

def notSlash : Atom := .set true [.ch ⟨'/', false⟩]

/-- members of a set, read off the *raw* bracket text (what Python's set parser makes of the
escaped text): `a-b` is a range, a backslash is written doubled; `first` marks the position
where a literal `^` is written `\^`. -/
def rawChar (first : Bool) (c : Char) : LChar := ⟨c, c == '\\' || (first && c == '^')⟩

def rawItems : Str → Bool → TR (List SetItem)
  | [], _ => .ok []
  | a :: '-' :: b :: rest, first =>
    if b < a then .err .reError
    else match rawItems rest false with
      | .ok l => .ok (.range (rawChar first a) (rawChar false b) :: l)
      | .err e => .err e
  | a :: rest, first =>
    match rawItems rest false with
    | .ok l => .ok (.ch (rawChar first a) :: l)
    | .err e => .err e

/-- the atom for a bracket expression of wildcard._translate -/
def classAtom (stuff : Str) : TR Atom :=
  match stuff with
  | '!' :: r => (rawItems r false).map (Atom.set true)
  | r => (rawItems r true).map (Atom.set false)

def cons (i : Item) (r : TR (List Item)) : TR (List Item) := r.map (i :: ·)

def go : Str → Nat → TR (List Item)
  | [], _ => .ok []
  | _ :: cs, n + 1 => go cs n
  | c :: cs, 0 =>
    if c = '*' then cons (.star notSlash false) (go cs 0)
    else if c = '?' then cons (.one .any) (go cs 0)
    else if c = '[' then
      match scanClass cs with
      | none => cons (.one (.chr ⟨'[', true⟩)) (go cs 0)
      | some (stuff, _) =>
        match classAtom stuff with
        | .err e => .err e
        | .ok a => cons (.one a) (go cs (stuff.length + 1))
    else cons (.one (.chr (LChar.lit c))) (go cs 0)

/-- the items of `_translate(pattern, case_sensitive)` -/
def translate (pat : Str) (caseSensitive : Bool := true) : TR (List Item) :=
  go (if caseSensitive then pat else lowerStr pat) 0

/-- the compiled pattern of `match` (`caseSensitive = true`) / `imatch` -/
def compile (pat : Str) (caseSensitive : Bool) : TR Regex :=
  (translate pat caseSensitive).map fun items =>
    { inline := ['m', 's'], ic := !caseSensitive, items := items ++ [.endZ] }

/-- `wildcard.match(pattern, name)` / `imatch` (without the cache; see `Fs.LRU`) -/
def wmatch (pat name : Str) (caseSensitive : Bool := true) : TR Bool :=
  (compile pat caseSensitive).map (·.matches name)

/-- `any(match(p, name) for p in patterns)`: stops at the first `True`, an exception of an
earlier pattern propagates -/
def anyMatch (f : Str → TR Bool) : List Str → TR Bool
  | [] => .ok false
  | p :: ps =>
    match f p with
    | .err e => .err e
    | .ok true => .ok true
    | .ok false => anyMatch f ps

/-- `match_any` / `imatch_any` (= the callable returned by `get_matcher`) -/
def matchAny (pats : List Str) (name : Str) (caseSensitive : Bool := true) : TR Bool :=
  if pats.isEmpty then .ok true else anyMatch (fun p => wmatch p name caseSensitive) pats

def getMatcher (pats : List Str) (caseSensitive : Bool) : Str → TR Bool :=
  fun name => matchAny pats name caseSensitive

end Fs.Wild

/-! ## WildSpec — what a wildcard pattern means (fnmatch rules, written directly)

* `*` matches any run of characters (possibly empty), `?` exactly one character;
* `[seq]` one character that is in `seq`, `[!seq]` one that is not; inside, `a-b` is the
  range from `a` to `b`, a `]` directly after `[` / `[!` is an ordinary member, every other
  character (also `\`, `^`, `*`, `?`) stands for itself;
* a `[` without a closing `]` is an ordinary character, as is every other character;
* the whole name must be used up.
-/
namespace Fs.WildSpec
open Fs

inductive Tok where
  | star
  | any
  | cls (neg : Bool) (body : Str)
  | lit (c : Char)
  deriving DecidableEq, Repr

/-- position of the `]` that closes a bracket expression whose text (after `[` and an optional
`!`) is `s`; the first character can never close it -/
def findClose : Str → Option Nat
  | [] => none
  | c :: r => if c = ']' then some 0 else (findClose r).map (· + 1)

def closeIdx : Str → Option Nat
  | [] => none
  | _ :: r => (findClose r).map (· + 1)

def tokenize : Str → Nat → List Tok
  | [], _ => []
  | _ :: cs, n + 1 => tokenize cs n
  | c :: cs, 0 =>
    if c = '*' then .star :: tokenize cs 0
    else if c = '?' then .any :: tokenize cs 0
    else if c = '[' then
      let neg := cs.head? == some '!'
      let r := if neg then cs.tail else cs
      match closeIdx r with
      | some k => .cls neg (r.take k) :: tokenize cs (k + (if neg then 2 else 1))
      | none => .lit '[' :: tokenize cs 0
    else .lit c :: tokenize cs 0

/-- membership in the body of a bracket expression -/
def inBody : Str → Char → Bool
  | [], _ => false
  | a :: '-' :: b :: rest, c => (decide (a ≤ c) && decide (c ≤ b)) || inBody rest c
  | a :: rest, c => a == c || inBody rest c

def fold (cs : Bool) (c : Char) : Char := if cs then c else Regex.lower c

/-- case-insensitive membership: some case variant of `c` is a member (ASCII) -/
def inBodyCI (body : Str) (c : Char) : Bool :=
  inBody body (Regex.lower c) || inBody body (Regex.upper c)

def tokOk (cs : Bool) : Tok → Char → Bool
  | .star, _ => true
  | .any, _ => true
  | .cls neg body, c => (if cs then inBody body c else inBodyCI body c) != neg
  | .lit x, c => fold cs x == fold cs c

def starRun (k : Str → Bool) : Str → Bool
  | [] => k []
  | c :: cs => k (c :: cs) || starRun k cs

def tokMatch (cs : Bool) : List Tok → Str → Bool
  | [], s => s == []
  | t :: r, s =>
    match t with
    | .star => starRun (tokMatch cs r) s
    | _ =>
      match s with
      | c :: s' => tokOk cs t c && tokMatch cs r s'
      | [] => false

/-- the documented meaning of `wildcard.match(pattern, name)` (`cs = true`) / `imatch`;
for `imatch` the pattern is compared case-insensitively (ASCII). -/
def wmatches (pat name : Str) (cs : Bool := true) : Bool :=
  tokMatch cs (tokenize (if cs then pat else pat.map Regex.lower) 0) name

end Fs.WildSpec
