/-
  FsModel.Os — OSFS as coded (fs/osfs.py) together with the base-class defaults it inherits
  (fs/base.py), transcribed method by method over the POSIX model `FsModel.Posix`.

  Every OS primitive a method calls returns a result or an `errno`; the errno goes through
  `conv <method> <primitive>`, i.e. through the enclosing `with convert_os_errors(op, path,
  directory=…)` as found by the extractor (GENERATED `Generated.osfsSites`: is the call wrapped, and
  with which flavour) and then through the GENERATED translation table (`Generated.fileErrors` /
  `dirErrors` / `defaultClass`, from `fs/error_tools.py`).  An `OSError` raised outside any wrapper
  is `Leak`.  Nothing about the class chosen is written down here by hand.

  Like `Mem`, this file follows the *code* (order of checks, which primitive, which flavour);
  `FsProofs/OsRefines` relates it to the contract `Ref`.  Abstractions (the same as in `Mem`):
  file handles are sessions, `copy_dir` (walker + bulk copier) is the tree-level merge (proved to
  agree with the algorithm as coded, `FsModel.BaseWalk` over these primitives:
  `FsProofs/BaseWalkLaws.os_copydir_is_operational` / `os_movedir_is_operational`), time stamps
  are dropped; additionally `_remove_contents` works on the subtree (see `Posix.removeContents`),
  and a call on an already validated path (`self.exists(_dst_path)`) skips the second, idempotent
  `validatepath` (functions with suffix `C` take components).  `OSFS.validatepath` adds an
  `fsencode` check and a `PC_PATH_MAX` check to `FS.validatepath`; both are outside the model
  (no lone surrogates, no paths of 4096 bytes).
-/
import FsModel.Ref
import FsModel.Mem
import FsModel.Posix
import FsModel.Generated.ErrnoTable

namespace Fs.Os
open Fs Fs.Path Fs.Ref Fs.Posix

abbrev M := State × Out

/-! ### `convert_os_errors` -/

/-- `os_errors.get(_errno, <default>)` -/
def lookupClass (tab : List (Errno × FsClass)) (e : Errno) : FsClass :=
  match tab.find? (fun r => r.1 == e) with
  | some r => r.2
  | none => Generated.defaultClass

/-- `_ConvertOSErrors.__exit__` for an `OSError` with this errno -/
def convert (directory : Bool) (e : Errno) : Err :=
  if Generated.wrapsEnvironmentError then
    (lookupClass (if directory then Generated.dirErrors else Generated.fileErrors) e).toErr
  else .Leak

/-- the flavour of the wrapper around `call` in `OSFS.<method>`; `none` = not wrapped -/
def siteFlavour (method call : String) : Option Bool :=
  match Generated.osfsSites.find? (fun s => s.method == method && s.call == call) with
  | some s => if s.wrapped then some s.directory else none
  | none => none

/-- what the caller of `OSFS.<method>` sees when `call` fails with `e` -/
def conv (method call : String) (e : Errno) : Err :=
  match siteFlavour method call with
  | some d => convert d e
  | none => .Leak

/-- `self.check()` + `validatepath` -/
def vpath (s : State) (p : Str) : Res (List Name) := Mem.vpath s p

/-! ### essential methods (fs/osfs.py) -/

/-- `OSFS.getinfo` on validated components → (name, is_dir, size); `os.stat` in a *file* wrapper -/
def getinfoC (s : State) (cs : List Name) : Res (Name × Bool × Nat) :=
  match Posix.stat s.root cs with
  | .error e => .err (conv "getinfo" "os.stat" e)
  | .ok (.dir _) => .ok (lastName cs, true, 0)
  | .ok (.file b) => .ok (lastName cs, false, b.length)

def getinfo (s : State) (p : Str) : Res (Name × Bool × Nat) :=
  match vpath s p with
  | .err e => .err e
  | .ok cs => getinfoC s cs

/-- `OSFS.gettype`: `ResourceType.directory = 1`, `file = 2` -/
def gettypeC (s : State) (cs : List Name) : Res Nat :=
  match Posix.stat s.root cs with
  | .error e => .err (conv "gettype" "os.stat" e)
  | .ok (.dir _) => .ok 1
  | .ok (.file _) => .ok 2

def gettype (s : State) (p : Str) : Res Nat :=
  match vpath s p with
  | .err e => .err e
  | .ok cs => gettypeC s cs

/-- `OSFS.listdir`: `os.listdir` in a *directory* wrapper -/
def listdir (s : State) (p : Str) : Res (List Name) :=
  match vpath s p with
  | .err e => .err e
  | .ok cs =>
    match Posix.listdir s.root cs with
    | .error e => .err (conv "listdir" "os.listdir" e)
    | .ok l => .ok l

/-- `OSFS.scandir` / `_scandir` (names and `is_dir()`), `scandir(sys_path)` in a *directory* wrapper -/
def scandir (s : State) (p : Str) : Res (List (Name × Bool)) :=
  match vpath s p with
  | .err e => .err e
  | .ok cs =>
    match Posix.scandir s.root cs with
    | .error e => .err (conv "_scandir" "scandir" e)
    | .ok l => .ok l

/-- `FS.opendir` (only its checks matter): `getinfo(path).is_dir` else DirectoryExpected -/
def opendirCheckC (s : State) (cs : List Name) : Res Unit :=
  match getinfoC s cs with
  | .err e => .err e
  | .ok (_, d, _) => if d then .ok () else .err .DirectoryExpected

def opendirCheck (s : State) (p : Str) : Res Unit :=
  match vpath s p with
  | .err e => .err e
  | .ok cs => opendirCheckC s cs

/-- `OSFS.makedir`: `os.mkdir` in a *directory* wrapper; `ENOENT` is turned into ResourceNotFound by
hand, `EEXIST` is swallowed under `recreate`; then `return self.opendir(_path)` (after a
successful `mkdir` the new directory is found: `OsRefines.posix_stat_after_mkdir`) -/
def makedirC (s : State) (cs : List Name) (recreate : Bool) : M :=
  match Posix.mkdir s.root cs with
  | .ok t => upd s t
  | .error e =>
    if e = .ENOENT then fail s .ResourceNotFound
    else if e = .EEXIST && recreate then
      (match opendirCheckC s cs with
       | .err e' => fail s e'
       | .ok _ => done s)
    else fail s (conv "makedir" "os.mkdir" e)

def makedir (s : State) (p : Str) (recreate : Bool) : M :=
  match vpath s p with
  | .err e => fail s e
  | .ok cs => makedirC s cs recreate

/-- `OSFS.openbin` / `OSFS.open` (binary modes) on validated components, as far as the tree is
concerned: `_path == "/"` → FileExpected, then `io.open(sys_path, mode=_mode.to_platform_bin())` in
a *file* wrapper.  A mode string `Mode.validate_bin` accepts but `io.open` rejects raises the
built-in `ValueError` from inside the wrapper (not an `OSError`: not translated). -/
def openC (method : String) (s : State) (cs : List Name) (mode : Str) : State × Res (List Name) :=
  if cs = [] then (s, .err .FileExpected)
  else match ioOpenFlags (platformBin mode) with
    | none => (s, .err .ValueError)
    | some fl =>
      match Posix.open_ s.root cs fl with
      | .error e => (s, .err (conv method "io.open" e))
      | .ok t => ({ s with root := t }, .ok cs)

/-- `OSFS.openbin`: the mode is validated before `check()` -/
def openbin (s : State) (p : Str) (mode : Str) : State × Res (List Name) :=
  match parseBinMode mode with
  | none => (s, .err .ValueError)
  | some _ =>
    match vpath s p with
    | .err e => (s, .err e)
    | .ok cs => openC "openbin" s cs mode

/-- `OSFS.open` with a binary mode (what `readbytes`/`writebytes`/`appendbytes`/`create` use) -/
def openf (s : State) (p : Str) (mode : Str) : State × Res (List Name) :=
  match parseBinMode mode with
  | none => (s, .err .ValueError)
  | some _ =>
    match vpath s p with
    | .err e => (s, .err e)
    | .ok cs => openC "open" s cs mode

/-- `OSFS.remove`: `os.remove` in a *file* wrapper (the win32/darwin special cases are dead code
on Linux) -/
def removeC (s : State) (cs : List Name) : M :=
  match Posix.unlink s.root cs with
  | .error e => fail s (conv "remove" "os.remove" e)
  | .ok t => upd s t

def remove (s : State) (p : Str) : M :=
  match vpath s p with
  | .err e => fail s e
  | .ok cs => removeC s cs

/-- `OSFS.removedir`: the root is refused, then `os.rmdir` in a *directory* wrapper -/
def removedir (s : State) (p : Str) : M :=
  match vpath s p with
  | .err e => fail s e
  | .ok cs =>
    if cs = [] then fail s .RemoveRootError
    else match Posix.rmdir s.root cs with
      | .error e => fail s (conv "removedir" "os.rmdir" e)
      | .ok t => upd s t

/-- `OSFS.removetree` (its own implementation), everything in one *directory* wrapper:
`islink` is false; `_remove_contents(sys_path)` (its `os.listdir(sys_path)` is the first thing that
can fail); then `os.rmdir(sys_path)` unless the path is the root. -/
def removetree (s : State) (p : Str) : M :=
  match vpath s p with
  | .err e => fail s e
  | .ok cs =>
    if !cs.isEmpty && Posix.pathIslink s.root cs then
      (match Posix.unlink s.root cs with
       | .error e => fail s (conv "removetree" "os.remove" e)
       | .ok t => upd s t)
    else
      match Posix.stat s.root cs with
      | .error e => fail s (conv "removetree" "self._remove_contents" e)
      | .ok n =>
        match Posix.removeContents n with
        | .error e => fail s (conv "removetree" "self._remove_contents" e)
        | .ok () =>
          let t1 := setAt s.root cs (.dir [])
          if cs = [] then upd s t1
          else match Posix.rmdir t1 cs with
            | .error e => ({ s with root := t1 }, .err (conv "removetree" "os.rmdir" e))
            | .ok t2 => upd s t2

/-- `OSFS.setinfo` (times are not part of the observable tree): `os.path.exists` else
ResourceNotFound, then `os.utime` in a *file* wrapper -/
def setinfo (s : State) (p : Str) : M :=
  match vpath s p with
  | .err e => fail s e
  | .ok cs =>
    if !Posix.pathExists s.root cs then fail s .ResourceNotFound
    else match Posix.utime s.root cs with
      | .error e => fail s (conv "setinfo" "os.utime" e)
      | .ok () => done s

/-! ### base-class defaults inherited by OSFS (fs/base.py) -/

def existsC (s : State) (cs : List Name) : Res Bool :=
  match getinfoC s cs with
  | .ok _ => .ok true
  | .err .ResourceNotFound => .ok false
  | .err e => .err e

def exists_ (s : State) (p : Str) : Res Bool :=
  match getinfo s p with
  | .ok _ => .ok true
  | .err .ResourceNotFound => .ok false
  | .err e => .err e

def isdirC (s : State) (cs : List Name) : Res Bool :=
  match getinfoC s cs with
  | .ok (_, d, _) => .ok d
  | .err .ResourceNotFound => .ok false
  | .err e => .err e

def isdir (s : State) (p : Str) : Res Bool :=
  match getinfo s p with
  | .ok (_, d, _) => .ok d
  | .err .ResourceNotFound => .ok false
  | .err e => .err e

def isfile (s : State) (p : Str) : Res Bool :=
  match getinfo s p with
  | .ok (_, d, _) => .ok (!d)
  | .err .ResourceNotFound => .ok false
  | .err e => .err e

/-- `FS.isempty` = `next(iter(self.scandir(path)), None) is None` -/
def isempty (s : State) (p : Str) : Res Bool :=
  match scandir s p with
  | .err e => .err e
  | .ok l => .ok l.isEmpty

/-- `readbytes` = `open(path, "rb")` … `read()` -/
def readbytes (s : State) (p : Str) : M :=
  match openf s p ['r', 'b'] with
  | (_, .err e) => fail s e
  | (s1, .ok cs) =>
    match s1.root.get cs with
    | some (.file b) => done s1 (.bytes b)
    | _ => fail s1 .ResourceNotFound

/-- `writebytes` = `open(path, "wb")` … `write(contents)` -/
def writebytes (s : State) (p : Str) (data : Bytes) : M :=
  match openf s p ['w', 'b'] with
  | (s1, .err e) => fail s1 e
  | (s1, .ok cs) => upd s1 (s1.root.set cs (.file data))

/-- `appendbytes` = `open(path, "ab")` … `write(data)` -/
def appendbytes (s : State) (p : Str) (data : Bytes) : M :=
  match openf s p ['a', 'b'] with
  | (s1, .err e) => fail s1 e
  | (s1, .ok cs) =>
    match s1.root.get cs with
    | some (.file b) => upd s1 (s1.root.set cs (.file (b ++ data)))
    | _ => fail s1 .ResourceNotFound

/-- `FS.create` -/
def create (s : State) (p : Str) (wipe : Bool) : M :=
  let proceed : M :=
    match openf s p ['w', 'b'] with
    | (s1, .err e) => fail s1 e
    | (s1, .ok _) => done s1 (.bool true)
  if wipe then proceed
  else match exists_ s p with
    | .err e => fail s e
    | .ok true => done s (.bool false)
    | .ok false => proceed

/-- `FS.touch` -/
def touch (s : State) (p : Str) : M :=
  match create s p false with
  | (s1, .err e) => fail s1 e
  | (s1, .ok (.bool false)) => (match setinfo s1 p with
      | (s2, .err e) => fail s2 e
      | (s2, .ok _) => done s2)
  | (s1, .ok _) => done s1

/-- `tools.get_intermediate_dirs` over `OSFS.getinfo` (see `Mem.intermediateDirs`) -/
def intermediateDirs (s : State) (cs : List Name) : Res (List (List Name)) :=
  let rec go : List (List Name) → List (List Name) → Res (List (List Name))
    | [], acc => .ok acc
    | pre :: rest, acc =>
      match getinfoC s pre with
      | .err .ResourceNotFound => go rest (pre :: acc)
      | .err e => .err e
      | .ok (_, true, _) => .ok acc
      | .ok (_, false, _) => .err .DirectoryExpected
  match go ((List.range (cs.length + 1)).reverse.map fun i => cs.take i) [] with
  | .err e => .err e
  | .ok l => .ok l.dropLast

/-- `FS.makedirs` -/
def makedirs (s : State) (p : Str) (recreate : Bool) : M :=
  if s.closed then fail s .FilesystemClosed
  else match validate p with
  | .err e => fail s e
  | .ok cs =>
    match intermediateDirs s cs with
    | .err e => fail s e
    | .ok dirs =>
      -- every intermediate is missing below an existing (or just made) directory, so `makedir`
      -- on it succeeds (the same simplification as in `Mem.makedirs`; validated by the correspondence)
      let s1 : State := { s with root := dirs.foldl (fun t d => t.set d (.dir [])) s.root }
      match makedir s1 p false with
      | (s2, .err .DirectoryExists) =>
        if !recreate then fail s2 .DirectoryExists
        else (match opendirCheck s2 p with
          | .err e => fail s2 e
          | .ok _ => done s2)
      | (s2, .err e) => fail s2 e
      | (s2, .ok _) => done s2

/-- `FS.move` (OSFS does not override it; `supports_rename` is true): validate both paths, the
destination check, the source check, the same-path exit, then `os.rename` — *any* `OSError` of
which is swallowed — and otherwise copy (`open(src, "rb")`, `upload` = `openbin(dst, "wb")`) and
`remove(src)`. -/
def move (s : State) (sp dp : Str) (overwrite : Bool) : M :=
  match vpath s sp with
  | .err e => fail s e
  | .ok a =>
    match vpath s dp with
    | .err e => fail s e
    | .ok b =>
      match (if overwrite then Res.ok false else existsC s b) with
      | .err e => fail s e
      | .ok true => fail s .DestinationExists
      | .ok false =>
        match getinfoC s a with
        | .err e => fail s e
        | .ok (_, true, _) => fail s .FileExpected
        | .ok (_, false, _) =>
          if a = b then done s
          else match Posix.rename s.root a b with
            | .ok t => upd s t
            | .error _ =>
              match openC "open" s a ['r', 'b'] with
              | (_, .err e) => fail s e
              | (_, .ok _) =>
                match s.root.get a with
                | some (.file data) =>
                  (match openC "openbin" s b ['w', 'b'] with
                   | (s1, .err e) => fail s1 e
                   | (s1, .ok _) =>
                     let s2 : State := { s1 with root := s1.root.set b (.file data) }
                     match removeC s2 a with
                     | (s3, .err e) => (s3, .err e)
                     | (s3, .ok _) => done s3)
                | _ => fail s .ResourceNotFound

/-- `OSFS._check_copy` + `OSFS.copy` (`shutil.copy2` is *not* inside a wrapper) -/
def copy (s : State) (sp dp : Str) (overwrite : Bool) : M :=
  match vpath s sp with
  | .err e => fail s e
  | .ok a =>
    match vpath s dp with
    | .err e => fail s e
    | .ok b =>
      match gettypeC s a with
      | .err e => fail s e
      | .ok ty =>
        if ty ≠ 2 then fail s .FileExpected
        else match (if overwrite then Res.ok false else existsC s b) with
          | .err e => fail s e
          | .ok true => fail s .DestinationExists
          | .ok false =>
            if a = b then fail s .IllegalDestination
            else match gettypeC s b.dropLast with      -- `dirname("/") = "/"`
              | .err e => fail s e
              | .ok pty =>
                if pty ≠ 1 then fail s .DirectoryExpected
                else match isdirC s b with
                  | .err e => fail s e
                  | .ok true => fail s .FileExpected
                  | .ok false =>
                    match Posix.copy2 s.root a b with
                    | .error e => fail s (conv "copy" "shutil.copy2" e)
                    | .ok t => upd s t

/-- base-class `FS.movedir` (through `move_dir`): the argument checks, `getinfo(src).is_dir`,
`makedir(dst, recreate=True)`, `copy_dir` (tree-level merge), then `removetree(src)` — in that order -/
def movedir (s : State) (sp dp : Str) (create : Bool) : M :=
  match vpath s sp with
  | .err e => fail s e
  | .ok a =>
    match vpath s dp with
    | .err e => fail s e
    | .ok b =>
      if a = b then done s
      else if Ref.isPrefix a b then fail s .IllegalDestination
      else match (if create then Res.ok true else exists_ s dp) with
        | .err e => fail s e
        | .ok false => fail s .ResourceNotFound
        | .ok true =>
          match getinfo s sp with
          | .err e => fail s e
          | .ok (_, false, _) => fail s .DirectoryExpected
          | .ok (_, true, _) =>
            match s.root.get a with
            | some (.dir es) =>
              (match makedir s dp true with
               | (s1, .err e) => fail s1 e
               | (s1, .ok _) =>
                 match s1.root.get b with
                 | some (.dir ds) =>
                   (match mergeEnts es ds with
                    | none => fail s1 .OperationFailed      -- fails mid-way (loose)
                    | some m =>
                      let s2 : State := { s1 with root := setAt s1.root b (.dir m) }
                      match removetree s2 sp with
                      | (s3, .err e) => (s3, .err e)
                      | (s3, .ok _) => done s3)
                 | _ => fail s1 .ResourceNotFound)
            | _ => fail s .ResourceNotFound

/-- base-class `FS.copydir` + `copy_dir` (tree-level merge; `copy_structure` = makedirs) -/
def copydir (s : State) (sp dp : Str) (create : Bool) : M :=
  match vpath s sp with
  | .err e => fail s e
  | .ok a =>
    match vpath s dp with
    | .err e => fail s e
    | .ok b =>
      if Ref.isPrefix a b then fail s .IllegalDestination
      else match (if create then Res.ok true else existsC s b) with
        | .err e => fail s e
        | .ok false => fail s .ResourceNotFound
        | .ok true =>
          match getinfoC s a with
          | .err e => fail s e
          | .ok (_, false, _) => fail s .DirectoryExpected
          | .ok (_, true, _) =>
            match s.root.get a with
            | some (.dir es) =>
              (match makedirs s dp true with
               | (s1, .err e) => fail s1 e
               | (s1, .ok _) =>
                 match s1.root.get b with
                 | some (.dir ds) =>
                   (match mergeEnts es ds with
                    | none => fail s1 .OperationFailed
                    | some m => upd s1 (setAt s1.root b (.dir m)))
                 | _ => fail s1 .ResourceNotFound)
            | _ => fail s .ResourceNotFound

/-- one call on an OSFS -/
def step (s : State) : Op → M
  | .close => ({ s with closed := true }, .ok .unit)
  | .exists_ p => Mem.liftRes s (exists_ s p) .bool
  | .isdir p => Mem.liftRes s (isdir s p) .bool
  | .isfile p => Mem.liftRes s (isfile s p) .bool
  | .listdir p => Mem.liftRes s (listdir s p) .names
  | .isempty p => Mem.liftRes s (isempty s p) .bool
  | .getsize p => Mem.liftRes s (getinfo s p) fun (_, _, n) => .nat n
  | .gettype p => Mem.liftRes s (gettype s p) .nat
  | .getinfo p => Mem.liftRes s (getinfo s p) fun (n, d, sz) => .info n d sz
  | .readbytes p => readbytes s p
  | .makedir p r => makedir s p r
  | .makedirs p r => makedirs s p r
  | .writebytes p d => writebytes s p d
  | .appendbytes p d => appendbytes s p d
  | .create p w => create s p w
  | .touch p => touch s p
  | .settimes p => setinfo s p
  | .openbin p m => (match openbin s p m with
      | (s1, .err e) => fail s1 e
      | (s1, .ok _) => done s1)
  | .remove p => remove s p
  | .removedir p => removedir s p
  | .removetree p => removetree s p
  | .move a b o => move s a b o
  | .copy a b o => copy s a b o
  | .movedir a b c => movedir s a b c
  | .copydir a b c => copydir s a b c

end Fs.Os
