/-
  FsModel.File — file objects (C16) and byte-level copying (C02).

  (a) `Mode`      : `fs/mode.py` `Mode` transcribed (membership tests on the mode string),
      `PyMode`    : the mode grammar of Python's `io.open` + `io.FileIO` (external, validated).
  (b) `IoRef`     : reference semantics of a *binary, unbuffered* Python io file
                    (`io.FileIO` on a regular file) as a pure state machine.
  (c) `Bio`       : `io.BytesIO` (bytes, pos) — the object shared by all handles of a MemoryFS file,
      `MemFile`   : `_MemoryFile` of `fs/memoryfs.py` (tree at c4647cd), line by line, incl. `_seek_lock`.
  (d) `copyFileData` : `fs.tools.copy_file_data` over an abstract reader with short reads.

  No Mathlib imports (the driver links this module).
-/
import FsModel.Basic

namespace Fs.File
open Fs

/-! ## (a) Mode flags -/

structure Flags where
  reading : Bool
  writing : Bool
  appending : Bool
  truncate : Bool
  exclusive : Bool
  create : Bool
  deriving DecidableEq, Repr, Inhabited

namespace Mode

/-- `character in self._mode` (`Mode.__contains__`) -/
def has (m : Str) (c : Char) : Bool := m.contains c

def create (m : Str) : Bool := has m 'a' || has m 'w' || has m 'x'
def reading (m : Str) : Bool := has m 'r' || has m '+'
def writing (m : Str) : Bool := has m 'w' || has m 'a' || has m '+' || has m 'x'
def appending (m : Str) : Bool := has m 'a'
def updating (m : Str) : Bool := has m '+'
def truncate (m : Str) : Bool := has m 'w' || has m 'x'
def exclusive (m : Str) : Bool := has m 'x'
def binary (m : Str) : Bool := has m 'b'
def text (m : Str) : Bool := has m 't' || !has m 'b'

def validChars : Str := ['r', 'w', 'x', 't', 'a', 'b', '+']
def firstChars : Str := ['r', 'w', 'x', 'a']

/-- `Mode.validate`: `ValueError` unless non-empty, only valid characters, starts with one of
`rwxa`, not both `t` and `b`, and — the two rules of `io.open`, since `fix: Mode.validate rejects
the mode strings io.open rejects` — no repeated character (`len(set(mode)) != len(mode)`) and exactly
one of `r w x a` (`sum(c in mode for c in "rwxa") != 1`). -/
def validate (m : Str) : Res Unit :=
  match m with
  | [] => .err .ValueError
  | c0 :: _ =>
    if !(m.all fun c => validChars.contains c) then .err .ValueError
    else if !(firstChars.contains c0) then .err .ValueError
    else if has m 't' && has m 'b' then .err .ValueError
    else if m.eraseDups.length != m.length then .err .ValueError
    else if (firstChars.filter fun c => has m c).length != 1 then .err .ValueError
    else .ok ()

/-- `Mode.validate_bin` -/
def validateBin (m : Str) : Res Unit :=
  match validate m with
  | .err e => .err e
  | .ok _ => if has m 't' then .err .ValueError else .ok ()

/-- `Mode.to_platform_bin` (Python 3: `to_platform` is the identity) -/
def toPlatformBin (m : Str) : Str :=
  let m' := m.filter fun c => c != 't'
  if has m' 'b' then m' else m' ++ ['b']

def flags (m : Str) : Flags :=
  { reading := reading m, writing := writing m, appending := appending m,
    truncate := truncate m, exclusive := exclusive m, create := create m }

end Mode

/-! ### Python's own mode grammar (`io.open`, then `io.FileIO.__init__`) -/
namespace PyMode

def b2n (b : Bool) : Nat := if b then 1 else 0

/-- `io.open`: the raw mode string handed to `FileIO`, or `none` for `ValueError`.
(`U` was removed in Python 3.11.) -/
def ioOpenRawMode (m : Str) : Option Str :=
  let valid : Str := ['a', 'x', 'r', 'w', 'b', '+', 't']
  if !(m.all fun c => valid.contains c) then none
  else if m.eraseDups.length < m.length then none          -- len(mode) > len(set(mode))
  else
    let creating := m.contains 'x'; let reading := m.contains 'r'
    let writing := m.contains 'w'; let appending := m.contains 'a'
    let updating := m.contains '+'
    if m.contains 't' && m.contains 'b' then none
    else if b2n creating + b2n reading + b2n writing + b2n appending != 1 then none
    else some ((if creating then ['x'] else []) ++ (if reading then ['r'] else []) ++
               (if writing then ['w'] else []) ++ (if appending then ['a'] else []) ++
               (if updating then ['+'] else []))

structure PState where
  rwa : Bool := false
  plus : Bool := false
  readable : Bool := false
  writable : Bool := false
  appending : Bool := false
  created : Bool := false
  trunc : Bool := false      -- O_TRUNC
  creat : Bool := false      -- O_CREAT

/-- the `switch` over the characters in `_io_FileIO___init___impl` -/
def fileioChar (st : PState) (c : Char) : Option PState :=
  if c = 'x' then (if st.rwa then none else some { st with rwa := true, created := true, writable := true, creat := true })
  else if c = 'r' then (if st.rwa then none else some { st with rwa := true, readable := true })
  else if c = 'w' then (if st.rwa then none else some { st with rwa := true, writable := true, creat := true, trunc := true })
  else if c = 'a' then (if st.rwa then none else some { st with rwa := true, writable := true, appending := true, creat := true })
  else if c = 'b' then some st
  else if c = '+' then (if st.plus then none else some { st with readable := true, writable := true, plus := true })
  else none

def fileioFold : PState → Str → Option PState
  | st, [] => some st
  | st, c :: cs => match fileioChar st c with
    | none => none
    | some st' => fileioFold st' cs

def fileioParse (m : Str) : Option Flags :=
  match fileioFold {} m with
  | none => none
  | some st =>
    if !st.rwa then none
    else some { reading := st.readable, writing := st.writable, appending := st.appending,
                truncate := st.trunc, exclusive := st.created, create := st.creat }

/-- the flags Python's `open(path, m, buffering=0)` works with, `none` = `ValueError` -/
def pyOpen (m : Str) : Option Flags :=
  match ioOpenRawMode m with
  | none => none
  | some raw => fileioParse raw

end PyMode

/-! ## Operations and results of a binary file object -/

/-- error *families* (the comparison granularity of the property) -/
inductive FErr where
  | closed          -- ValueError: I/O operation on closed file
  | notPermitted    -- io.UnsupportedOperation / OSError / IOError
  | invalid         -- ValueError / OSError(EINVAL): negative seek / truncate, bad whence
  | stopIteration
  deriving DecidableEq, Repr, Inhabited

inductive Out where
  | none
  | bytes (b : Bytes)
  | lines (l : List Bytes)
  | nat (n : Nat)
  | err (e : FErr)
  deriving DecidableEq, Repr, Inhabited

def Out.isErr : Out → Bool
  | .err _ => true
  | _ => false

/-- sizes: `none` = Python `None`; negative integers mean "no limit" where Python says so -/
inductive Op where
  | read (n : Option Int)
  | readall
  | readline (n : Option Int)
  | readlines
  | readinto (k : Nat)
  | write (d : Bytes)
  | writelines (ls : List Bytes)
  | seek (off : Int) (whence : Nat)
  | tell
  | truncate (size : Option Int)
  | flush
  | close
  | next                 -- `next(f)`
  | iter                 -- `list(f)` (iteration to exhaustion)
  deriving DecidableEq, Repr, Inhabited

/-! ### byte-list helpers shared by the two state machines -/

def zeros (n : Nat) : Bytes := List.replicate n 0

/-- apply a Python size limit (`None`/negative = unlimited) -/
def limit (n : Option Int) (l : Bytes) : Bytes :=
  match n with
  | none => l
  | some z => if z < 0 then l else l.take z.toNat

/-- the first line of `l`: up to and including the first `\n` -/
def lineOf : Bytes → Bytes
  | [] => []
  | c :: cs => if c = 10 then [c] else c :: lineOf cs

/-- split into lines, each keeping its `\n`; `acc` is the current line reversed -/
def linesAux : Bytes → Bytes → List Bytes
  | [], acc => if acc.isEmpty then [] else [acc.reverse]
  | c :: cs, acc => if c = 10 then (c :: acc).reverse :: linesAux cs [] else linesAux cs (c :: acc)

def linesOf (l : Bytes) : List Bytes := linesAux l []

/-- store `d` at offset `p` (zero-filling a gap); a zero-length write changes nothing -/
def writeAt (b : Bytes) (p : Nat) (d : Bytes) : Bytes :=
  if d.isEmpty then b
  else (b ++ zeros (p - b.length)).take p ++ d ++ b.drop (p + d.length)

/-- set the length to `z`, zero-filling when growing (`ftruncate`) -/
def resize (b : Bytes) (z : Nat) : Bytes := (b ++ zeros (z - b.length)).take z

/-! ## (b) IoRef — `io.FileIO` on a regular file -/

structure IoState where
  bytes : Bytes
  pos : Nat
  closed : Bool
  deriving DecidableEq, Repr, Inhabited

namespace IoRef

/-- `open(path, mode)` when the file is missing (`none`) / holds `b` -/
def openFile (fl : Flags) (existing : Option Bytes) : Res IoState :=
  match existing with
  | none => if fl.create then .ok ⟨[], 0, false⟩ else .err .ResourceNotFound
  | some b =>
    if fl.exclusive then .err .FileExists
    else
      let b' := if fl.truncate then [] else b
      .ok ⟨b', if fl.appending then b'.length else 0, false⟩

def readN (s : IoState) (n : Option Int) : IoState × Out :=
  let d := limit n (s.bytes.drop s.pos)
  ({ s with pos := s.pos + d.length }, .bytes d)

def readLine (s : IoState) (n : Option Int) : IoState × Bytes :=
  let d := limit n (lineOf (s.bytes.drop s.pos))
  ({ s with pos := s.pos + d.length }, d)

def readLines (s : IoState) : IoState × Out :=
  let r := s.bytes.drop s.pos
  ({ s with pos := s.pos + r.length }, .lines (linesOf r))

/-- one `write`: O_APPEND moves a non-empty write to the end of file -/
def write1 (fl : Flags) (s : IoState) (d : Bytes) : IoState :=
  if d.isEmpty then s
  else
    let p := if fl.appending then s.bytes.length else s.pos
    { s with bytes := writeAt s.bytes p d, pos := p + d.length }

/-- `readline(0)`: `IOBase.readline` loops `while len(res) < size`, so with `size = 0` it never
touches the file — it returns `b""` even on a closed or write-only handle. -/
def isReadline0 : Op → Bool
  | .readline (some z) => z == 0
  | _ => false

/-- any call on a closed file: `ValueError`, except `close()` itself -/
def stepClosed (s : IoState) : Op → IoState × Out
  | .close => (s, .none)
  | _ => (s, .err .closed)

/-- a call on an open file -/
def stepOpen (fl : Flags) (s : IoState) : Op → IoState × Out
  | .read n => if !fl.reading then (s, .err .notPermitted) else readN s n
  | .readall => if !fl.reading then (s, .err .notPermitted) else readN s none
  | .readinto k => if !fl.reading then (s, .err .notPermitted) else readN s (some (Int.ofNat k))
  | .readline n =>
    if !fl.reading then (s, .err .notPermitted)
    else let (s', d) := readLine s n; (s', .bytes d)
  | .readlines => if !fl.reading then (s, .err .notPermitted) else readLines s
  | .iter => if !fl.reading then (s, .err .notPermitted) else readLines s
  | .next =>
    if !fl.reading then (s, .err .notPermitted)
    else
      let (s', d) := readLine s none
      if d.isEmpty then (s', .err .stopIteration) else (s', .bytes d)
  | .write d =>
    if !fl.writing then (s, .err .notPermitted) else (write1 fl s d, .nat d.length)
  | .writelines ls =>
    -- IOBase.writelines: `for line in lines: self.write(line)` (an empty list never fails)
    if ls.isEmpty then (s, .none)
    else if !fl.writing then (s, .err .notPermitted)
    else (ls.foldl (write1 fl) s, .none)
  | .seek off whence =>
    let target : Option Int :=
      match whence with
      | 0 => some off
      | 1 => some (Int.ofNat s.pos + off)
      | 2 => some (Int.ofNat s.bytes.length + off)
      | _ => none
    match target with
    | none => (s, .err .invalid)
    | some t => if t < 0 then (s, .err .invalid) else ({ s with pos := t.toNat }, .nat t.toNat)
  | .tell => (s, .nat s.pos)
  | .truncate size =>
    if !fl.writing then (s, .err .notPermitted)
    else
      match size with
      | none => ({ s with bytes := resize s.bytes s.pos }, .nat s.pos)
      | some z =>
        if z < 0 then (s, .err .invalid)
        else ({ s with bytes := resize s.bytes z.toNat }, .nat z.toNat)
  | .flush => (s, .none)
  | .close => ({ s with closed := true }, .none)

def step (fl : Flags) (s : IoState) (op : Op) : IoState × Out :=
  if isReadline0 op then (s, .bytes [])
  else if s.closed then stepClosed s op
  else stepOpen fl s op

/-- `tell()` observed after a call, while the handle is open -/
def obsTell (s : IoState) : Option Nat := if s.closed then none else some s.pos

def runFrom (fl : Flags) : IoState → List Op → List (Out × Option Nat) × Bytes
  | s, [] => ([], s.bytes)
  | s, op :: ops =>
    let (s', o) := step fl s op
    let (tr, fin) := runFrom fl s' ops
    ((o, obsTell s') :: tr, fin)

/-- a whole session: validate the mode, open, run the calls; observations = the result of
each call, `tell()` after it, and the bytes of the file at the end -/
def run (mode : Str) (existing : Option Bytes) (ops : List Op) :
    Res (List (Out × Option Nat) × Bytes) :=
  match Mode.validateBin mode with
  | .err e => .err e
  | .ok _ =>
    match openFile (Mode.flags mode) existing with
    | .err e => .err e
    | .ok s => .ok (runFrom (Mode.flags mode) s ops)

/-! ### the documented tolerance of the reference

Two calls are *vacuous* — they ask for nothing — and `io.FileIO` lets them through only because
`IOBase.readline` / `IOBase.writelines` never reach the raw file: `readline(0)` on a closed or
unreadable handle (returns `b""`) and `writelines([])` on a read-only handle (returns `None`).
The property text asks handles without permission (and closed handles) to reject, so an
implementation **may reject** exactly these calls, with the error the non-vacuous call would get;
nothing else about the call (state, position, bytes) may differ. -/

/-- the error with which a conformant implementation may reject the call instead of performing it -/
def mayReject (fl : Flags) (s : IoState) : Op → Option FErr
  | .readline (some z) =>
    if z == 0 then
      if s.closed then some .closed else if !fl.reading then some .notPermitted else none
    else none
  | .writelines ls =>
    if !s.closed && ls.isEmpty && !fl.writing then some .notPermitted else none
  | _ => none

/-- is `o` an admissible result of the call: the reference's own, or the tolerated rejection -/
def admitsOut (fl : Flags) (s : IoState) (op : Op) (o : Out) : Bool :=
  decide (o = (step fl s op).2) ||
  (match mayReject fl s op with
   | some e => decide (o = .err e)
   | none => false)

/-- does the reference (with the tolerance) admit this observed session: every result admissible,
`tell()` after every call and the final bytes exactly the reference's -/
def admitsFrom (fl : Flags) : IoState → List Op → List (Out × Option Nat) × Bytes → Bool
  | s, [], ([], fin) => decide (fin = s.bytes)
  | s, op :: ops, ((o, t) :: tr, fin) =>
    admitsOut fl s op o && decide (t = obsTell (step fl s op).1) &&
      admitsFrom fl (step fl s op).1 ops (tr, fin)
  | _, _, _ => false

def admits (mode : Str) (existing : Option Bytes) (ops : List Op) :
    Res (List (Out × Option Nat) × Bytes) → Bool
  | .err e =>
    (match Mode.validateBin mode with
     | .err e' => decide (e = e')
     | .ok _ =>
       match openFile (Mode.flags mode) existing with
       | .err e' => decide (e = e')
       | .ok _ => false)
  | .ok obs =>
    (match Mode.validateBin mode with
     | .err _ => false
     | .ok _ =>
       match openFile (Mode.flags mode) existing with
       | .err _ => false
       | .ok s => admitsFrom (Mode.flags mode) s ops obs)

end IoRef

/-! ## (c) `io.BytesIO` and `_MemoryFile` -/

structure Bio where
  bytes : Bytes
  pos : Nat
  deriving DecidableEq, Repr, Inhabited

namespace Bio

/-- `BytesIO.seek`: negative absolute offsets are a `ValueError`; relative seeks clamp at 0 -/
def seek (b : Bio) (off : Int) (whence : Nat) : Bio × Out :=
  match whence with
  | 0 => if off < 0 then (b, .err .invalid) else ({ b with pos := off.toNat }, .nat off.toNat)
  | 1 => let t := (Int.ofNat b.pos + off).toNat; ({ b with pos := t }, .nat t)
  | 2 => let t := (Int.ofNat b.bytes.length + off).toNat; ({ b with pos := t }, .nat t)
  | _ => (b, .err .invalid)

def seekSet (b : Bio) (p : Nat) : Bio := { b with pos := p }
def seekEnd (b : Bio) : Bio := { b with pos := b.bytes.length }

def read (b : Bio) (n : Option Int) : Bio × Bytes :=
  let d := limit n (b.bytes.drop b.pos)
  ({ b with pos := b.pos + d.length }, d)

def readline (b : Bio) (n : Option Int) : Bio × Bytes :=
  let d := limit n (lineOf (b.bytes.drop b.pos))
  ({ b with pos := b.pos + d.length }, d)

def readlines (b : Bio) : Bio × List Bytes :=
  let r := b.bytes.drop b.pos
  ({ b with pos := b.pos + r.length }, linesOf r)

/-- `BytesIO.write`: zero-fills a gap; a zero-length write is a no-op -/
def write (b : Bio) (d : Bytes) : Bio :=
  if d.isEmpty then b
  else { bytes := writeAt b.bytes b.pos d, pos := b.pos + d.length }

/-- `BytesIO.truncate(size)`: only ever shrinks; position unchanged; returns the size asked -/
def truncate (b : Bio) (size : Option Int) : Bio × Out :=
  match size with
  | none => ({ b with bytes := b.bytes.take b.pos }, .nat b.pos)
  | some z =>
    if z < 0 then (b, .err .invalid)
    else ({ b with bytes := b.bytes.take z.toNat }, .nat z.toNat)

end Bio

structure MemState where
  bio : Bio          -- `dir_entry.bytes_file`, shared
  pos : Nat          -- `self.pos`
  closed : Bool      -- `RawIOBase.closed`
  deriving DecidableEq, Repr, Inhabited

namespace MemFile

/-- `MemoryFS.openbin` (file part) + `_MemoryFile.__init__` -/
def openFile (fl : Flags) (existing : Option Bytes) : Res MemState :=
  -- openbin: `if _mode.create:` make the entry when missing, `FileExists` when exclusive
  let entry : Res Bio :=
    match existing with
    | none => if fl.create then .ok ⟨[], 0⟩ else .err .ResourceNotFound
    | some b => if fl.create && fl.exclusive then .err .FileExists else .ok ⟨b, 0⟩
  match entry with
  | .err e => .err e
  | .ok bio =>
    -- __init__: self.pos = 0
    if fl.truncate then
      -- self._bytes_io.seek(0); self._bytes_io.truncate()
      let b1 := bio.seekSet 0
      let b2 := (b1.truncate none).1
      .ok ⟨b2, 0, false⟩
    else if fl.appending then
      -- self._bytes_io.seek(0, os.SEEK_END); self.pos = self._bytes_io.tell()
      let b1 := bio.seekEnd
      .ok ⟨b1, b1.pos, false⟩
    else .ok ⟨bio, 0, false⟩

/-- `with self._seek_lock():` — seek the shared BytesIO to `self.pos`, run the body, then
`self.pos = self._bytes_io.tell()`.  When the body raises, the generator is abandoned at its
`yield`, so `self.pos` keeps its old value. -/
def seekLock (s : MemState) (body : Bio → Bio × Out) : MemState × Out :=
  let b1 := s.bio.seekSet s.pos
  let (b2, out) := body b1
  if out.isErr then ({ s with bio := b2 }, out)
  else ({ s with bio := b2, pos := b2.pos }, out)

/-- `next()` / `__next__`: mode check, then `next(self._bytes_io)` under the seek lock
(the closed check is in `step`) -/
def nextStep (fl : Flags) (s : MemState) : MemState × Out :=
  if !fl.reading then (s, .err .notPermitted)
  else seekLock s fun b =>
    let (b', d) := b.readline none
    if d.isEmpty then (b', .err .stopIteration) else (b', .bytes d)

/-- `list(f)`: `_MemoryFile` no longer overrides `__iter__`, so `IOBase.__iter__` returns the
file itself and the lines come from `__next__` until StopIteration; any other exception
propagates. `acc` = the lines so far, reversed. -/
def iterLoop (fl : Flags) : Nat → MemState → List Bytes → MemState × Out
  | 0, s, acc => (s, .lines acc.reverse)
  | fuel + 1, s, acc =>
    match nextStep fl s with
    | (s', .bytes d) => iterLoop fl fuel s' (d :: acc)
    | (s', .err .stopIteration) => (s', .lines acc.reverse)
    | (s', o) => (s', o)

/-- every I/O method starts with `self._checkClosed()`; `close()` on a closed file does nothing -/
def stepClosed (s : MemState) : Op → MemState × Out
  | .close => (s, .none)
  | _ => (s, .err .closed)

/-- a call on a handle that is not closed -/
def stepOpen (fl : Flags) (s : MemState) : Op → MemState × Out
  | .read n =>
    if !fl.reading then (s, .err .notPermitted)
    else seekLock s fun b => let (b', d) := b.read n; (b', .bytes d)
  | .readall =>
    -- RawIOBase.readall: `self.read(DEFAULT_BUFFER_SIZE)` until b"" — the rest of the file
    if !fl.reading then (s, .err .notPermitted)
    else seekLock s fun b => let (b', d) := b.read none; (b', .bytes d)
  | .readinto k =>
    if !fl.reading then (s, .err .notPermitted)
    else seekLock s fun b => let (b', d) := b.read (some (Int.ofNat k)); (b', .bytes d)
  | .readline n =>
    if !fl.reading then (s, .err .notPermitted)
    else seekLock s fun b => let (b', d) := b.readline n; (b', .bytes d)
  | .readlines =>
    if !fl.reading then (s, .err .notPermitted)
    else seekLock s fun b => let (b', l) := b.readlines; (b', .lines l)
  | .iter => iterLoop fl (s.bio.bytes.length - s.pos + 1) s []
  | .next => nextStep fl s
  | .seek off whence =>
    seekLock s fun b =>
      -- _whence = int(whence); for SEEK_CUR / SEEK_END a negative target is a ValueError
      if whence = 1 then
        -- base = self.pos
        if Int.ofNat s.pos + off < 0 then (b, .err .invalid) else b.seek off 1
      else if whence = 2 then
        -- base = self._dir_entry.size  (which seeks the shared BytesIO to its end)
        let b' := b.seekEnd
        if Int.ofNat b'.pos + off < 0 then (b', .err .invalid) else b'.seek off 2
      else b.seek off whence
  | .tell => (s, .nat s.pos)
  | .truncate size =>
    if !fl.writing then (s, .err .notPermitted)
    else seekLock s fun b =>
      let pos := b.pos                                   -- pos = self._bytes_io.tell()
      -- if size is None: size = pos
      let size' : Int := match size with | none => Int.ofNat pos | some z => z
      match b.truncate (some size') with                 -- new_size = self._bytes_io.truncate(size)
      | (b, .err e) => (b, .err e)
      | (b1, newSize) =>
        let b2 := b1.seekEnd                             -- file_size = seek(0, SEEK_END)
        let fileSize := b2.pos
        let b3 := if fileSize < size'.toNat then b2.write (zeros (size'.toNat - fileSize)) else b2
        let b4 := b3.seekSet pos                         -- seek(pos)
        (b4, if size'.toNat = 0 then newSize else .nat size'.toNat)   -- return size or new_size
  | .write d =>
    if !fl.writing then (s, .err .notPermitted)
    else seekLock s fun b =>
      -- if self._mode.appending and len(data): seek(0, SEEK_END)
      let b := if fl.appending && !d.isEmpty then b.seekEnd else b
      (b.write d, .nat d.length)
  | .writelines ls =>
    if !fl.writing then (s, .err .notPermitted)
    else seekLock s fun b =>
      -- lines = list(sequence); if self._mode.appending and any(len(line) for line in lines): seek end
      let b := if fl.appending && ls.any (fun l => !l.isEmpty) then b.seekEnd else b
      (ls.foldl Bio.write b, .none)
  | .flush => (s, .none)
  | .close => ({ s with closed := true }, .none)

def step (fl : Flags) (s : MemState) (op : Op) : MemState × Out :=
  if s.closed then stepClosed s op else stepOpen fl s op

def obsTell (s : MemState) : Option Nat := if s.closed then none else some s.pos

def runFrom (fl : Flags) : MemState → List Op → List (Out × Option Nat) × Bytes
  | s, [] => ([], s.bio.bytes)
  | s, op :: ops =>
    let (s', o) := step fl s op
    let (tr, fin) := runFrom fl s' ops
    ((o, obsTell s') :: tr, fin)

def run (mode : Str) (existing : Option Bytes) (ops : List Op) :
    Res (List (Out × Option Nat) × Bytes) :=
  match Mode.validateBin mode with
  | .err e => .err e
  | .ok _ =>
    match openFile (Mode.flags mode) existing with
    | .err e => .err e
    | .ok s => .ok (runFrom (Mode.flags mode) s ops)

end MemFile

/-- The (state, call) classes in which `_MemoryFile` differs from `io.FileIO`: exactly the two
vacuous calls of the documented tolerance (`IoRef.mayReject`), which it rejects. -/
inductive Dev where
  | readlineZero         -- T0: readline(0) on a closed or unreadable handle is rejected (io: b"")
  | writelinesEmptyRO    -- T1: writelines([]) on a read-only handle is rejected (io: accepted)
  deriving DecidableEq, Repr, Inhabited

def devClass (fl : Flags) (s : IoState) (op : Op) : Option Dev :=
  match op with
  | .readline (some z) =>
    if z == 0 && (s.closed || !fl.reading) then some .readlineZero else none
  | .writelines ls =>
    if !s.closed && ls.isEmpty && !fl.writing then some .writelinesEmptyRO else none
  | _ => none

/-- the call is one the implementation rejects and `io.FileIO` lets through -/
def deviates (fl : Flags) (s : IoState) (op : Op) : Bool := (devClass fl s op).isSome

/-- no call of the session falls in a deviating class (evaluated along the reference run) -/
def avoids (fl : Flags) : IoState → List Op → Bool
  | _, [] => true
  | s, op :: ops => !deviates fl s op && avoids fl (IoRef.step fl s op).1 ops

/-! ## (d) `fs.tools.copy_file_data` -/

/-- how many bytes one `read(chunk)` returns when `avail > 0` bytes remain: any number between
1 and `min chunk avail` (`chunk < 0`: unlimited), chosen by the oracle entry `o` -/
def readSize (chunk : Int) (avail : Nat) (o : Option Nat) : Nat :=
  if chunk = 0 then 0
  else
    let cap := if chunk < 0 then avail else min chunk.toNat avail
    match o with
    | none => cap
    | some k => max 1 (min k cap)

/-- the abstract reader: remaining data + the short-read oracle -/
structure Reader where
  data : Bytes
  oracle : List Nat
  deriving Repr

def Reader.read (r : Reader) (chunk : Int) : Bytes × Reader :=
  let k := readSize chunk r.data.length r.oracle.head?
  (r.data.take k, ⟨r.data.drop k, r.oracle.tail⟩)

/-- `for chunk in iter(lambda: read(n) or None, None): write(chunk)`; `out` is what has been
written so far.  `fuel` bounds the number of iterations (`data.length + 1` always suffices when `chunk ≠ 0`,
which `effChunk` guarantees; a reader asked for 0 bytes would return `b""` and stop the loop). -/
def copyLoop (chunk : Int) : Nat → Reader → Bytes → Bytes
  | 0, _, out => out
  | fuel + 1, r, out =>
    let (d, r') := r.read chunk
    if d.isEmpty then out else copyLoop chunk fuel r' (out ++ d)

/-- `_chunk_size = chunk_size or 1024 * 1024`: `None` and `0` mean the 1 MiB default -/
def effChunk : Option Int → Int
  | none => 1048576
  | some c => if c = 0 then 1048576 else c

def copyFileData (chunk : Option Int) (data : Bytes) (shortReads : List Nat) : Bytes :=
  copyLoop (effChunk chunk) (data.length + 1) ⟨data, shortReads⟩ []

/-- the list of chunks handed to `write` (for the correspondence) -/
def copyChunks (chunk : Int) : Nat → Reader → List Bytes
  | 0, _ => []
  | fuel + 1, r =>
    let (d, r') := r.read chunk
    if d.isEmpty then [] else d :: copyChunks chunk fuel r'


/-! ## (e) write paths and read paths of `fs/base.py` as sessions over `IoRef` (C02) -/

/-- repeat one reading call until it yields nothing (`b""` / StopIteration); the chunks returned.
`download`, `hash`, `copy_file_data`'s reading side and user loops are instances. -/
def drainWith (fl : Flags) (op : Op) : Nat → IoState → List Bytes
  | 0, _ => []
  | fuel + 1, s =>
    match IoRef.step fl s op with
    | (s', .bytes d) => if d.isEmpty then [] else d :: drainWith fl op fuel s'
    | _ => []

/-- cut `d` into pieces of the given lengths (the remainder is the last piece) -/
def chop : List Nat → Bytes → List Bytes
  | [], d => [d]
  | k :: ks, d => d.take k :: chop ks (d.drop k)

def finalOf : Res (List (Out × Option Nat) × Bytes) → Option Bytes
  | .ok (_, fin) => some fin
  | .err _ => none

def modeW : Str := ['w', 'b']
def modeA : Str := ['a', 'b']
def modeR : Str := ['r', 'b']

inductive WritePath where
  | writebytes                                   -- open(p,"wb").write(data)
  | pieces (cuts : List Nat)                     -- one handle, write() piece by piece
  | writelines (cuts : List Nat)                 -- one handle, writelines(pieces)
  | append (k : Nat)                             -- writebytes(data[:k]); appendbytes(data[k:])
  | upload (chunk : Option Int) (shortReads : List Nat) -- upload / writefile / copy / move: copy_file_data into "wb"
  deriving Repr

inductive ReadPath where
  | readbytes                  -- read()
  | readall                    -- readall()
  | readLoop (n : Int)         -- read(n) until b"" (hash = 2^20, user loops)
  | download (chunk : Option Int)  -- download(chunk_size): copy_file_data's reading side
  | readintoLoop (k : Nat)     -- readinto(bytearray(k)) until 0
  | readlineLoop               -- readline() until b""
  | nextLoop                   -- for line in f
  | readlines                  -- b"".join(f.readlines())
  deriving Repr

def ReadPath.valid : ReadPath → Bool
  | .readLoop n => n != 0
  | .readintoLoop k => k != 0
  | _ => true

/-- the bytes of the file after storing `data` through the path (`existing`: previous content) -/
def WritePath.store (w : WritePath) (existing : Option Bytes) (data : Bytes) : Option Bytes :=
  match w with
  | .writebytes => finalOf (IoRef.run modeW existing [.write data, .close])
  | .pieces cuts => finalOf (IoRef.run modeW existing ((chop cuts data).map .write ++ [.close]))
  | .writelines cuts => finalOf (IoRef.run modeW existing [.writelines (chop cuts data), .close])
  | .append k =>
    match finalOf (IoRef.run modeW existing [.write (data.take k), .close]) with
    | none => none
    | some first => finalOf (IoRef.run modeA (some first) [.write (data.drop k), .close])
  | .upload chunk sr =>
    finalOf (IoRef.run modeW existing
      ((copyChunks (effChunk chunk) (data.length + 1) ⟨data, sr⟩).map .write ++ [.close]))

/-- the bytes a reader obtains from a file holding `file` -/
def ReadPath.fetch (r : ReadPath) (file : Bytes) : Option Bytes :=
  let fl := Mode.flags modeR
  match IoRef.openFile fl (some file) with
  | .err _ => none
  | .ok s =>
    match r with
    | .readbytes => match IoRef.step fl s (.read none) with | (_, .bytes d) => some d | _ => none
    | .readall => match IoRef.step fl s .readall with | (_, .bytes d) => some d | _ => none
    | .readLoop n => some (drainWith fl (.read (some n)) (file.length + 1) s).flatten
    | .download chunk => some (drainWith fl (.read (some (effChunk chunk))) (file.length + 1) s).flatten
    | .readintoLoop k => some (drainWith fl (.readinto k) (file.length + 1) s).flatten
    | .readlineLoop => some (drainWith fl (.readline none) (file.length + 1) s).flatten
    | .nextLoop => some (drainWith fl .next (file.length + 1) s).flatten
    | .readlines => match IoRef.step fl s .readlines with | (_, .lines l) => some l.flatten | _ => none

end Fs.File
