/-
  Driver commands for the class table of fs/errors.py (C06; names are plain identifiers, texts are hex):

  errors.classes            -> <name>,<name>,…                      (rows of the GENERATED table, in source order)
  errors.row <name>         -> mro=<n,n,…> fields=<a,a,…> init=<p,p,…|-> req=<n> tmpl=<hex|-> ph=<hex,hex,…>
                               fmt=<attr|-> reduce=<a,a,…|-> pickle=<0|1>
  errors.placeholders <hex> -> L<hex>,<hex>,…                       (the scanner alone)
-/
import FsModel.ErrorsModel
import FsModel.Generated.ErrorsTable
import FsModel.Proto

namespace Fs.ErrorsDriver
open Fs Fs.ErrorsModel Fs.Generated Fs.Proto

def commas (l : List String) : String := ",".intercalate l

def optList : Option (List String) → String
  | some l => if l.isEmpty then "." else commas l
  | none => "-"

def handle (cmd : String) (args : List String) : Option String :=
  match cmd with
  | "errors.classes" => some (commas (errorsTable.map (·.name)))
  | "errors.row" => do
    let n ← args[0]?
    let _ ← find errorsTable n
    some ("mro=" ++ commas (mro errorsTable n) ++
      " fields=" ++ optList (some (fieldsOf errorsTable n)) ++
      " init=" ++ optList (initOf errorsTable n) ++
      " req=" ++ toString (requiredOf errorsTable n) ++
      " tmpl=" ++ (match templateOf errorsTable n with | some t => "x" ++ strToHex t.toList | none => "-") ++
      " ph=" ++ (match templateOf errorsTable n with
                 | some t => optList (some ((placeholders t).map (fun p => "x" ++ strToHex p.toList)))
                 | none => "-") ++
      " fmt=" ++ (match formatsOf errorsTable n with | some a => a | none => "-") ++
      " reduce=" ++ optList (reduceOf errorsTable n) ++
      " pickle=" ++ boolStr (pickleSound errorsTable n))
  | "errors.placeholders" => do
    let t ← arg args 0
    some (strList ((placeholders (String.ofList t)).map String.toList))
  | _ => none

end Fs.ErrorsDriver
