/-
  FsModel.Glob — `fs/glob.py` as written (/repo 8d610d8: bracket expressions `(?!/)[…]`,
  `(?s)^…\Z`, a whole `**` component `(?:/[^/]+)*`, final `/\Z` | `/?\Z`):
  `_split_pattern_by_sep`, `_translate`, `_translate_glob` (the regex text, character for
  character, *and* the `Regex` AST with the `levels` value), `match`, `imatch`, `match_any`,
  `imatch_any`, `get_matcher(accept_prefix)`;
  `Fs.LRU` — `fs/lrucache.py` and the cached `match`; and `GlobSpec`, the documented
  meaning of a glob pattern (docs/source/globbing.rst + the property text) written directly.
-/
import FsModel.Regex
import FsModel.Wild
import FsModel.Path

namespace Fs.Glob
open Fs Fs.Regex Fs.Path

/-! ### `_split_pattern_by_sep` -/

/-- the loop over `enumerate(pattern)`: `cur` is the current piece reversed, `open_` is
`bracket_open` -/
def splitSepGo : Str → Bool → Str → List Str
  | [], _, cur => [cur.reverse]
  | c :: cs, open_, cur =>
    if c = '/' ∧ open_ = false then cur.reverse :: splitSepGo cs open_ []
    else if c = '[' then splitSepGo cs true (c :: cur)
    else if c = ']' then splitSepGo cs false (c :: cur)
    else splitSepGo cs open_ (c :: cur)

def splitPatternBySep (pat : Str) : List Str := splitSepGo pat false []

/-! ### `component.split("**")` and `"**" in component` -/

def splitSS : Str → List Str
  | [] => [[]]
  | '*' :: '*' :: r => [] :: splitSS r
  | c :: r =>
    match splitSS r with
    | h :: t => (c :: h) :: t
    | [] => [[c]]

def hasSS : Str → Bool
  | [] => false
  | '*' :: '*' :: _ => true
  | _ :: r => hasSS r

/-! ### `_translate`: the text -/

def tappend (a : Str) (r : TR Str) : TR Str := r.map (a ++ ·)

def textGo : Str → Nat → TR Str
  | [], _ => .ok []
  | _ :: cs, n + 1 => textGo cs n
  | c :: cs, 0 =>
    if c = '*' then
      (if cs.head? = some '*' then .err .valueError else tappend "[^/]*".toList (textGo cs 0))
    else if c = '?' then tappend "[^/]".toList (textGo cs 0)
    else if c = '[' then
      match Wild.scanClass cs with
      | none => tappend ['\\', '['] (textGo cs 0)
      | some (stuff, _) =>
        tappend ("(?!/)".toList ++ Wild.classText ['^'] stuff) (textGo cs (stuff.length + 1))
    else tappend (Wild.reEscape c) (textGo cs 0)

/-- `glob._translate(pattern)` -/
def translateText (pat : Str) : TR Str := textGo pat 0

def mapM' (f : α → TR β) : List α → TR (List β)
  | [] => .ok []
  | a :: as =>
    match f a with
    | .err e => .err e
    | .ok b => (mapM' f as).map (b :: ·)

/-- `sep.join(parts)` for a string separator -/
def joinStr (sep : Str) : List Str → Str
  | [] => []
  | [a] => a
  | a :: b :: rest => a ++ sep ++ joinStr sep (b :: rest)

def liftRes : Res α → TR α
  | .ok a => .ok a
  | .err _ => .err .illegalBackReference     -- the only error of iteratepath (C12)

def countSlash (s : Str) : Nat := s.count '/'

/-- the `levels` component of the result -/
def levelsOf (pat : Str) (recursive : Bool) : Option Nat :=
  if recursive then none else some (countSlash pat + 1)

/-- the text of one component as appended to `re_patterns` -/
def compText (comp : Str) : TR Str :=
  if comp = ['*', '*'] then .ok "(?:/[^/]+)*".toList
  else if hasSS comp then
    (mapM' translateText (splitSS comp)).map fun l => "/?".toList ++ joinStr ".*/?".toList l
  else tappend ['/'] (translateText comp)

/-- `_translate_glob(pattern)`: `(levels, recursive, re_glob)` (`recursive` is what the code
computes on the way; `levels` is `None` exactly when it is set) -/
def translateGlobText (pat : Str) : TR (Option Nat × Bool × Str) :=
  match liftRes (iteratepath pat) with
  | .err e => .err e
  | .ok comps =>
    match mapM' compText comps with
    | .err e => .err e
    | .ok pieces =>
      let recursive := comps.any hasSS
      let tail : Str := if endsWithSlash pat then "/\\Z".toList else "/?\\Z".toList
      .ok (levelsOf pat recursive, recursive, "(?s)^".toList ++ pieces.flatten ++ tail)

/-! ### `_translate`: the AST -/

def slash : Atom := .chr ⟨'/', false⟩

/-- prepend several items -/
def consL (is : List Item) (r : TR (List Item)) : TR (List Item) := r.map (is ++ ·)

/-- a bracket expression: the set is the one `wildcard._translate` writes (`[!` → `[^`, a
leading `^` escaped), preceded by the lookahead `(?!/)` — it never matches the separator -/
def go : Str → Nat → TR (List Item)
  | [], _ => .ok []
  | _ :: cs, n + 1 => go cs n
  | c :: cs, 0 =>
    if c = '*' then
      (if cs.head? = some '*' then .err .valueError else Wild.cons (.star Wild.notSlash false) (go cs 0))
    else if c = '?' then Wild.cons (.one Wild.notSlash) (go cs 0)
    else if c = '[' then
      match Wild.scanClass cs with
      | none => Wild.cons (.one (.chr ⟨'[', true⟩)) (go cs 0)
      | some (stuff, _) =>
        match Wild.classAtom stuff with
        | .err e => .err e
        | .ok a => consL [.notAhead slash, .one a] (go cs (stuff.length + 1))
    else Wild.cons (.one (.chr (LChar.lit c))) (go cs 0)

/-- the items of `glob._translate(pattern)` -/
def translate (pat : Str) : TR (List Item) := go pat 0

/-- `sep.join(parts)` on item lists -/
def joinItems (sep : List Item) : List (List Item) → List Item
  | [] => []
  | [a] => a
  | a :: b :: rest => a ++ sep ++ joinItems sep (b :: rest)

/-- `/?` and `.*/?` -/
def optSlash : Item := .opt slash false
def anyRun : Item := .star .any false

/-- the body of `(?:/[^/]+)*`: one whole directory level -/
def levelGroup : List GItem := [.one slash, .plus Wild.notSlash]

def compItems (comp : Str) : TR (List Item) :=
  if comp = ['*', '*'] then .ok [.starGroup levelGroup]
  else if hasSS comp then
    (mapM' translate (splitSS comp)).map fun l => optSlash :: joinItems [anyRun, optSlash] l
  else Wild.cons (.one slash) (translate comp)

structure Compiled where
  levels : Option Nat
  recursive : Bool
  re : Regex
  deriving DecidableEq, Repr

/-- `_translate_glob(pattern)` followed by `re.compile(re_str, 0 | re.IGNORECASE)` -/
def translateGlob (pat : Str) (caseSensitive : Bool := true) : TR Compiled :=
  match liftRes (iteratepath pat) with
  | .err e => .err e
  | .ok comps =>
    match mapM' compItems comps with
    | .err e => .err e
    | .ok pieces =>
      let recursive := comps.any hasSS
      let tail : List Item := if endsWithSlash pat then [.one slash, .endZ] else [optSlash, .endZ]
      .ok { levels := levelsOf pat recursive, recursive := recursive,
            re := { inline := ['s'], ic := !caseSensitive,
                    items := .bol :: pieces.flatten ++ tail } }

/-- the same through the text: what the model of Python's parser makes of the string (the driver
checks that it is the same AST) -/
def translateGlobViaText (pat : Str) (caseSensitive : Bool := true) : TR Compiled :=
  match translateGlobText pat with
  | .err e => .err e
  | .ok (lv, rec_, text) =>
    match Regex.parse text (!caseSensitive) with
    | .err e => .err e
    | .ok re => .ok { levels := lv, recursive := rec_, re := re }

/-- what `match` / `imatch` / `Globber._make_iter` compile -/
def compile (pat : Str) (caseSensitive : Bool := true) : TR Compiled := translateGlob pat caseSensitive

/-- `if path and path[0] != "/": path = "/" + path` -/
def fixPath (path : Str) : Str :=
  match path with
  | [] => []
  | c :: _ => if c = '/' then path else '/' :: path

/-- `glob.match(pattern, path)` (`caseSensitive = true`) / `glob.imatch` without the cache -/
def gmatch (pat path : Str) (caseSensitive : Bool := true) : TR Bool :=
  (compile pat caseSensitive).map fun c => c.re.matches (fixPath path)

/-- `match_any` / `imatch_any` -/
def matchAny (pats : List Str) (path : Str) (caseSensitive : Bool := true) : TR Bool :=
  if pats.isEmpty then .ok true else Wild.anyMatch (fun p => gmatch p path caseSensitive) pats

/-- index of the first component that contains `**` -/
def firstSS : List Str → Nat → Option Nat
  | [], _ => none
  | c :: cs, i => if hasSS c then some i else firstSS cs (i + 1)

/-- the pattern list `get_matcher(patterns, cs, accept_prefix=True)` builds: for every pattern
its proper prefixes cut at *every* `/` (`pattern.split("/")`), each with and without a trailing
`/`; then, when a component contains `**`, what precedes the first such component followed by
`**` (everything below a recursive component can be a prefix); then the pattern itself -/
def prefixPatterns : List Str → List Str
  | [] => []
  | pat :: rest =>
    let split := splitSlash pat
    let pre := (List.range split.length).tail.flatMap fun i =>
      let np := joinSlash (split.take i)
      [np, np ++ ['/']]
    let rec_ := match firstSS split 0 with
      | some i => [joinSlash (split.take i ++ [['*', '*']])]
      | none => []
    pre ++ rec_ ++ pat :: prefixPatterns rest

/-- `get_matcher(patterns, case_sensitive, accept_prefix)` -/
def getMatcher (pats : List Str) (caseSensitive : Bool) (acceptPrefix : Bool := false) : Str → TR Bool :=
  if pats.isEmpty then fun _ => .ok true
  else fun path => matchAny (if acceptPrefix then prefixPatterns pats else pats) path caseSensitive

end Fs.Glob

/-! ## LRU — `fs/lrucache.py` (an `OrderedDict`, oldest entry first) -/
namespace Fs.LRU
open Fs

structure Cache (κ ν : Type) where
  size : Nat
  entries : List (κ × ν)
  deriving Repr

variable {κ ν : Type} [DecidableEq κ]

def empty (size : Nat) : Cache κ ν := ⟨size, []⟩

def lookup (c : Cache κ ν) (k : κ) : Option ν := (c.entries.find? (·.1 = k)).map (·.2)

def erase (l : List (κ × ν)) (k : κ) : List (κ × ν) := l.filter (·.1 ≠ k)

/-- `OrderedDict.__setitem__`: update in place, or append -/
def odSet : List (κ × ν) → κ → ν → List (κ × ν)
  | [], k, v => [(k, v)]
  | (k', v') :: r, k, v => if k' = k then (k, v) :: r else (k', v') :: odSet r k v

/-- `LRUCache.__getitem__`: `none` = `KeyError`; a hit moves the entry to the recent end -/
def get (c : Cache κ ν) (k : κ) : Option (ν × Cache κ ν) :=
  match lookup c k with
  | none => none
  | some v => some (v, { c with entries := odSet (erase c.entries k) k v })

/-- `LRUCache.__setitem__` (for `cache_size ≥ 1`; `popitem` on an empty dict is not modelled) -/
def set (c : Cache κ ν) (k : κ) (v : ν) : Cache κ ν :=
  let es := if (lookup c k).isNone ∧ c.entries.length ≥ c.size then c.entries.tail else c.entries
  { c with entries := odSet es k v }

end Fs.LRU

namespace Fs.Glob
open Fs Fs.Regex

abbrev PatCache := LRU.Cache (Str × Bool) Compiled

/-- `glob.match` / `glob.imatch` with `_PATTERN_CACHE` as explicit state -/
def cachedMatch (cache : PatCache) (pat path : Str) (caseSensitive : Bool) : TR Bool × PatCache :=
  match LRU.get cache (pat, caseSensitive) with
  | some (c, cache') => (.ok (c.re.matches (fixPath path)), cache')
  | none =>
    match compile pat caseSensitive with
    | .err e => (.err e, cache)
    | .ok c => (.ok (c.re.matches (fixPath path)), LRU.set cache (pat, caseSensitive) c)

/-- every entry of the cache is what `match` would compute for its key — true of the empty
cache and preserved by every access (`Fs.C14.pattern_cache_transparent`) -/
def PatCache.Valid (cache : PatCache) : Prop :=
  ∀ e ∈ cache.entries, compile e.1.1 e.1.2 = .ok e.2

/-- `Globber._make_iter`'s access to `_PATTERN_CACHE`: it *reads* the entry for
`(pattern, case_sensitive)` (a hit moves it to the recent end, like every `__getitem__`); on a miss
it compiles for itself and stores nothing. -/
def globberCompile (cache : PatCache) (pat : Str) (caseSensitive : Bool) : TR Compiled × PatCache :=
  match LRU.get cache (pat, caseSensitive) with
  | some (c, cache') => (.ok c, cache')
  | none => (compile pat caseSensitive, cache)

/-- the test `Globber._make_iter` applies to one (rendered) path of the walk -/
def globberTest (cache : PatCache) (pat subject : Str) (caseSensitive : Bool) : TR Bool × PatCache :=
  let (c, cache') := globberCompile cache pat caseSensitive
  (c.map (·.re.matches subject), cache')

end Fs.Glob

namespace Fs.Wild
open Fs Fs.Regex

/-- `fs.wildcard._PATTERN_CACHE`: `(pattern, case_sensitive) ↦ compiled pattern` -/
abbrev PatCache := LRU.Cache (Str × Bool) Regex

/-- `wildcard.match` / `wildcard.imatch` with the cache as explicit state -/
def cachedMatch (cache : PatCache) (pat name : Str) (caseSensitive : Bool) : TR Bool × PatCache :=
  match LRU.get cache (pat, caseSensitive) with
  | some (r, cache') => (.ok (r.matches name), cache')
  | none =>
    match compile pat caseSensitive with
    | .err e => (.err e, cache)
    | .ok r => (.ok (r.matches name), LRU.set cache (pat, caseSensitive) r)

def PatCache.Valid (cache : PatCache) : Prop :=
  ∀ e ∈ cache.entries, compile e.1.1 e.1.2 = .ok e.2

end Fs.Wild

/-! ### every user of the two process-wide pattern caches, as one state machine -/
namespace Fs.Glob
open Fs Fs.Regex

/-- one call that touches a `_PATTERN_CACHE` -/
inductive CacheOp where
  | globMatch (pat path : Str) (cs : Bool)      -- fs.glob.match / imatch
  | globber (pat subject : Str) (cs : Bool)     -- Globber._make_iter (iter / count / count_lines / remove) testing one path
  | wildMatch (pat name : Str) (cs : Bool)      -- fs.wildcard.match / imatch (and match_any, get_matcher)
  deriving DecidableEq, Repr

structure Caches where
  glob : PatCache
  wild : Wild.PatCache

def Caches.Valid (st : Caches) : Prop := PatCache.Valid st.glob ∧ Wild.PatCache.Valid st.wild

/-- the call, through the caches -/
def CacheOp.run (st : Caches) : CacheOp → TR Bool × Caches
  | .globMatch pat path cs => let (r, c) := cachedMatch st.glob pat path cs; (r, { st with glob := c })
  | .globber pat subject cs => let (r, c) := globberTest st.glob pat subject cs; (r, { st with glob := c })
  | .wildMatch pat name cs => let (r, c) := Wild.cachedMatch st.wild pat name cs; (r, { st with wild := c })

/-- the same call with no cache at all -/
def CacheOp.direct : CacheOp → TR Bool
  | .globMatch pat path cs => gmatch pat path cs
  | .globber pat subject cs => (compile pat cs).map (·.re.matches subject)
  | .wildMatch pat name cs => Wild.wmatch pat name cs

/-- a history of calls in one process -/
def runAll : Caches → List CacheOp → List (TR Bool) × Caches
  | st, [] => ([], st)
  | st, op :: ops =>
    let (r, st') := op.run st
    let (rs, st'') := runAll st' ops
    (r :: rs, st'')

end Fs.Glob

/-! ## GlobSpec — the documented meaning of a glob pattern

docs/source/globbing.rst: "a glob pattern [is] a path containing one or more wildcard
patterns, separated by forward slashes"; `*` matches any text *in a filename*, `?` any single
character, `**` any number of subdirectories; a pattern ending in `/` matches only
directories, any other pattern files and directories.  The property text adds: character
classes likewise stay within one component, names match in full.

So: the pattern is cut at `/` into components (empty ones dropped); a resource is its list of
name components; the component `**` absorbs zero or more whole names, every other component
is a wildcard pattern (`WildSpec`, where a `**` glued to other text means what `*` `*`
means) that must match one whole name. -/
namespace Fs.GlobSpec
open Fs Fs.Path Fs.WildSpec

inductive PComp where
  | starstar
  | seg (toks : List Tok)
  deriving DecidableEq, Repr

def pcomp (c : Str) : PComp := if c = ['*', '*'] then .starstar else .seg (tokenize c 0)

def pcomps (pat : Str) : List PComp := ((splitSlash pat).filter (· ≠ [])).map pcomp

/-- `**`: zero or more whole names -/
def ssRun (k : List Str → Bool) : List Str → Bool
  | [] => k []
  | n :: ns => k (n :: ns) || ssRun k ns

def compsMatch (cs : Bool) : List PComp → List Str → Bool
  | [], ns => ns == []
  | p :: ps, ns =>
    match p with
    | .starstar => ssRun (compsMatch cs ps) ns
    | .seg toks =>
      match ns with
      | n :: ns' => tokMatch cs toks n && compsMatch cs ps ns'
      | [] => false

/-- the string `Globber._make_iter` hands to the regex: the absolute path (`/name` for every
component), `/` appended for directories; the root directory is `/` -/
def render (path : List Str) (isDir : Bool) : Str :=
  (path.map ('/' :: ·)).flatten ++ (if isDir then ['/'] else [])

def depth (path : List Str) : Nat := path.length

/-! ### where the code keeps the documented meaning

The decidable side conditions of `Fs.C14.glob_correct`: two classes in which the documentation is
silent (`dotFree`, `starStarWhole`) and the one class in which `fs.glob` still deviates from the
documented semantics (`emptyTail`, findings/C14-empty-component-matches-dir-slash.md). -/

/-- a name a filesystem can hold: non-empty, no `/` -/
def FsName (n : Str) : Prop := n ≠ [] ∧ '/' ∉ n

def ss : Str := ['*', '*']

/-- the components of the pattern -/
def patComps (pat : Str) : List Str := (splitSlash pat).filter (fun c => c ≠ [])

/-- no `.` / `..` component (the code normalises the pattern like a path; the docs are silent) -/
def dotFree (pat : Str) : Bool := !(splitSlash pat).any isDots

/-- every `**` is a whole component (a `**` glued to other text has no documented meaning) -/
def starStarWhole (pat : Str) : Bool := (patComps pat).all fun c => c == ss || !Glob.hasSS c

def Regular (pat : Str) : Bool := dotFree pat && starStarWhole pat

def isStar : Tok → Bool
  | .star => true
  | _ => false

/-- the last component that is not `**` consists of `*` only: it can match the *empty* name the
regex sees after the `/` appended to a directory -/
def emptyTail : List PComp → Bool
  | [] => false
  | .starstar :: ps => emptyTail ps
  | .seg toks :: ps => if ps.all (· == .starstar) then toks.all isStar else emptyTail ps

end Fs.GlobSpec

namespace Fs
open Fs.Path Fs.WildSpec

/-- does the resource with name components `path` (a directory iff `isDir`) match? -/
def GlobSpec.matches (pat : Str) (path : List Str) (isDir : Bool) (cs : Bool := true) : Bool :=
  (!endsWithSlash pat || isDir) && GlobSpec.compsMatch cs (GlobSpec.pcomps pat) path

end Fs
