/-
  PyInfo — what the code GENERATED from `class Info` of fs/info.py (FsModel/Generated/InfoGen.lean) is written
  over.  The class works on dynamically typed raw values and raises exception classes the shared `Fs.Err` does
  not list (`MissingInfoNamespace`, `AttributeError`, `KeyError`), so the generated module has its own result
  type: inside `namespace Fs.InfoGen` the names `Res`, `Err`, `pyIdx` are the ones below.

  * dictionaries: `self.raw[ns]` (`KeyError`), `d.get(key, default)`, `ns in self.raw`
  * a `str` method called on a raw value: `AttributeError` unless the value is a `str` (`pyStrMethod`)
  * `key in <raw value>`, Python truthiness, `is None`
  * the three constructors / callables the class applies to raw values are EXTERNS, taken from the hand model:
    `ResourceType(v)` = `Info.resourceType`, `self._to_datetime(t)` = the default `epoch_to_datetime`
    (`Info.epochToDatetimeQ`), `Permissions(names)` on a raw value
-/
import FsModel.Info
import FsModel.PyStr

namespace Fs.InfoGen
open Fs Fs.Info Fs.Path

/-- the exception classes of the generated module -/
inductive Err where
  | MissingInfoNamespace | KeyError | AttributeError | TypeError | ValueError | IndexError
  | RangeError   -- `datetime.fromtimestamp` outside years 1–9999 (ValueError / OverflowError / OSError)
  | Outside      -- a value shape the model does not cover
  | Leak
  deriving DecidableEq, Repr, Inhabited

inductive Res (α : Type) where
  | ok : α → Res α
  | err : Err → Res α
  deriving Repr

/-- the exceptions of the hand model, in the generated module's vocabulary -/
def ofIErr : IErr → Err
  | .missingNamespace => .MissingInfoNamespace
  | .valueError => .ValueError
  | .typeError => .TypeError
  | .attributeError => .AttributeError
  | .rangeError => .RangeError
  | .outside => .Outside

/-- a result of the hand model (`Info.IRes`) as a result of the generated module; injective -/
def ofIRes {α : Type} : IRes α → Res α
  | .ok a => .ok a
  | .error e => .err (ofIErr e)

/-- `raw[ns]` -/
def pyDictIdx (d : Raw) (k : Str) : Res NS :=
  match dictGet? k d with
  | some v => .ok v
  | none => .err .KeyError

/-- `d.get(key, default)` -/
def pyDictGet (d : NS) (k : Str) (dflt : JVal) : JVal := (dictGet? k d).getD dflt

/-- `ns in raw` -/
def pyDictHas (d : Raw) (k : Str) : Bool := (dictGet? k d).isSome

/-- `v.<meth>(…)` for a method of `str`: the string when `v` is one.  `None`, numbers and booleans have no method
of these names (AttributeError); a list has `count` / `index` (outside the model), nothing else -/
def pyStrMethod (meth : String) (v : JVal) : Res Str :=
  match v with
  | .str s => .ok s
  | .list _ => if meth == "count" || meth == "index" then .err .Outside else .err .AttributeError
  | _ => .err .AttributeError

/-- `key in v` for a str `key`: membership in a list / tuple, substring of a str, TypeError otherwise -/
def pyAnyIn (key : Str) (v : JVal) : Res Bool :=
  match v with
  | .list l => .ok (l.any fun x => x == .str key)
  | .str s => .ok (Info.isInfix key s)
  | _ => .err .TypeError

/-- `v is None` -/
def pyIsNone : JVal → Bool
  | .null => true
  | _ => false

/-- `l[i]` -/
def pyIdx {α : Type} (l : List α) (i : Int) : Res α :=
  match Fs.PyStr.pyIdx l i with
  | .ok a => .ok a
  | .err _ => .err .IndexError

/-- `s.rpartition(c)`: (head, separator or "", tail) -/
def pyRpartition (s : Str) (c : Char) : Str × Str × Str :=
  match rsplit1 c s with
  | none => ([], [], s)
  | some (h, t) => (h, [c], t)

/-- EXTERN `ResourceType(v)` (fs/enums.py): the member whose value equals `v` -/
def pyResourceType (v : JVal) : Res Nat := ofIRes (Info.resourceType v)

/-- EXTERN `self._to_datetime(t)` with the default `fs.time.epoch_to_datetime` -/
def pyToDatetime (v : JVal) : Res DT :=
  match v.num? with
  | some (n, d) => ofIRes (epochToDatetimeQ n d)
  | none => .err .TypeError

/-- EXTERN `Permissions(names)` on a raw value: an iterable of names -/
def pyPermissions (v : JVal) : Res Permissions :=
  match v with
  | .list l =>
    (match Info.strNames l with
     | some ns => .ok (Permissions.ofNames ns)
     | none => .err .Outside)
  | .str s => .ok (Permissions.ofNames (s.map fun c => [c]))
  | .null => .err .Outside        -- `Permissions(None)`: the caller tests `is None` first
  | _ => .err .TypeError

end Fs.InfoGen
