/-
  FsModel.Mem — MemoryFS as coded (fs/memoryfs.py) together with the base-class default
  methods it inherits (fs/base.py), transcribed method by method over the same `Node` tree.

  Differences from `Ref` are deliberate: this file follows the *code* (order of checks, exact
  error class, entry order = insertion order), `Ref` follows the contract.  `FsProofs/MemRefines`
  relates the two.  What is abstracted: file handles are sessions (open … close inside one
  call), `copy_dir` (walker + bulk copier) is the tree-level merge (no longer a modelling decision:
  `FsProofs/BaseWalkLaws.mem_copydir_is_operational` / `mem_movedir_is_operational` prove that it agrees with the
  algorithm as coded — `FsModel.BaseWalk` over these very primitives —, entry order aside), timestamps are dropped.
-/
import FsModel.Ref

namespace Fs.Mem
open Fs Fs.Path Fs.Ref

abbrev M := State × Out

/-- `self.check()` + `validatepath`: closed → FilesystemClosed, then invalid chars / normpath -/
def vpath (s : State) (p : Str) : Res (List Name) :=
  if s.closed then .err .FilesystemClosed else validate p

/-- `split(_path)` on the normalised absolute path: (parent components, name); the root
gives `("/", "")` -/
def splitc (cs : List Name) : List Name × Name := (cs.dropLast, cs.getLast?.getD [])

def isDirAt (s : State) (cs : List Name) : Bool :=
  match s.root.get cs with | some (.dir _) => true | _ => false

/-- `name in dir_entry` (`_DirEntry.__contains__`): false for file entries -/
def contains (s : State) (parent : List Name) (name : Name) : Bool :=
  match s.root.get parent with
  | some (.dir es) => (Ents.lookup name es).isSome
  | _ => false

/-! ### essential methods -/

/-- `MemoryFS.getinfo` → (name, is_dir, size) -/
def getinfo (s : State) (p : Str) : Res (Name × Bool × Nat) :=
  match vpath s p with
  | .err e => .err e
  | .ok cs =>
    match s.root.get cs with
    | none => .err .ResourceNotFound
    | some (.dir _) => .ok (lastName cs, true, 0)
    | some (.file b) => .ok (lastName cs, false, b.length)

/-- `MemoryFS.listdir` / `scandir` names, in insertion order -/
def listdir (s : State) (p : Str) : Res (List Name) :=
  match vpath s p with
  | .err e => .err e
  | .ok cs =>
    match s.root.get cs with
    | none => .err .ResourceNotFound
    | some (.file _) => .err .DirectoryExpected
    | some (.dir es) => .ok (Ents.names es)

/-- `FS.opendir` (only its checks matter): `getinfo(path).is_dir` else DirectoryExpected -/
def opendirCheck (s : State) (p : Str) : Res Unit :=
  match getinfo s p with
  | .err e => .err e
  | .ok (_, d, _) => if d then .ok () else .err .DirectoryExpected

/-- `MemoryFS.makedir` -/
def makedir (s : State) (p : Str) (recreate : Bool) : M :=
  match vpath s p with
  | .err e => fail s e
  | .ok cs =>
    if cs = [] then (if recreate then done s else fail s .DirectoryExists)
    else
      let (par, name) := splitc cs
      match s.root.get par with
      | none => fail s .ResourceNotFound
      | some (.file _) => fail s .ResourceNotFound
      | some (.dir es) =>
        match Ents.lookup name es with
        | some n =>
          if !recreate then fail s .DirectoryExists
          else (match n with
            | .dir _ => done s
            | .file _ => fail s .DirectoryExpected)     -- from `return self.opendir(path)`
        | none => upd s (s.root.set cs (.dir []))

/-- `MemoryFS.openbin` as far as the tree is concerned (create / truncate / checks);
returns the component path of the opened entry -/
def openbin (s : State) (p : Str) (mode : Str) : State × Res (List Name) :=
  match parseBinMode mode with
  | none => (s, .err .ValueError)
  | some m =>
    match vpath s p with
    | .err e => (s, .err e)
    | .ok cs =>
      let (par, name) := splitc cs
      if name = [] then (s, .err .FileExpected)
      else match s.root.get par with
        | none => (s, .err .ResourceNotFound)
        | some (.file _) => (s, .err .ResourceNotFound)
        | some (.dir es) =>
          if m.create then
            match Ents.lookup name es with
            | none => ({ s with root := s.root.set cs (.file []) }, .ok cs)
            | some n =>
              if m.exclusive then (s, .err .FileExists)
              else (match n with
                | .dir _ => (s, .err .FileExpected)
                | .file _ =>
                  if m.truncate then ({ s with root := s.root.set cs (.file []) }, .ok cs)
                  else (s, .ok cs))
          else
            match Ents.lookup name es with
            | none => (s, .err .ResourceNotFound)
            | some (.dir _) => (s, .err .FileExpected)
            | some (.file _) => (s, .ok cs)

/-- `MemoryFS.remove` -/
def remove (s : State) (p : Str) : M :=
  match vpath s p with
  | .err e => fail s e
  | .ok cs =>
    let (par, name) := splitc cs
    if !contains s par name then fail s .ResourceNotFound
    else if isDirAt s cs then fail s .FileExpected
    else upd s (s.root.del cs)

/-- `MemoryFS.removetree` -/
def removetree (s : State) (p : Str) : M :=
  match vpath s p with
  | .err e => fail s e
  | .ok cs =>
    if cs = [] then upd s (.dir [])
    else
      let (par, name) := splitc cs
      if !contains s par name then fail s .ResourceNotFound
      else if !isDirAt s cs then fail s .DirectoryExpected
      else upd s (s.root.del cs)

/-- `FS.isempty` = `next(iter(self.scandir(path)), None) is None` -/
def isempty (s : State) (p : Str) : Res Bool :=
  match listdir s p with
  | .err e => .err e
  | .ok l => .ok l.isEmpty

/-- `MemoryFS.removedir` -/
def removedir (s : State) (p : Str) : M :=
  match vpath s p with
  | .err e => fail s e
  | .ok cs =>
    if cs = [] then fail s .RemoveRootError
    else match isempty s p with
      | .err e => fail s e
      | .ok false => fail s .DirectoryNotEmpty
      | .ok true => removetree s p

/-- `MemoryFS.setinfo` (times are not part of the observable tree) -/
def setinfo (s : State) (p : Str) : M :=
  match vpath s p with
  | .err e => fail s e
  | .ok cs => if (s.root.get cs).isSome then done s else fail s .ResourceNotFound

/-! ### base-class defaults inherited by MemoryFS -/

def exists_ (s : State) (p : Str) : Res Bool :=
  match getinfo s p with
  | .ok _ => .ok true
  | .err .ResourceNotFound => .ok false
  | .err e => .err e

def isdir (s : State) (p : Str) : Res Bool :=
  match getinfo s p with
  | .ok (_, d, _) => .ok d
  | .err .ResourceNotFound => .ok false
  | .err e => .err e

def isfile (s : State) (p : Str) : Res Bool :=
  match getinfo s p with
  | .ok (_, d, _) => .ok (!d)
  | .err .ResourceNotFound => .ok false
  | .err e => .err e

/-- `readbytes` = `open(path, "rb")` … `read()` -/
def readbytes (s : State) (p : Str) : M :=
  match openbin s p ['r', 'b'] with
  | (_, .err e) => fail s e
  | (s1, .ok cs) =>
    match s1.root.get cs with
    | some (.file b) => done s1 (.bytes b)
    | _ => fail s1 .ResourceNotFound

/-- `writebytes` = `open(path, "wb")` … `write(contents)` -/
def writebytes (s : State) (p : Str) (data : Bytes) : M :=
  match openbin s p ['w', 'b'] with
  | (s1, .err e) => fail s1 e
  | (s1, .ok cs) => upd s1 (s1.root.set cs (.file data))

/-- `appendbytes` = `open(path, "ab")` … `write(data)` (append mode writes at the end) -/
def appendbytes (s : State) (p : Str) (data : Bytes) : M :=
  match openbin s p ['a', 'b'] with
  | (s1, .err e) => fail s1 e
  | (s1, .ok cs) =>
    match s1.root.get cs with
    | some (.file b) => upd s1 (s1.root.set cs (.file (b ++ data)))
    | _ => fail s1 .ResourceNotFound

/-- `FS.create` -/
def create (s : State) (p : Str) (wipe : Bool) : M :=
  let proceed : M :=
    match openbin s p ['w', 'b'] with
    | (s1, .err e) => fail s1 e
    | (s1, .ok _) => done s1 (.bool true)
  if wipe then proceed
  else match exists_ s p with
    | .err e => fail s e
    | .ok true => done s (.bool false)
    | .ok false => proceed

/-- `FS.touch` -/
def touch (s : State) (p : Str) : M :=
  match create s p false with
  | (s1, .err e) => fail s1 e
  | (s1, .ok (.bool false)) => (match setinfo s1 p with
      | (s2, .err e) => fail s2 e
      | (s2, .ok _) => done s2)
  | (s1, .ok _) => done s1

/-- `tools.get_intermediate_dirs`: walk `recursepath(abspath(path), reverse=True)`; an
existing file on the way → DirectoryExpected; returns the missing proper ancestors, outermost
first -/
def intermediateDirs (s : State) (cs : List Name) : Res (List (List Name)) :=
  -- prefixes of `cs` from the longest to the shortest (the root included)
  let rec go : List (List Name) → List (List Name) → Res (List (List Name))
    | [], acc => .ok acc
    | pre :: rest, acc =>
      match s.root.get pre with
      | none => go rest (pre :: acc)
      | some (.dir _) => .ok acc
      | some (.file _) => .err .DirectoryExpected
  match go ((List.range (cs.length + 1)).reverse.map fun i => cs.take i) [] with
  | .err e => .err e
  | .ok l => .ok l.dropLast      -- `intermediates[::-1][:-1]`: without the path itself

/-- `FS.makedirs` -/
def makedirs (s : State) (p : Str) (recreate : Bool) : M :=
  if s.closed then fail s .FilesystemClosed
  else match validate p with
  | .err e => fail s e
  | .ok cs =>
    match intermediateDirs s cs with
    | .err e => fail s e
    | .ok dirs =>
      -- every intermediate is missing, so makedir on it succeeds
      let s1 : State := { s with root := dirs.foldl (fun t d => t.set d (.dir [])) s.root }
      match makedir s1 p false with
      | (s2, .err .DirectoryExists) =>
        if !recreate then fail s2 .DirectoryExists
        else (match opendirCheck s2 p with
          | .err e => fail s2 e
          | .ok _ => done s2)
      | (s2, .err e) => fail s2 e
      | (s2, .ok _) => done s2

/-- `MemoryFS.move` -/
def move (s : State) (sp dp : Str) (overwrite : Bool) : M :=
  match vpath s sp with
  | .err e => fail s e
  | .ok a =>
    match vpath s dp with
    | .err e => fail s e
    | .ok b =>
      let (sdir, sname) := splitc a
      let (ddir, dname) := splitc b
      if !contains s sdir sname then fail s .ResourceNotFound
      else match s.root.get a with
        | some (.dir _) => fail s .FileExpected
        | none => fail s .ResourceNotFound
        | some (.file data) =>
          match s.root.get ddir with
          | none => fail s .ResourceNotFound
          | some (.file _) => fail s .ResourceNotFound
          | some (.dir des) =>
            if !overwrite && (Ents.lookup dname des).isSome then fail s .DestinationExists
            else if a = b then (if overwrite then done s else fail s .DestinationExists)
            else if dname = [] then fail s .FileExpected
            else match Ents.lookup dname des with
              | some (.dir _) => fail s .FileExpected
              | _ => upd s ((s.root.set b (.file data)).del a)

/-- base-class `FS.movedir` (through `move_dir`): source check, `makedir(dst, recreate=True)`,
`copy_dir` (tree-level merge), then `removetree(src)` — in that order -/
def baseMovedir (s : State) (sp dp : Str) (create : Bool) : M :=
  match vpath s sp with
  | .err e => fail s e
  | .ok a =>
    match vpath s dp with
    | .err e => fail s e
    | .ok b =>
      if a = b then done s
      else if isPrefix a b then fail s .IllegalDestination
      else if !create && (s.root.get b).isNone then fail s .ResourceNotFound
      else match s.root.get a with
        | none => fail s .ResourceNotFound
        | some (.file _) => fail s .DirectoryExpected
        | some (.dir es) =>
          match makedir s dp true with
          | (s1, .err e) => fail s1 e
          | (s1, .ok _) =>
            match s1.root.get b with
            | some (.dir ds) =>
              (match mergeEnts es ds with
               | none => fail s1 .OperationFailed      -- fails mid-way (loose)
               | some m => upd s1 ((setAt s1.root b (.dir m)).del a))
            | _ => fail s1 .ResourceNotFound

/-- `MemoryFS.movedir` -/
def movedir (s : State) (sp dp : Str) (create : Bool) : M :=
  match vpath s sp with
  | .err e => fail s e
  | .ok a =>
    match vpath s dp with
    | .err e => fail s e
    | .ok b =>
      let (sdir, sname) := splitc a
      let (ddir, dname) := splitc b
      if a = b then done s
      else if isPrefix a b then fail s .IllegalDestination
      else if !contains s sdir sname then fail s .ResourceNotFound
      else match s.root.get a with
        | none => fail s .ResourceNotFound
        | some (.file _) => fail s .DirectoryExpected
        | some (.dir es) =>
          if b = [] || contains s ddir dname then baseMovedir s sp dp create
          else match s.root.get ddir with
            | some (.dir _) =>
              if !create then fail s .ResourceNotFound
              else upd s ((s.root.set b (.dir es)).del a)
            | _ => fail s .ResourceNotFound

/-- base-class `FS.copy`: DestinationExists, IllegalDestination, then `open(src, "rb")` and
`upload(dst)` -/
def copy (s : State) (sp dp : Str) (overwrite : Bool) : M :=
  match vpath s sp with
  | .err e => fail s e
  | .ok a =>
    match vpath s dp with
    | .err e => fail s e
    | .ok b =>
      if !overwrite && (s.root.get b).isSome then fail s .DestinationExists
      else if a = b then fail s .IllegalDestination
      else match openbin s sp ['r', 'b'] with
        | (_, .err e) => fail s e
        | (_, .ok ca) =>
          match s.root.get ca with
          | some (.file data) =>
            (match openbin s dp ['w', 'b'] with
             | (s1, .err e) => fail s1 e
             | (s1, .ok cb) => upd s1 (s1.root.set cb (.file data)))
          | _ => fail s .ResourceNotFound

/-- base-class `FS.copydir` + `copy_dir` (tree-level merge; `copy_structure` = makedirs) -/
def copydir (s : State) (sp dp : Str) (create : Bool) : M :=
  match vpath s sp with
  | .err e => fail s e
  | .ok a =>
    match vpath s dp with
    | .err e => fail s e
    | .ok b =>
      if isPrefix a b then fail s .IllegalDestination
      else if !create && (s.root.get b).isNone then fail s .ResourceNotFound
      else match s.root.get a with
        | none => fail s .ResourceNotFound
        | some (.file _) => fail s .DirectoryExpected
        | some (.dir es) =>
          match makedirs s dp true with
          | (s1, .err e) => fail s1 e
          | (s1, .ok _) =>
            match s1.root.get b with
            | some (.dir ds) =>
              (match mergeEnts es ds with
               | none => fail s1 .OperationFailed
               | some m => upd s1 (setAt s1.root b (.dir m)))
            | _ => fail s1 .ResourceNotFound

def liftRes (s : State) (r : Res α) (f : α → Val) : M :=
  match r with
  | .ok a => done s (f a)
  | .err e => fail s e

/-- one call on a MemoryFS -/
def step (s : State) : Op → M
  | .close => ({ s with closed := true }, .ok .unit)
  | .exists_ p => liftRes s (exists_ s p) .bool
  | .isdir p => liftRes s (isdir s p) .bool
  | .isfile p => liftRes s (isfile s p) .bool
  | .listdir p => liftRes s (listdir s p) .names
  | .isempty p => liftRes s (isempty s p) .bool
  | .getsize p => liftRes s (getinfo s p) fun (_, _, n) => .nat n
  | .gettype p => liftRes s (getinfo s p) fun (_, d, _) => .nat (if d then 1 else 2)
  | .getinfo p => liftRes s (getinfo s p) fun (n, d, sz) => .info n d sz
  | .readbytes p => readbytes s p
  | .makedir p r => makedir s p r
  | .makedirs p r => makedirs s p r
  | .writebytes p d => writebytes s p d
  | .appendbytes p d => appendbytes s p d
  | .create p w => create s p w
  | .touch p => touch s p
  | .settimes p => setinfo s p
  | .openbin p m => (match openbin s p m with
      | (s1, .err e) => fail s1 e
      | (s1, .ok _) => done s1)
  | .remove p => remove s p
  | .removedir p => removedir s p
  | .removetree p => removetree s p
  | .move a b o => move s a b o
  | .copy a b o => copy s a b o
  | .movedir a b c => movedir s a b c
  | .copydir a b c => copydir s a b c

end Fs.Mem
