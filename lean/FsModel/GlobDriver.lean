/-
  FsModel.GlobDriver — line-protocol commands for Regex / Wild / Glob / GlobSpec / LRU.

  wild.translate <pat> <cs>            → ok <text> <ast-status> <print-eq> <parse-eq>
  wild.match <pat> <name> <cs>         → ok 0|1 | err <class>
  wild.matchany <Lpats> <name> <cs>    → ok 0|1 | err <class>
  wild.spec <pat> <name> <cs>          → ok 0|1
  glob.translate1 <pat>                → ok <text of glob._translate> | err ValueError
  glob.translate <pat> <cs>            → ok <levels|N> <recursive> <text> <ast-status> <print-eq> <parse-eq> | err <class>
  glob.split <pat>                     → ok L…            (_split_pattern_by_sep)
  glob.match <pat> <path> <cs>         → ok 0|1 | err <class>
  glob.matcher <Lpats> <path> <cs> <accept_prefix> → ok 0|1 | err <class>
  glob.prefixes <Lpats>                → ok L…
  glob.spec <pat> <Lcomps> <isdir> <cs> → ok 0|1
  glob.render <Lcomps> <isdir>         → ok <text>
  regex.match <text> <s> <ic>          → ok 0|1 | err reError|outside
  regex.print <text> <ic>              → ok <toPy (parse text)> | err …
  lru.run <size> <Lops>                → ok <results> <final keys>   (ops `g<key>` / `s<key>=<val>`)
  glob.cached <size> <Lops>            → ok <results> <final keys>   (ops `<cs><pat>\n<path>`)
  cache.run <gsize> <wsize> <Lops>     → ok <results> <glob cache keys> <wildcard cache keys>
      ops `<k><cs><pat>\n<subject>` with k = m (glob.match/imatch), g (Globber testing one path),
      w (wildcard.match/imatch): `Glob.runAll` over both `_PATTERN_CACHE`s

  batch forms (one pattern × many subjects; reply `ok <string of 0/1>` or `err <class>`):
  regex.mtable <text> <ic> <Lsubjects>
  wild.mtable <pat> <cs> <Lnames>      wild.stable <pat> <cs> <Lnames>       (model / WildSpec)
  glob.mtable <pat> <cs> <Lpaths>      glob.stable <pat> <cs> <Lresources>   (model / GlobSpec)
  a resource is written `a/b` (file) or `a/b/` (directory): names joined by `/`.
  enumerated forms: `…N <pat|text> <flag> <alphabet> <n>` run over all strings of length ≤ n over
  the alphabet (shorter first, then in the order of `itertools.product`); `glob.stableN` prints `-`
  for strings that are not resources (empty / `.` / `..` names).

  `<ast-status>`: ok / reError / outside — the structured translation; `<print-eq>` = its printed
  form equals the text; `<parse-eq>` = `Regex.parse text` equals it (both `-` when not `ok`).
-/
import FsModel.Glob
import FsModel.Proto

namespace Fs.GlobDriver
open Fs Fs.Regex Fs.Proto

def tr (f : α → String) : TR α → String
  | .ok a => "ok " ++ f a
  | .err e => "err " ++ e.name

def flag (args : List String) (i : Nat) : Option Bool := do
  let a ← args[i]?
  some (a == "1")

def status : TR α → String
  | .ok _ => "ok"
  | .err e => e.name

/-- compare the structured AST with the text: printed form, and the parse of the text -/
def tie (ast : TR Regex) (text : Str) (ic : Bool) : String :=
  match ast with
  | .ok r =>
    bool (r.toPy == text) ++ " " ++
      bool (match Regex.parse text ic with | .ok r' => r' == r | .err _ => false)
  | .err .reError =>
    "- " ++ bool (match Regex.parse text ic with | .err .reError => true | _ => false)
  | .err _ => "- -"

def splitAt (sep : Char) (s : Str) : Str × Str :=
  (s.takeWhile (· != sep), (s.dropWhile (· != sep)).drop 1)

def lruRun (size : Nat) (ops : List Str) : String :=
  let step := fun (acc : LRU.Cache Str Str × List Str) (op : Str) =>
    match op with
    | 'g' :: k =>
      (match LRU.get acc.1 k with
       | some (v, c) => (c, v :: acc.2)
       | none => (acc.1, "KeyError".toList :: acc.2))
    | 's' :: kv => let (k, v) := splitAt '=' kv; (LRU.set acc.1 k v, [] :: acc.2)
    | _ => acc
  let (c, out) := ops.foldl step (LRU.empty size, [])
  "ok " ++ strList out.reverse ++ " " ++ strList (c.entries.map (·.1))

def cachedRun (size : Nat) (ops : List Str) : String :=
  let step := fun (acc : Glob.PatCache × List Str) (op : Str) =>
    match op with
    | c :: rest =>
      let (pat, path) := splitAt '\n' rest
      let (r, cache) := Glob.cachedMatch acc.1 pat path (c == '1')
      (cache, (tr bool r).toList :: acc.2)
    | [] => acc
  let (c, out) := ops.foldl step (LRU.empty size, [])
  "ok " ++ strList out.reverse ++ " " ++
    strList (c.entries.map fun e => (if e.1.2 then '1' else '0') :: e.1.1)

def parseOp (op : Str) : Option Glob.CacheOp :=
  match op with
  | k :: c :: rest =>
    let (pat, subj) := splitAt '\n' rest
    let cs := c == '1'
    if k == 'm' then some (.globMatch pat subj cs)
    else if k == 'g' then some (.globber pat subj cs)
    else if k == 'w' then some (.wildMatch pat subj cs)
    else none
  | _ => none

def keyStr (k : Str × Bool) : Str := (if k.2 then '1' else '0') :: k.1

def cacheRun (gsize wsize : Nat) (ops : List Str) : String :=
  let (rs, st) := Glob.runAll ⟨LRU.empty gsize, LRU.empty wsize⟩ (ops.filterMap parseOp)
  "ok " ++ strList (rs.map fun r => (tr bool r).toList) ++ " " ++
    strList (st.glob.entries.map (keyStr ·.1)) ++ " " ++ strList (st.wild.entries.map (keyStr ·.1))

def bits (l : List Bool) : String := String.ofList (l.map fun b => if b then '1' else '0')

/-- `a/b/` → (["a","b"], true) -/
def resource (s : Str) : List Str × Bool :=
  let parts := Path.splitSlash s
  match parts.reverse with
  | [] :: rest => (rest.reverse, true)
  | _ => (parts, false)

def enumLen (alpha : List Char) : Nat → List Str
  | 0 => [[]]
  | n + 1 => alpha.flatMap fun c => (enumLen alpha n).map (c :: ·)

def enumUpTo (alpha : List Char) (n : Nat) : List Str := (List.range (n + 1)).flatMap (enumLen alpha)

def validResource (s : Str) : Bool :=
  let (comps, _) := resource s
  !comps.isEmpty && comps.all fun c => !(c.isEmpty || c == ['.'] || c == ['.', '.'])

def handle (cmd : String) (args : List String) : Option String :=
  match cmd with
  | "wild.translate" => do
      let p ← arg args 0; let cs ← flag args 1
      let text := Wild.regexText p cs
      let ast := Wild.compile p cs
      some ("ok " ++ str text ++ " " ++ status ast ++ " " ++ tie ast text (!cs))
  | "wild.match" => do
      let p ← arg args 0; let n ← arg args 1; let cs ← flag args 2
      some (tr bool (Wild.wmatch p n cs))
  | "wild.matchany" => do
      let ps ← argList args 0; let n ← arg args 1; let cs ← flag args 2
      some (tr bool (Wild.getMatcher ps cs n))
  | "wild.spec" => do
      let p ← arg args 0; let n ← arg args 1; let cs ← flag args 2
      some ("ok " ++ bool (WildSpec.wmatches p n cs))
  | "glob.translate1" => do
      let p ← arg args 0
      some (tr str (Glob.translateText p))
  | "glob.translate" => do
      let p ← arg args 0; let cs ← flag args 1
      match Glob.translateGlobText p with
      | .err e => some ("err " ++ e.name)
      | .ok (lv, rec_, text) =>
        let ast := (Glob.translateGlob p cs).map (·.re)
        let lvs := match lv with | some k => toString k | none => "N"
        some ("ok " ++ lvs ++ " " ++ bool rec_ ++ " " ++ str text ++ " " ++ status ast ++ " " ++
              tie ast text (!cs))
  | "glob.split" => do
      let p ← arg args 0
      some ("ok " ++ strList (Glob.splitPatternBySep p))
  | "glob.match" => do
      let p ← arg args 0; let n ← arg args 1; let cs ← flag args 2
      some (tr bool (Glob.gmatch p n cs))
  | "glob.matcher" => do
      let ps ← argList args 0; let n ← arg args 1; let cs ← flag args 2; let ap ← flag args 3
      some (tr bool (Glob.getMatcher ps cs ap n))
  | "glob.prefixes" => do
      let ps ← argList args 0
      some ("ok " ++ strList (Glob.prefixPatterns ps))
  | "glob.spec" => do
      let p ← arg args 0; let comps ← argList args 1; let d ← flag args 2; let cs ← flag args 3
      some ("ok " ++ bool (GlobSpec.matches p comps d cs))
  | "glob.render" => do
      let comps ← argList args 0; let d ← flag args 1
      some ("ok " ++ str (GlobSpec.render comps d))
  | "regex.match" => do
      let t ← arg args 0; let s ← arg args 1; let ic ← flag args 2
      some (tr bool ((Regex.parse t ic).map (·.matches s)))
  | "regex.print" => do
      let t ← arg args 0; let ic ← flag args 1
      some (tr str ((Regex.parse t ic).map (·.toPy)))
  | "regex.mtable" => do
      let t ← arg args 0; let ic ← flag args 1; let l ← argList args 2
      some (tr bits ((Regex.parse t ic).map fun r => l.map r.matches))
  | "wild.mtable" => do
      let p ← arg args 0; let cs ← flag args 1; let l ← argList args 2
      some (tr bits ((Wild.compile p cs).map fun r => l.map r.matches))
  | "wild.stable" => do
      let p ← arg args 0; let cs ← flag args 1; let l ← argList args 2
      some ("ok " ++ bits (l.map fun n => WildSpec.wmatches p n cs))
  | "glob.mtable" => do
      let p ← arg args 0; let cs ← flag args 1; let l ← argList args 2
      some (tr bits ((Glob.compile p cs).map fun c => l.map fun path => c.re.matches (Glob.fixPath path)))
  | "glob.stable" => do
      let p ← arg args 0; let cs ← flag args 1; let l ← argList args 2
      some ("ok " ++ bits (l.map fun r => let (comps, d) := resource r; GlobSpec.matches p comps d cs))
  | "regex.mtableN" => do
      let t ← arg args 0; let ic ← flag args 1; let al ← arg args 2; let n ← args[3]?
      some (tr bits ((Regex.parse t ic).map fun r => (enumUpTo al n.toNat!).map r.matches))
  | "wild.mtableN" => do
      let p ← arg args 0; let cs ← flag args 1; let al ← arg args 2; let n ← args[3]?
      some (tr bits ((Wild.compile p cs).map fun r => (enumUpTo al n.toNat!).map r.matches))
  | "wild.stableN" => do
      let p ← arg args 0; let cs ← flag args 1; let al ← arg args 2; let n ← args[3]?
      some ("ok " ++ bits ((enumUpTo al n.toNat!).map fun nm => WildSpec.wmatches p nm cs))
  | "glob.mtableN" => do
      let p ← arg args 0; let cs ← flag args 1; let al ← arg args 2; let n ← args[3]?
      some (tr bits ((Glob.compile p cs).map fun c =>
        (enumUpTo al n.toNat!).map fun path => c.re.matches (Glob.fixPath path)))
  | "glob.stableN" => do
      let p ← arg args 0; let cs ← flag args 1; let al ← arg args 2; let n ← args[3]?
      some ("ok " ++ String.ofList ((enumUpTo al n.toNat!).map fun r =>
        if validResource r then
          let (comps, d) := resource r
          if GlobSpec.matches p comps d cs then '1' else '0'
        else '-'))
  | "lru.run" => do
      let n ← args[0]?; let ops ← argList args 1
      some (lruRun n.toNat! ops)
  | "cache.run" => do
      let g ← args[0]?; let w ← args[1]?; let ops ← argList args 2
      some (cacheRun g.toNat! w.toNat! ops)
  | "glob.cached" => do
      let n ← args[0]?; let ops ← argList args 1
      some (cachedRun n.toNat! ops)
  | _ => none

end Fs.GlobDriver
