/-
  FsModel.OsSub — `SubFS(OSFS)` as coded: the `WrapFS`/`SubFS` methods (fs/wrapfs.py, fs/subfs.py)
  over `FsModel.Os`.  A `SubFS` holds no state of its own but its `closed` flag; every call is
  `self.check()`, `delegate_path` (= invalid characters of the raw path, then
  `join(sub_dir, relpath(normpath(path)))`, which is where an `InvalidCharsInPath` /
  `IllegalBackReference` surfaces *before* anything else), and then the same call on the parent
  OSFS with the translated path — except `removedir`/`removetree` (the view's root), `copy`/`copydir`
  (own checks, then `fs.copy.copy_file` / `copy_dir`) and `getinfo` (the root's name is `""`).

  The view `s.root` is embedded at `sub_dir` in the parent's tree (`outer`) exactly as the harness
  builds its `sub-os` backend: `OSFS(d).makedirs("x/y"); writebytes("outside", b"canary");
  opendir("x/y")`.  The error *classes* differ from a plain OSFS where the view's root is an
  ordinary directory of the parent (e.g. `openbin("/", "x")` is `FileExists`, from `EEXIST`).

  Validated by the correspondence only (`harness/props/_osexact.py`, backend `sub-os`); the
  theorems of `FsProofs/OsRefines.lean` are about `Os.step`.
-/
import FsModel.Os
import FsModel.Confine
import FsModel.Wrap

namespace Fs.OsSub
open Fs Fs.Path Fs.Ref Fs.Posix

abbrev M := State × Out

def subDir : Str := "/x/y".toList
def pre : List Name := ["x".toList, "y".toList]

/-- the parent OSFS's tree around the view -/
def outer (view : Node) : Node :=
  .dir [("x".toList, .dir [("y".toList, view)]), ("outside".toList, .file "canary".toUTF8.toList)]

def inner (t : Node) : Node := (t.get pre).getD (.dir [])

/-- `SubFS.delegate_path` as repaired in /repo 6fe32c8 (the parent's `invalid_path_chars` — `"\0"` for
OSFS — are refused on the raw path, then `Confine.subDelegate`): the one transcription shared with
the functor model `FsModel.Wrap` -/
def delegate (p : Str) : Res Str := Wrap.Sub.delegate subDir p

/-- the parent filesystem (always open) holding the view -/
def parent (s : State) : State := { root := outer s.root, closed := false }

/-- back from an outcome on the parent to an outcome on the view -/
def back (s : State) (r : State × Out) : M := ({ s with root := inner r.1.root }, r.2)

/-- `abspath(normpath(path)) == "/"` -/
def isRoot (p : Str) : Res Bool :=
  match normpath p with
  | .err e => .err e
  | .ok q => .ok (abspath q == ['/'])

/-- a pure delegate: `check()`, `delegate_path`, the same call on the parent -/
def deleg1 (s : State) (p : Str) (f : Str → Op) : M :=
  if s.closed then fail s .FilesystemClosed
  else match delegate p with
    | .err e => fail s e
    | .ok q => back s (Os.step (parent s) (f q))

def deleg2 (s : State) (a b : Str) (f : Str → Str → Op) : M :=
  if s.closed then fail s .FilesystemClosed
  else match delegate a with
    | .err e => fail s e
    | .ok qa =>
      match delegate b with
      | .err e => fail s e
      | .ok qb => back s (Os.step (parent s) (f qa qb))

/-- `WrapFS.removetree` on the view's root: `scandir` the directory and remove every entry -/
def clearDir (o : State) (q : Str) : List (Name × Bool) → State × Out
  | [] => (o, .ok .unit)
  | (name, isdir) :: rest =>
    let child := combine q name
    let r := if isdir then Os.removetree o child else Os.remove o child
    match r with
    | (o1, .err e) => (o1, .err e)
    | (o1, .ok _) => clearDir o1 q rest

def step (s : State) : Op → M
  | .close => ({ s with closed := true }, .ok .unit)
  | .exists_ p => deleg1 s p .exists_
  | .isdir p => deleg1 s p .isdir
  | .isfile p => deleg1 s p .isfile
  | .listdir p => deleg1 s p .listdir
  | .isempty p => deleg1 s p .isempty
  | .getsize p => deleg1 s p .getsize
  | .gettype p => deleg1 s p .gettype
  | .getinfo p =>
    (match deleg1 s p .getinfo with
     | (s1, .ok (.info n d sz)) =>
       (match isRoot p with
        | .ok true => (s1, .ok (.info [] d sz))
        | _ => (s1, .ok (.info n d sz)))
     | r => r)
  | .readbytes p => deleg1 s p .readbytes
  | .makedir p r => deleg1 s p (.makedir · r)
  | .makedirs p r => deleg1 s p (.makedirs · r)
  | .writebytes p d => deleg1 s p (.writebytes · d)
  | .appendbytes p d => deleg1 s p (.appendbytes · d)
  | .create p w => deleg1 s p (.create · w)
  | .touch p => deleg1 s p .touch
  | .settimes p => deleg1 s p .settimes
  | .openbin p m => deleg1 s p (.openbin · m)
  | .remove p => deleg1 s p .remove
  | .removedir p =>
    if s.closed then fail s .FilesystemClosed
    else match isRoot p with
      | .err e => fail s e
      | .ok true => fail s .RemoveRootError
      | .ok false => deleg1 s p .removedir
  | .removetree p =>
    if s.closed then fail s .FilesystemClosed
    else match isRoot p with
      | .err e => fail s e
      | .ok false => deleg1 s p .removetree
      | .ok true =>
        match delegate p with
        | .err e => fail s e
        | .ok q =>
          match Os.scandir (parent s) q with
          | .err e => fail s e
          | .ok l => back s (clearDir (parent s) q l)
  | .move a b o => deleg2 s a b (.move · · o)
  | .movedir a b c => deleg2 s a b (.movedir · · c)
  | .copy a b o =>
    -- `WrapFS.copy`: DestinationExists check, then `copy_file` → `copy_file_internal`
    -- (validatepath twice, same path → IllegalDestination, `src_fs.copy(.., overwrite=True)`)
    if s.closed then fail s .FilesystemClosed
    else match delegate a with
      | .err e => fail s e
      | .ok qa =>
        match delegate b with
        | .err e => fail s e
        | .ok qb =>
          match (if o then Res.ok false else Os.exists_ (parent s) qb) with
          | .err e => fail s e
          | .ok true => fail s .DestinationExists
          | .ok false =>
            match Os.vpath (parent s) qa with
            | .err e => fail s e
            | .ok ca =>
              match Os.vpath (parent s) qb with
              | .err e => fail s e
              | .ok cb =>
                if ca = cb then fail s .IllegalDestination
                else back s (Os.copy (parent s) qa qb true)
  | .copydir a b c =>
    -- `WrapFS.copydir`: destination check, source check, then `copy_dir` (= `copy_structure`'s
    -- IllegalDestination check, `makedirs(dst, recreate=True)`, the merge)
    if s.closed then fail s .FilesystemClosed
    else match delegate a with
      | .err e => fail s e
      | .ok qa =>
        match delegate b with
        | .err e => fail s e
        | .ok qb =>
          let o := parent s
          match (if c then Res.ok true else Os.exists_ o qb) with
          | .err e => fail s e
          | .ok false => fail s .ResourceNotFound
          | .ok true =>
            match Os.getinfo o qa with
            | .err e => fail s e
            | .ok (_, false, _) => fail s .DirectoryExpected
            | .ok (_, true, _) => back s (Os.copydir o qa qb true)

end Fs.OsSub
