/-
  FsModel.ParseDriver — line-protocol commands for the C20 models (URL parser / builder,
  FTP LIST / MLSD / FEAT parsers, calendar arithmetic).

  Conventions: strings hex-encoded (`-` = empty), optional values `~` when absent, lists
  `L<hex>,<hex>…`, association lists as a flat list `k1,v1,k2,v2…`, integers in decimal.
-/
import FsModel.Parse
import FsModel.FtpParse
import FsModel.Proto

namespace Fs.ParseDriver
open Fs Fs.Parse Fs.FtpParse Fs.Proto

def optStr : Option Str → String
  | none => "~"
  | some s => str s

def optNat : Option Nat → String
  | none => "~"
  | some n => toString n

def optInt : Option Int → String
  | none => "~"
  | some n => toString n

def alist (l : List (Str × Str)) : String := strList (l.flatMap fun kv => [kv.1, kv.2])

def argOpt (args : List String) (i : Nat) : Option (Option Str) := do
  let a ← args[i]?
  if a == "~" then some none else (hexToStr a).map some

def argNat (args : List String) (i : Nat) : Option Nat := do
  let a ← args[i]?
  a.toNat?

def argInt (args : List String) (i : Nat) : Option Int := do
  let a ← args[i]?
  a.toInt?

def pairs : List Str → Option (List (Str × Str))
  | [] => some []
  | k :: v :: rest => (pairs rest).map ((k, v) :: ·)
  | [_] => none

def parseResult (r : ParseResult) : String :=
  " ".intercalate [str r.protocol, optStr r.username, optStr r.password, str r.resource,
    alist r.params, optStr r.path]

def groups (g : UrlGroups) : String :=
  " ".intercalate [str g.fsName, optStr g.credentials, optStr g.url1, optStr g.url2, optStr g.path]

def listInfo (i : ListInfo) : String :=
  " ".intercalate ["I", str i.name, bool i.isDir, optNat i.size, optInt i.modified,
    (match i.perms with | none => "~" | some l => strList l), optStr i.user, optStr i.group,
    str i.ls]

def optListInfo : Option ListInfo → String
  | none => "N"
  | some i => listInfo i

def optOptInt : Option (Option Int) → String
  | none => "~"
  | some none => "N"
  | some (some n) => toString n

def mlsdInfo (i : MlsdInfo) : String :=
  " ".intercalate ["M", str i.name, bool i.isDir, alist i.facts, toString i.size,
    optOptInt i.modified, optOptInt i.created]

def many (f : α → String) (l : List α) : String :=
  toString l.length ++ (if l.isEmpty then "" else " " ++ " ; ".intercalate (l.map f))

def clsFlags (c : Char) : String :=
  String.ofList [if isSpace c then 's' else '-', if isDigit c then 'd' else '-',
    if isWord c then 'w' else '-', if isDigitProp c then 'D' else '-',
    if isLineBreak c then 'b' else '-', if isIntSpace c then 'i' else '-']

def handle (cmd : String) (args : List String) : Option String :=
  match cmd with
  | "parse.url" => do let s ← arg args 0; some (res parseResult (parseFsUrl s))
  | "parse.open" => do
      let known ← argList args 0; let dflt ← arg args 1; let url ← arg args 2
      some (res (fun ur => str ur.1 ++ " " ++ parseResult ur.2)
        (registryOpen known "osfs".toList dflt url))
  | "parse.re" => do
      let s ← arg args 0
      some (match reFsUrl s with | none => "ok N" | some g => "ok " ++ groups g)
  | "parse.build" => do
      let proto ← arg args 0; let u ← argOpt args 1; let p ← argOpt args 2
      let r ← arg args 3; let ps ← argList args 4; let path ← argOpt args 5
      let params ← pairs ps
      let x : ParseResult := ⟨proto, u, p, r, params, path⟩
      some ("ok " ++ str (buildFsUrl x))
  | "parse.unquote" => do let s ← arg args 0; some ("ok " ++ str (unquote s))
  | "parse.quote" => do let s ← arg args 0; some ("ok " ++ str (quoteAll s))
  | "parse.urlquote" => do let s ← arg args 0; some ("ok " ++ str (urlQuote s))
  | "parse.hasdrive" => do let s ← arg args 0; some ("ok " ++ bool (hasDriveLetter s))
  | "parse.qs" => do let s ← arg args 0; some ("ok " ++ alist (parseParams s))
  | "parse.linux" => do
      let l ← arg args 0; let y ← argNat args 1
      some (match reLinux l with
        | none => "ok N"
        | some g => res listInfo (decodeLinux y l g))
  | "parse.nt" => do
      let l ← arg args 0; let y ← argNat args 1
      some (match reNt l with
        | none => "ok N"
        | some g => res listInfo (decodeNt y l g))
  | "parse.line" => do
      let l ← arg args 0; let y ← argNat args 1
      some (res optListInfo (parseLine y l))
  | "parse.list" => do
      let ls ← argList args 0; let y ← argNat args 1
      some (res (many listInfo) (parse y ls))
  | "parse.time.linux" => do
      let t ← arg args 0; let y ← argNat args 1
      some (res optInt (decodeLinuxTime y t))
  | "parse.time.nt" => do
      let t ← arg args 0; let y ← argNat args 1
      some (res optInt (decodeNtTime y t))
  | "parse.perms" => do let s ← arg args 0; some ("ok " ++ strList (permNames s))
  | "parse.mlsd" => do let ls ← argList args 0; some (res (many mlsdInfo) (parseMlsx ls))
  | "parse.facts" => do
      let l ← arg args 0
      let r := parseFacts l
      some ("ok " ++ optStr r.1 ++ " " ++ alist r.2)
  | "parse.ftptime" => do let t ← arg args 0; some (res optInt (parseFtpTime t))
  | "parse.feat" => do let s ← arg args 0; some ("ok " ++ alist (parseFeatures s))
  | "parse.int" => do let s ← arg args 0; some ("ok " ++ optInt (pyInt s))
  | "parse.strip" => do let s ← arg args 0; some ("ok " ++ str (strip s))
  | "parse.lower" => do let s ← arg args 0; some ("ok " ++ str (lower s))
  | "parse.splitlines" => do let s ← arg args 0; some ("ok " ++ strList (splitlines s))
  | "parse.cls" => do
      let s ← arg args 0
      some ("ok " ++ " ".intercalate (s.map clsFlags))
  | "info.epoch" => do
      let y ← argNat args 0; let m ← argNat args 1; let d ← argNat args 2
      let h ← argNat args 3; let mi ← argNat args 4; let s ← argNat args 5
      some (if validDate y m d then "ok " ++ toString (epochOf y m d h mi s) else "err ValueError")
  | "info.timegm" => do
      let y ← argInt args 0; let m ← argInt args 1; let d ← argInt args 2
      let h ← argInt args 3; let mi ← argInt args 4; let s ← argInt args 5
      some (res toString (timegm y m d h mi s))
  | "info.civil" => do
      let d ← argInt args 0
      let r := civilFromDays d
      some ("ok " ++ toString r.1 ++ " " ++ toString r.2.1 ++ " " ++ toString r.2.2)
  | _ => none

end Fs.ParseDriver
