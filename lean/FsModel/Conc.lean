/-
  FsModel.Conc — C08: methods as sequences of atomic segments, interleaving semantics,
  linearizability.

  A thread executes a list of instructions `acq l | rel l | step f`.  `step f` is one atomic
  access to the shared state `σ` (it may also update the thread's local variables `τ`);
  `acq l` can only be executed while lock `l` is free (mutual exclusion: the lock's contract,
  trusted) and `rel l` frees it.  Re-entrant acquisition is flattened away by the extractor
  (a nested `with self._lock` inside a locked block adds no instruction), so the model's locks
  need not be re-entrant.  A *locked segment* of the generated LockTable is `acq 0 :: steps ++
  [rel 0]`; an *unlocked segment* is its steps alone, one instruction per shared-state access.
  A schedule is the list of thread ids in the order they take steps — exactly what the
  deterministic scheduler of `harness/sched.py` replays on the real code.
-/
import FsModel.Ref
import FsModel.LockTypes

namespace Fs.Conc
open Fs Fs.Ref

/-! ### the generic machine -/

inductive Instr (σ τ : Type) where
  | acq (l : Nat)
  | rel (l : Nat)
  | step (f : σ → τ → σ × τ)

structure Cfg (σ τ : Type) where
  sh : σ
  locs : List τ
  progs : List (List (Instr σ τ))
  owner : Nat → Option Nat

namespace Cfg
variable {σ τ : Type}

def init (s : σ) (locs : List τ) (progs : List (List (Instr σ τ))) : Cfg σ τ :=
  { sh := s, locs := locs, progs := progs, owner := fun _ => none }

/-- every thread has run to completion -/
def done (c : Cfg σ τ) : Bool := c.progs.all (·.isEmpty)

/-- thread `i` executes its next instruction; `none` = it has none, or it is blocked on a lock -/
def stepT (c : Cfg σ τ) (i : Nat) : Option (Cfg σ τ) :=
  match c.progs[i]?, c.locs[i]? with
  | some (ins :: rest), some loc =>
    match ins with
    | .acq l =>
      if (c.owner l).isNone then
        some { c with progs := c.progs.set i rest, owner := fun x => if x = l then some i else c.owner x }
      else none
    | .rel l =>
      some { c with progs := c.progs.set i rest, owner := fun x => if x = l then none else c.owner x }
    | .step f =>
      let r := f c.sh loc
      some { c with sh := r.1, locs := c.locs.set i r.2, progs := c.progs.set i rest }
  | _, _ => none

/-- run a schedule (list of thread ids); `none` = the schedule is not executable -/
def exec (c : Cfg σ τ) : List Nat → Option (Cfg σ τ)
  | [] => some c
  | i :: is => match c.stepT i with
    | some c' => exec c' is
    | none => none

/-- the threads that can take a step now -/
def enabled (c : Cfg σ τ) : List Nat := (List.range c.progs.length).filter fun i => (c.stepT i).isSome

/-- some thread is unfinished and none can move -/
def deadlocked (c : Cfg σ τ) : Bool := !c.done && c.enabled.isEmpty

def size (c : Cfg σ τ) : Nat := (c.progs.map List.length).sum

/-- all maximal schedules from `c` with the configuration they end in (finished or deadlocked);
`fuel ≥ size c` explores everything -/
def runs : Nat → Cfg σ τ → List (List Nat × Cfg σ τ)
  | 0, c => [([], c)]
  | fuel + 1, c =>
    match c.enabled with
    | [] => [([], c)]
    | en => en.flatMap fun i =>
      match c.stepT i with
      | some c' => (runs fuel c').map fun (s, e) => (i :: s, e)
      | none => []

def allRuns (c : Cfg σ τ) : List (List Nat × Cfg σ τ) := runs c.size c

end Cfg

/-- the body of a thread run alone, atomically -/
def runBody {σ τ : Type} : List (σ → τ → σ × τ) → σ × τ → σ × τ
  | [], x => x
  | f :: fs, x => runBody fs (f x.1 x.2)

/-- one locked block: `with self._lock: body` -/
def lockedProg {σ τ : Type} (l : Nat) (body : List (σ → τ → σ × τ)) : List (Instr σ τ) :=
  .acq l :: (body.map .step ++ [.rel l])

/-- sequential reference: the calls in `order` run one after the other, each atomically -/
def seqExec {σ τ : Type} (bodies : List (List (σ → τ → σ × τ))) : List Nat → σ × List τ → σ × List τ
  | [], x => x
  | i :: is, x =>
    match bodies[i]?, x.2[i]? with
    | some b, some loc =>
      let r := runBody b (x.1, loc)
      seqExec bodies is (r.1, x.2.set i r.2)
    | _, _ => seqExec bodies is x

/-! ### MemoryFS / FS calls as segment lists over the reference tree -/

/-- thread-local variables of a call: its result once known (an exception ends the call: the
remaining steps become no-ops), and the content a `readbytes` has read -/
structure Loc where
  out : Option Out := none
  deriving Inhabited

abbrev I := Instr State Loc
abbrev Step := State → Loc → State × Loc

/-- a whole reference operation as one atomic step -/
def whole (op : Op) : Step := fun s l =>
  match l.out with
  | some _ => (s, l)
  | none => let r := step s op; (r.1, { out := some r.2 })

/-- a sub-call whose failure ends the call and whose success lets it continue (`k` inspects the
value: `none` = go on, `some o` = finish with `o`) -/
def sub (op : Op) (k : Val → Option Out) : Step := fun s l =>
  match l.out with
  | some _ => (s, l)
  | none =>
    let r := step s op
    match r.2 with
    | .err e => (r.1, { out := some (.err e) })
    | .ok v => (r.1, { out := k v })

/-- positional write of `data` at offset 0 of an existing file (what `_MemoryFile.write` does on
the shared BytesIO of the entry after another writer has put bytes there) -/
def overlay (data old : Bytes) : Bytes := data ++ old.drop data.length

/-- `write_file.write(contents)` of `FS.writebytes`: the file object was opened (created and
truncated) by an earlier step; the write lands at offset 0 of whatever the entry holds *now*.
Entry identity is not modelled: the step addresses the file by path (faithful as long as no
concurrent call unlinks or moves that file — the harness only compares such call sets). -/
def writeAt (p : Str) (data : Bytes) : Step := fun s l =>
  match l.out with
  | some _ => (s, l)
  | none =>
    match validate p with
    | .err e => (s, { out := some (.err e) })
    | .ok cs =>
      match s.root.get cs with
      | some (.file old) => ({ s with root := s.root.set cs (.file (overlay data old)) }, { out := some (.ok .unit) })
      | _ => (s, { out := some (.ok .unit) })

/-- which methods the implementation runs as one locked block.  Chosen from the GENERATED lock
table by the driver (`Impl.ofTable`), so the model follows the code that exists. -/
structure Impl where
  /-- `removedir` is one locked block (true once `MemoryFS.removedir` takes `self._lock`) -/
  removedirAtomic : Bool
  /-- `move` is one locked block (`MemoryFS.move`); false = `FS.move`: pre-checks outside the lock -/
  moveAtomic : Bool
  /-- `writebytes` is one locked block; false = `FS.writebytes`: open / write / close -/
  writebytesAtomic : Bool
  /-- `readbytes` is one locked block; false = `FS.readbytes`: open / read / close -/
  readbytesAtomic : Bool
  deriving DecidableEq, Repr

/-- the instruction list of one call -/
def segments (impl : Impl) : Op → List I
  | .removedir p =>
    if impl.removedirAtomic then lockedProg 0 [whole (.removedir p)]
    else
      -- _path = validatepath(path); if _path == "/": raise RemoveRootError     (thread-local)
      -- if not self.isempty(path): raise DirectoryNotEmpty                     (one locked block)
      -- self.removetree(_path)                                                 (another locked block)
      lockedProg 0 [fun s l =>
          match validate p with
          | .err e => (s, { out := some (.err e) })
          | .ok [] => (s, { out := some (.err .RemoveRootError) })
          | .ok _ => sub (.isempty p) (fun v => if v = .bool true then none else some (.err .DirectoryNotEmpty)) s l]
        ++ lockedProg 0 [whole (.removetree p)]
  | .move a b ow =>
    if impl.moveAtomic then lockedProg 0 [whole (.move a b ow)]
    else
      -- FS.move: `if not overwrite and self.exists(dst)`, `if self.getinfo(src).is_dir`,
      -- `if src == dst: return` outside the lock; then `with self._lock:` copy + remove
      (if ow then [] else
        lockedProg 0 [sub (.exists_ b) (fun v => if v = .bool true then some (.err .DestinationExists) else none)])
        ++ lockedProg 0 [fun s l =>
            match validate a, validate b with
            | .ok ca, .ok cb =>
              sub (.getinfo a) (fun v => match v with
                | .info _ true _ => some (.err .FileExpected)
                | _ => if ca = cb then some (.ok .unit) else none) s l
            | .err e, _ => (s, { out := l.out.orElse fun _ => some (.err e) })
            | _, .err e => (s, { out := l.out.orElse fun _ => some (.err e) })]
        ++ lockedProg 0 [whole (.move a b true)]
  | .writebytes p d =>
    if impl.writebytesAtomic then lockedProg 0 [whole (.writebytes p d)]
    else
      -- open(path, "wb"): one locked block in MemoryFS.openbin (create / truncate);
      -- write(): under the entry's own lock only; close(): no tree access
      lockedProg 0 [sub (.writebytes p []) (fun _ => none)] ++ [.step (writeAt p d)]
  | .readbytes p =>
    if impl.readbytesAtomic then lockedProg 0 [whole (.readbytes p)]
    else
      -- open(path, "rb"): one locked block in MemoryFS.openbin; read(): under the entry's own
      -- lock only (by path here, see `writeAt`); close(): no tree access
      lockedProg 0 [sub (.readbytes p) (fun _ => none)] ++ [.step (whole (.readbytes p))]
  | op => lockedProg 0 [whole op]

/-- is the call a single locked block under this implementation? -/
def isAtomic (impl : Impl) : Op → Bool
  | .removedir _ => impl.removedirAtomic
  | .move _ _ _ => impl.moveAtomic
  | .writebytes _ _ => impl.writebytesAtomic
  | .readbytes _ => impl.readbytesAtomic
  | _ => true

def initCfg (impl : Impl) (s : State) (calls : List Op) : Cfg State Loc :=
  Cfg.init s (calls.map fun _ => {}) (calls.map (segments impl))

/-- what is observable of a tree: every path with its kind and, for files, its bytes -/
def obsTree (t : Node) : List (List Name × Option Bytes) :=
  (t.walk []).map fun (p, n) => (p, match n with | .file b => some b | .dir _ => none)

/-- observable outcome of a finished run: per-call results and the final tree -/
def obs (c : Cfg State Loc) : List (Option Out) × List (List Name × Option Bytes) :=
  (c.locs.map (·.out), obsTree c.sh.root)

/-- the calls run sequentially (whole `Ref.step`s) in the given order of indices -/
def seqRef (calls : List Op) : List Nat → State × List (Option Out) → State × List (Option Out)
  | [], x => x
  | i :: is, x =>
    match calls[i]? with
    | some op => let r := step x.1 op; seqRef calls is (r.1, x.2.set i (some r.2))
    | none => seqRef calls is x

def seqObs (calls : List Op) (s : State) (order : List Nat) :
    List (Option Out) × List (List Name × Option Bytes) :=
  let r := seqRef calls order (s, calls.map fun _ => none)
  (r.2, obsTree r.1.root)

/-- all orders of `0 … n-1` -/
def perms : List Nat → List (List Nat)
  | [] => [[]]
  | x :: xs => (perms xs).flatMap fun p => (List.range (p.length + 1)).map fun k => p.take k ++ x :: p.drop k

/-- **linearizable**: every executable complete schedule ends with per-call results and a final
tree that some sequential order of the same calls produces -/
def Linearizable (impl : Impl) (calls : List Op) (s : State) : Prop :=
  ∀ sched c', (initCfg impl s calls).exec sched = some c' → c'.done = true →
    ∃ order, order.Perm (List.range calls.length) ∧ obs c' = seqObs calls s order

/-- executable check of one finished configuration against all sequential orders -/
def linOk (calls : List Op) (s : State) (c : Cfg State Loc) : Bool :=
  (perms (List.range calls.length)).any fun order => obs c == seqObs calls s order

abbrev Obs := List (Option Out) × List (List Name × Option Bytes)

/-- run one schedule to the end and compare: it is executable, complete, shows exactly the
observation `expected`, and its linearizability verdict is `lin` -/
def scheduleShows (impl : Impl) (s : State) (calls : List Op) (sched : List Nat) (expected : Obs) (lin : Bool) : Bool :=
  match (initCfg impl s calls).exec sched with
  | some c => c.done && obs c == expected && linOk calls s c == lin
  | none => false

theorem scheduleShows_spec {impl : Impl} {s : State} {calls : List Op} {sched : List Nat} {expected : Obs}
    {lin : Bool} (h : scheduleShows impl s calls sched expected lin = true) :
    ∃ c, (initCfg impl s calls).exec sched = some c ∧ c.done = true ∧ obs c = expected ∧
      linOk calls s c = lin := by
  unfold scheduleShows at h
  cases hc : (initCfg impl s calls).exec sched with
  | none => rw [hc] at h; cases h
  | some c =>
    rw [hc] at h
    simp only [Bool.and_eq_true, beq_iff_eq] at h
    exact ⟨c, rfl, h.1.1, h.1.2, h.2⟩

/-- every maximal run from `c` ends in a configuration satisfying `p` (no lists are built) -/
def Cfg.forallRuns {σ τ : Type} (p : Cfg σ τ → Bool) : Nat → Cfg σ τ → Bool
  | 0, c => p c
  | fuel + 1, c =>
    if (List.range c.progs.length).any (fun i => (c.stepT i).isSome) then
      (List.range c.progs.length).all fun i => match c.stepT i with
        | some c' => Cfg.forallRuns p fuel c'
        | none => true
    else p c

/-! ### Impl from the generated lock table -/

def Impl.ofShapes (removedir move writebytes readbytes : Lock.Shape) : Impl :=
  { removedirAtomic := removedir == .singleLocked,
    moveAtomic := move == .singleLocked,
    writebytesAtomic := writebytes == .singleLocked,
    readbytesAtomic := readbytes == .singleLocked }

/-! ### two filesystems, two locks: `copy_dir(A, B) ‖ copy_dir(B, A)` -/

/-- `with src_fs.lock(), dst_fs.lock(): …` : locks taken in argument order -/
def twoLockProg {σ τ : Type} (first second : Nat) (body : List (σ → τ → σ × τ)) : List (Instr σ τ) :=
  .acq first :: .acq second :: (body.map .step ++ [.rel second, .rel first])

/-! ### LRUCache (fs/lrucache.py) as a small state machine -/

namespace Lru

/-- the OrderedDict: keys with values, oldest first -/
abbrev Cache := List (Nat × Nat)

structure LLoc where
  val : Option Nat := none     -- the value (compiled pattern) the call ends up using
  raised : Bool := false       -- a KeyError is propagating out of the call
  miss : Bool := false         -- the caller caught the KeyError and took the compile path
  evict : Bool := false        -- `__setitem__` decided to evict the oldest entry
  deriving DecidableEq, Repr, Inhabited

def lookup (k : Nat) : Cache → Option Nat
  | [] => none
  | (a, v) :: r => if a = k then some v else lookup k r

def erase (k : Nat) : Cache → Cache
  | [] => []
  | (a, v) :: r => if a = k then r else (a, v) :: erase k r

/-- `OrderedDict.__setitem__`: in place when present (position kept), else appended -/
def put (k v : Nat) : Cache → Cache
  | [] => [(k, v)]
  | (a, w) :: r => if a = k then (a, v) :: r else (a, w) :: put k v r

/-- `LRUCache.__getitem__`: three C-level steps, each atomic under the GIL -/
def getitem (k : Nat) : List (Instr Cache LLoc) :=
  [ .step fun c l => if l.raised then (c, l) else
      match lookup k c with
      | some v => (c, { l with val := some v })
      | none => (c, { l with raised := true }),           -- value = _super.__getitem__(key)
    .step fun c l => if l.raised then (c, l) else
      match lookup k c with
      | some _ => (erase k c, l)
      | none => (c, { l with raised := true }),           -- _super.__delitem__(key)
    .step fun c l => if l.raised then (c, l) else
      (put k (l.val.getD 0) c, l) ]                       -- _super.__setitem__(key, value)

/-- `LRUCache.__setitem__` with capacity `cap` (executed when `guard` holds):
`if key not in self: if len(self) >= cap: self.popitem(last=False)`; `OrderedDict.__setitem__` -/
def setitemSteps (cap k v : Nat) (guard : LLoc → Bool) : List (Instr Cache LLoc) :=
  [ .step fun c l => if guard l && !l.raised then
        (c, { l with evict := (lookup k c).isNone && decide (c.length ≥ cap) }) else (c, l),
    .step fun c l => if guard l && !l.raised && l.evict then
        (match c with
         | [] => (c, { l with raised := true })           -- popitem on an empty dict: KeyError
         | _ :: r => (r, l))
      else (c, l),
    .step fun c l => if guard l && !l.raised then (put k v c, l) else (c, l) ]

def setitem (cap k v : Nat) : List (Instr Cache LLoc) := setitemSteps cap k v (fun _ => true)

/-- the caller pattern of `wildcard.match` / `glob.match`:
`try: pat = CACHE[key]` / `except KeyError: pat = compile(...); CACHE[key] = pat`;
the match result only depends on `pat` (= `val` at the end) -/
def lookupCall (k compiled : Nat) : List (Instr Cache LLoc) :=
  getitem k ++
  [ .step fun c l => if l.raised then (c, { l with raised := false, miss := true, val := some compiled }) else (c, l) ]

def matchCall (cap k compiled : Nat) : List (Instr Cache LLoc) :=
  getitem k ++
  [ .step fun c l => if l.raised then (c, { l with raised := false, miss := true, val := some compiled }) else (c, l) ] ++
  setitemSteps cap k compiled (·.miss)

end Lru

end Fs.Conc
