/-
  FsModel.FaultDriver — line protocol for the fault model (property C07).

    fault.steps <cfg> <storeA> <storeB>             numbered primitive steps of the un-faulted run
    fault.run   <cfg> <k|-> <kind> <late> <A> <B>   outcome of the run with step k failing
    fault.sweep <cfg> <A> <B>                       one record per (k, kind) of the whole sweep

  <cfg>   = comma separated `key=value`:  op=movefile|movedir|movefs|fsmove|fsmovedir|memmove|
            memmovedir, same=0|1, src/dst=base|mem|os, pt, cl, ow, cr, pta = 0|1, chunk=<bytes per read>,
            sp/dp = hex of the `/`-joined source / destination path (`-` = root)
  <store> = `S` then `;`-separated `D<hexpath>` | `F<hexpath>:<hexbytes>`
  <kind>  = fserr | oserr | crash
-/
import FsModel.Fault
import FsModel.Path
import FsModel.Proto

namespace Fs.FaultDriver
open Fs Fs.Fault

def splitPath (s : Str) : Path := (Path.splitSlash s).filter (· ≠ [])

def joinPath (p : Path) : Str := Path.joinSlash p

def loadStore (s : String) : Option Store := do
  if !s.startsWith "S" then none
  let body := (s.drop 1).toString
  if body.isEmpty then return ⟨[], []⟩
  let mut files : Files := []
  let mut dirs : List Path := []
  for e in body.splitOn ";" do
    if e.startsWith "D" then
      let p ← hexToStr (e.drop 1).toString
      dirs := dirs ++ [splitPath p]
    else if e.startsWith "F" then
      match (e.drop 1).toString.splitOn ":" with
      | [ph, bh] =>
        let p ← hexToStr ph
        let b ← hexToBytes bh
        files := files ++ [(splitPath p, b)]
      | _ => none
    else none
  return ⟨files, dirs⟩

def dumpStore (st : Store) : String :=
  "S" ++ ";".intercalate
    (st.dirs.map (fun d => "D" ++ strToHex (joinPath d)) ++
     st.files.map (fun e => "F" ++ strToHex (joinPath e.1) ++ ":" ++ bytesToHex e.2))

inductive Op where
  | movefile | movedir | movefs | fsmove | fsmovedir | memmove | memmovedir
  deriving DecidableEq

structure Req where
  op : Op
  cfg : Cfg
  sp : Path
  dp : Path

def parseBackend : String → Option Backend
  | "base" => some .base | "mem" => some .mem | "os" => some .os | _ => none

def parseOp : String → Option Op
  | "movefile" => some .movefile | "movedir" => some .movedir | "movefs" => some .movefs
  | "fsmove" => some .fsmove | "fsmovedir" => some .fsmovedir | "memmove" => some .memmove
  | "memmovedir" => some .memmovedir | _ => none

def parseReq (s : String) : Option Req := do
  let kvs := (s.splitOn ",").filterMap fun kv =>
    match kv.splitOn "=" with
    | [k, v] => some (k, v)
    | _ => none
  let get (k : String) : Option String := (kvs.find? (·.1 == k)).map (·.2)
  let flag (k : String) (d : Bool) : Bool := match get k with | some "1" => true | some "0" => false | _ => d
  let op ← get "op" >>= parseOp
  let src := (get "src" >>= parseBackend).getD .mem
  let dst := (get "dst" >>= parseBackend).getD .mem
  let chunk := ((get "chunk") >>= String.toNat?).getD 1048576
  let sp ← hexToStr ((get "sp").getD "-")
  let dp ← hexToStr ((get "dp").getD "-")
  let cfg : Cfg :=
    { same := flag "same" false, srcB := src, dstB := dst, preserve := flag "pt" false,
      cleanup := flag "cl" true, overwrite := flag "ow" true, create := flag "cr" true,
      ptAfterAtomic := flag "pta" true,
      chunk := chunk - 1 }
  return ⟨op, cfg, splitPath sp, splitPath dp⟩

/-- the program of a request and the (source root, destination root, destination side) its
    observables refer to -/
def progOf (r : Req) (s : State) : Prog × Side :=
  match r.op with
  | .movefile => (moveFile r.cfg s r.sp r.dp, r.cfg.dstSide)
  | .movedir => (moveDir r.cfg s r.sp r.dp, r.cfg.dstSide)
  | .movefs => (moveFs r.cfg s, r.cfg.dstSide)
  | .fsmove =>
      (fsMove r.cfg s (decide (r.cfg.srcB = .os)) .a r.sp .a r.dp, .a)
  | .fsmovedir => (fsMovedir r.cfg s r.sp r.dp, .a)
  | .memmove => (memMove r.cfg r.sp r.dp, .a)
  | .memmovedir => (memMovedir r.cfg s r.sp r.dp, .a)

def roots (r : Req) : Path × Path :=
  match r.op with
  | .movefs => ([], [])
  | _ => (r.sp, r.dp)

/-- the primitive steps a run executes, in order (driver only; mirrors `exec`) -/
def trace (f : Option Fault) : Prog → Nat → State → List Prim
  | .skip, _, _ => []
  | .prim p, _, _ => [p]
  | .raise _, _, _ => []
  | .seq a b, n, s =>
    let r := exec f a n s
    trace f a n s ++ (if r.out = .ok then trace f b r.ctr r.state else [])
  | .tryCatch p c h _, n, s =>
    let r := execPrim f p n s
    p :: (match r.out with
          | .raised x => if c.matches x then trace f h r.ctr r.state else []
          | _ => [])
  | .tryElse p c h e, n, s =>
    let r := execPrim f p n s
    p :: (match r.out with
          | .ok => trace f e r.ctr r.state
          | .raised x => if c.matches x then trace f h r.ctr r.state else []
          | .crashed => [])
  | .tryFinally b fin, n, s =>
    let r := exec f b n s
    trace f b n s ++ (if r.out = .crashed then [] else trace f fin r.ctr r.state)

def sideStr : Side → String
  | .a => "a" | .b => "b"

def excStr : Exc → String
  | .fs e => e.name
  | .os => "OSError"

def outStr : Out → String
  | .ok => "ok" | .raised x => "raised:" ++ excStr x | .crashed => "crashed"

def kindStr : Kind → String
  | .fserr => "fserr" | .oserr => "oserr" | .crash => "crash"

def parseKind : String → Option Kind
  | "fserr" => some .fserr | "oserr" => some .oserr | "crash" => some .crash | _ => none

def obs (r : Req) (τ : Side) (s s' : State) : String :=
  let (root, droot) := roots r
  "src_intact=" ++ boolStr (srcIntactB s s' root) ++
  " dst_complete=" ++ boolStr (dstCompleteB τ s s' root droot) ++
  " no_loss=" ++ boolStr (noLossB τ s s' root droot)

def handle (cmd : String) (args : List String) : Option String :=
  match cmd with
  | "fault.steps" => do
      let r ← args[0]? >>= parseReq
      let a ← args[1]? >>= loadStore
      let b ← args[2]? >>= loadStore
      let s : State := { a := a, b := b }
      let (prog, _) := progOf r s
      let tr := trace none prog 0 s
      let items := tr.zipIdx.map fun (p, i) =>
        toString i ++ ":" ++ p.name ++ ":" ++ sideStr p.side ++ ":" ++ strToHex (joinPath p.path)
      some ("ok " ++ toString tr.length ++ " " ++ ";".intercalate items)
  | "fault.run" => do
      let r ← args[0]? >>= parseReq
      let ks ← args[1]?
      let kind ← args[2]? >>= parseKind
      let late := args[3]? == some "1"
      let a ← args[4]? >>= loadStore
      let b ← args[5]? >>= loadStore
      let s : State := { a := a, b := b }
      let (prog, τ) := progOf r s
      let (root, droot) := roots r
      let res :=
        match ks.toNat? with
        | some k => exec (some ⟨k, kind, late⟩) prog 0 s
        | none => run prog s
      let before := match ks.toNat? with
        | some k => prefixRun prog k s
        | none => s
      some ("ok out=" ++ outStr res.out ++ " hit=" ++ boolStr res.hit ++
            " phase=" ++ toString (phaseOf τ s before root droot) ++ " " ++ obs r τ s res.state ++
            " steps=" ++ toString res.ctr ++ " " ++ dumpStore res.state.a ++ " " ++ dumpStore res.state.b)
  | "fault.sweep" => do
      let r ← args[0]? >>= parseReq
      let a ← args[1]? >>= loadStore
      let b ← args[2]? >>= loadStore
      let s : State := { a := a, b := b }
      let (prog, τ) := progOf r s
      let (root, droot) := roots r
      let base := run prog s
      let tr := trace none prog 0 s
      let recs := tr.zipIdx.flatMap fun (p, k) =>
        let before := prefixRun prog k s
        let ph := phaseOf τ s before root droot
        [Kind.fserr, Kind.oserr, Kind.crash].map fun kind =>
          let res := runFault prog k kind s
          toString k ++ ":" ++ kindStr kind ++ ":" ++ p.name ++ ":" ++ sideStr p.side ++ ":" ++
          toString ph ++ ":" ++ outStr res.out ++ ":" ++ boolStr res.hit ++ ":" ++
          boolStr (srcIntactB s res.state root) ++ ":" ++
          boolStr (dstCompleteB τ s res.state root droot) ++ ":" ++
          boolStr (noLossB τ s res.state root droot)
      some ("ok base=" ++ outStr base.out ++ " " ++ obs r τ s base.state ++ " n=" ++ toString tr.length ++
            " " ++ ";".intercalate recs)
  | _ => none

end Fs.FaultDriver
