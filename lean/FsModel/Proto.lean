/-
  FsModel.Proto — value rendering for the line protocol of the driver.
-/
import FsModel.Basic

namespace Fs.Proto
open Fs

def str (s : Str) : String := strToHex s
def strList (l : List Str) : String := "L" ++ ",".intercalate (l.map strToHex)
def bool (b : Bool) : String := boolStr b

def res (f : α → String) : Res α → String
  | .ok a => "ok " ++ f a
  | .err e => "err " ++ e.name

def arg (args : List String) (i : Nat) : Option Str := do
  let a ← args[i]?
  hexToStr a

/-- decode a comma separated list of hex strings (`L` prefix) -/
def argList (args : List String) (i : Nat) : Option (List Str) := do
  let a ← args[i]?
  if a.startsWith "L" then
    let body := (a.drop 1).toString
    if body.isEmpty then some [] else (body.splitOn ",").mapM hexToStr
  else none

end Fs.Proto
