import FsModel.Os
import FsModel.OsSub
import FsModel.RefDriver
import FsModel.Proto

namespace Fs.OsDriver
open Fs Fs.Ref Fs.Proto Fs.RefDriver

def sysReply (r : Posix.Sys Node) (t : Node) : String :=
  match r with
  | .ok t' => "ok | " ++ dumpTree t'
  | .error e => "err " ++ e.name ++ " | " ++ dumpTree t

def comps (args : List String) (i : Nat) : Option (List Name) := do
  let p ← arg args i
  pure (Path.splitSlash p |>.filter (· ≠ []))

/-- `os.step <closed 0|1> <tree> <op> <args…>` (plain OSFS) and `ossub.step …` (`SubFS(OSFS)` at `x/y`)
    → same reply format as `mem.step`:
    `<ok v|err E> | <tree'> | <closed'> | adm= | wf=<0|1>`

    `posix.sys <tree> <call> <path> [<path2>|<mode>]` → `ok[ <value>] | <tree'>` or `err <ERRNO> | <tree>`
    (the POSIX model on its own, compared with the real kernel by the harness) -/
def handle (cmd : String) (args : List String) : Option String :=
  match cmd with
  | "os.step" => do
    let c ← args[0]?
    let t ← loadTree (← args[1]?)
    let op ← parseOp (args.drop 2)
    let s : State := { root := t, closed := c == "1" }
    let (s', out) := Os.step s op
    some (res valStr out ++ " | " ++ dumpTree s'.root ++ " | " ++ boolStr s'.closed ++ " | adm= | wf=" ++ boolStr (s'.root.wf))
  | "ossub.step" => do
    let c ← args[0]?
    let t ← loadTree (← args[1]?)
    let op ← parseOp (args.drop 2)
    let s : State := { root := t, closed := c == "1" }
    let (s', out) := OsSub.step s op
    some (res valStr out ++ " | " ++ dumpTree s'.root ++ " | " ++ boolStr s'.closed ++ " | adm= | wf=" ++ boolStr (s'.root.wf))
  | "posix.sys" => do
    let t ← loadTree (← args[0]?)
    let call ← args[1]?
    let a ← comps args 2
    match call with
    | "stat" => (match Posix.stat t a with
        | .ok (.dir _) => some ("ok D | " ++ dumpTree t)
        | .ok (.file b) => some ("ok F" ++ toString b.length ++ " | " ++ dumpTree t)
        | .error e => some ("err " ++ e.name ++ " | " ++ dumpTree t))
    | "listdir" => (match Posix.listdir t a with
        | .ok l => some ("ok " ++ strList l ++ " | " ++ dumpTree t)
        | .error e => some ("err " ++ e.name ++ " | " ++ dumpTree t))
    | "scandir" => (match Posix.scandir t a with
        | .ok l => some ("ok " ++ ",".intercalate (l.map fun (k, d) => strToHex k ++ ":" ++ boolStr d) ++ " | " ++ dumpTree t)
        | .error e => some ("err " ++ e.name ++ " | " ++ dumpTree t))
    | "mkdir" => some (sysReply (Posix.mkdir t a) t)
    | "rmdir" => some (sysReply (Posix.rmdir t a) t)
    | "unlink" => some (sysReply (Posix.unlink t a) t)
    | "utime" => some (sysReply ((Posix.utime t a).map fun _ => t) t)
    | "exists" => some ("ok " ++ boolStr (Posix.pathExists t a) ++ " | " ++ dumpTree t)
    | "isdir" => some ("ok " ++ boolStr (Posix.pathIsdir t a) ++ " | " ++ dumpTree t)
    | "islink" => some ("ok " ++ boolStr (Posix.pathIslink t a) ++ " | " ++ dumpTree t)
    | "open" => do
      let m ← arg args 3
      match Posix.ioOpenFlags m with
      | none => some ("err ValueError | " ++ dumpTree t)
      | some fl => some (sysReply (Posix.open_ t a fl) t)
    | "rename" => do
      let b ← comps args 3
      some (sysReply (Posix.rename t a b) t)
    | "copy2" => do
      let b ← comps args 3
      some (sysReply (Posix.copy2 t a b) t)
    | "removecontents" => (match Posix.stat t a with
        | .error e => some ("err " ++ e.name ++ " | " ++ dumpTree t)
        | .ok n => match Posix.removeContents n with
          | .error e => some ("err " ++ e.name ++ " | " ++ dumpTree t)
          | .ok () => some ("ok | " ++ dumpTree (setAt t a (.dir []))))
    | _ => none
  | "os.table" =>
    -- the GENERATED translation, as the model uses it: `os.table <0|1 directory> <ERRNO name>`
    do
      let d ← args[0]?
      let n ← args[1]?
      let all : List Posix.Errno := [.ENOENT, .ENOTDIR, .EEXIST, .EISDIR, .ENOTEMPTY, .EINVAL, .EBUSY, .EXDEV,
        .EACCES, .EPERM, .EFAULT, .ESRCH, .ENOSPC, .ENETDOWN, .ECONNRESET, .ENAMETOOLONG, .EOPNOTSUPP, .ENOSYS,
        .ENONET, .EROFS, .EMFILE, .ENFILE, .ELOOP, .EIO]
      match all.find? (fun e => e.name == n) with
      | some e => some ((Os.lookupClass (if d == "1" then Generated.dirErrors else Generated.fileErrors) e |> reprStr))
      | none => some "unknown-errno"
  | _ => none

end Fs.OsDriver
