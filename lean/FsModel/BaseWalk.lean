/-
  FsModel.BaseWalk — the three bulk operations of `fs/base.py` AS CODED, over an abstract primitive
  interface:

      FS.removetree   (fs/base.py)                    depth-first `Walker.info`, `remove` / `removedir` per entry
      FS.copydir      (fs/base.py → fs/copy.py)       `copy_dir` = `copy_dir_if(…, "always")`:
                                                       `copy_structure` (breadth-first `walker.dirs`, `makedir(recreate=True)`),
                                                       then breadth-first `walker.files` + `copy_file_internal`
      FS.movedir      (fs/base.py → fs/move.py)       `move_dir` = `getinfo(src).is_dir`, `makedir(dst, recreate=True)`,
                                                       `copy_dir`, `src_fs.removetree(src)`

  `Prim σ` lists exactly the calls these algorithms make on the filesystem object: `validatepath`, `exists`,
  `getinfo`, `scandir`, `makedir(recreate=True)`, `makedirs(recreate=True)`, `copy(overwrite=True)` (what
  `copy_file_internal` does when source and destination are ONE filesystem object), `remove`, `removedir`.
  `primOfStep F` builds the interface from any step function `F : σ → Op → σ × Out` (`Ref.step`, `Mem.step`,
  `Os.step`, a wrapper …): `scandir` = `listdir` + `getinfo` of every name (the base-class `FS.scandir`),
  `validatepath` fails exactly when `exists` fails and returns `abspath(normpath(path))`.
  `FsModel.MultiFs` instantiates the same algorithms with the MultiFS methods (`MultiFs.prim`).

  Generators are the lists they yield: a walker scans one directory at a time.  The real walkers scan
  lazily, entry by entry; no difference, because no algorithm here modifies the directory it is iterating
  other than by removing entries it has already been given (`removetree`), and the copier never writes into
  the directory being scanned (its target lies one level higher at least when the destination is an ancestor
  of the source, and outside the source otherwise).  Where Python loops over a tree that changes under the
  loop the recursion is bounded by explicit `fuel` (`rmWalk`: nesting depth; `structLoop` / `filesLoop`:
  directories taken from the queue); out of fuel = `Leak`.  `workers = 0` (single-threaded `Copier`),
  `preserve_time` does not touch the tree, the default `Walker()` (no filters, no `max_depth`).
  `manage_fs(fs, writeable=True)`'s `read_only` meta test is outside the model (writable filesystems).

  No Mathlib import (the driver links this module).
-/
import FsModel.Ref

namespace Fs.BaseWalk
open Fs Fs.Path Fs.Ref

/-- a filesystem as a step function: one call = new state and outcome -/
abbrev FS (σ : Type) := σ → Op → σ × Out

/-- what a scan yields for one entry: name, `is_dir`, size -/
abbrev ScanInfo := Name × Bool × Nat

/-- `abspath(normpath(path))` -/
def normRes (p : Str) : Res Str :=
  match normpath p with
  | .err e => .err e
  | .ok n => .ok (abspath n)

/-- the calls the bulk algorithms make on ONE filesystem object -/
structure Prim (σ : Type) where
  /-- `fs.validatepath(path)` → `abspath(normpath(path))` -/
  validatepath : σ → Str → σ × Res Str
  /-- `fs.exists(path)` → `.bool b` -/
  exists_ : σ → Str → σ × Out
  /-- `fs.getinfo(path)` → `.info name is_dir size` -/
  getinfo : σ → Str → σ × Out
  /-- `fs.scandir(path)`, fully consumed -/
  scandir : σ → Str → σ × Res (List ScanInfo)
  /-- `fs.makedir(path, recreate=True)` -/
  makedir : σ → Str → σ × Out
  /-- `fs.makedirs(path, recreate=True)` -/
  makedirs : σ → Str → σ × Out
  /-- `fs.copy(src, dst, overwrite=True)` -/
  copy : σ → Str → Str → σ × Out
  /-- `fs.remove(path)` -/
  remove : σ → Str → σ × Out
  /-- `fs.removedir(path)` -/
  removedir : σ → Str → σ × Out

section Walkers
variable {σ : Type}

/-! ### `FS.removetree`: depth-first walk, `remove` / `removedir` of every entry -/

/-- one directory of the depth-first walk (`Walker._walk_depth` consumed by `Walker.info`): a file is
removed as it is met, a sub-directory is walked (`visit`) and then removed -/
def rmEntries (P : Prim σ) (visit : Str → σ → σ × Out) (d : Str) : List ScanInfo → σ → σ × Out
  | [], s => (s, .ok .unit)
  | (n, isDir, _) :: rest, s =>
    let child := combine d n
    if isDir then
      match visit child s with
      | (s1, .ok _) =>
        (match P.removedir s1 child with
         | (s2, .ok _) => rmEntries P visit d rest s2
         | r => r)
      | r => r
    else
      match P.remove s child with
      | (s1, .ok _) => rmEntries P visit d rest s1
      | r => r

def rmWalk (P : Prim σ) : Nat → Str → σ → σ × Out
  | 0, _, s => (s, .err .Leak)
  | fuel + 1, d, s =>
    match P.scandir s d with
    | (s1, .err e) => (s1, .err e)
    | (s1, .ok infos) => rmEntries P (rmWalk P fuel) d infos s1

/-- `FS.removetree` after `_dir_path = self.validatepath(dir_path)`: the walk, then — unless the path is
the root — `self.removedir(dir_path)` with the RAW argument -/
def removetreeBody (P : Prim σ) (fuel : Nat) (s : σ) (p np : Str) : σ × Out :=
  match rmWalk P fuel np s with
  | (s1, .ok _) => if np = ['/'] then (s1, .ok .unit) else P.removedir s1 p
  | r => r

/-- `FS.removetree(dir_path)`: `_dir_path = self.validatepath(dir_path)` like every other method (since /repo
433aea4; before, `abspath(normpath(dir_path))` — an invalid character in a component that `..` cancels was never
seen, and a closed filesystem reported IllegalBackReference first) -/
def removetree (P : Prim σ) (fuel : Nat) (s : σ) (p : Str) : σ × Out :=
  match P.validatepath s p with
  | (s1, .err e) => (s1, .err e)
  | (s1, .ok np) => removetreeBody P fuel s1 p np

/-! ### `copy_dir` (fs/copy.py): `copy_structure`, then every file through `copy_file_internal` -/

/-- the path below the destination that corresponds to `path` below the source:
`combine(dst_root, frombase(src_root, path))` -/
def target (srcRoot dstRoot path : Str) : Res Str :=
  match frombase srcRoot path with
  | .err e => .err e
  | .ok rel => .ok (combine dstRoot rel)

/-- `Walker._walk_breadth`, one directory at a time (FIFO queue): `visit d infos queue s` is what the consumer
of the generator (`walker.dirs` in `copy_structure`, `walker.files` in `copy_dir_if`) does with the entries of
`d`; it returns the queue with the sub-directories of `d` appended -/
def walkBreadth (P : Prim σ) (visit : Str → List ScanInfo → List Str → σ → σ × Res (List Str)) :
    Nat → List Str → σ → σ × Out
  | 0, _, s => (s, .err .Leak)
  | _ + 1, [], s => (s, .ok .unit)
  | fuel + 1, d :: queue, s =>
    match P.scandir s d with
    | (s1, .err e) => (s1, .err e)
    | (s1, .ok infos) =>
      match visit d infos queue s1 with
      | (s2, .err e) => (s2, .err e)
      | (s2, .ok q) => walkBreadth P visit fuel q s2

/-- one directory of `copy_structure`'s breadth-first `walker.dirs`: every sub-directory is created at the
destination (`makedir(…, recreate=True)`) and queued -/
def structEntries (P : Prim σ) (srcRoot dstRoot d : Str) : List ScanInfo → List Str → σ → σ × Res (List Str)
  | [], q, s => (s, .ok q)
  | (n, isDir, _) :: rest, q, s =>
    if isDir then
      let child := combine d n
      match target srcRoot dstRoot child with
      | .err e => (s, .err e)
      | .ok t =>
        match P.makedir s t with
        | (s1, .ok _) => structEntries P srcRoot dstRoot d rest (q ++ [child]) s1
        | (s1, .err e) => (s1, .err e)
    else structEntries P srcRoot dstRoot d rest q s

/-- `copy_structure`'s loop over `walker.dirs(src_fs, src_root)` -/
def structLoop (P : Prim σ) (srcRoot dstRoot : Str) : Nat → List Str → σ → σ × Out :=
  walkBreadth P (structEntries P srcRoot dstRoot)

/-- `copy_file_internal(fs, src, fs, dst)` on ONE filesystem object: both paths validated, the same-path
test, then `fs.copy(src, dst, overwrite=True)` -/
def copyFileInternal (P : Prim σ) (s : σ) (a b : Str) : σ × Out :=
  match P.validatepath s a with
  | (s1, .err e) => (s1, .err e)
  | (s1, .ok ns) =>
    match P.validatepath s1 b with
    | (s2, .err e) => (s2, .err e)
    | (s2, .ok nd) =>
      if ns = nd then (s2, .err .IllegalDestination) else P.copy s2 a b

/-- one directory of the breadth-first `walker.files`: files are copied as they are met -/
def fileEntries (P : Prim σ) (srcRoot dstRoot d : Str) : List ScanInfo → List Str → σ → σ × Res (List Str)
  | [], q, s => (s, .ok q)
  | (n, isDir, _) :: rest, q, s =>
    let child := combine d n
    if isDir then fileEntries P srcRoot dstRoot d rest (q ++ [child]) s
    else
      match target srcRoot dstRoot child with
      | .err e => (s, .err e)
      | .ok t =>
        match copyFileInternal P s child t with
        | (s1, .ok _) => fileEntries P srcRoot dstRoot d rest q s1
        | (s1, .err e) => (s1, .err e)

/-- `copy_dir_if`'s loop over `walker.files(src_fs, src_path)` -/
def filesLoop (P : Prim σ) (srcRoot dstRoot : Str) : Nat → List Str → σ → σ × Out :=
  walkBreadth P (fileEntries P srcRoot dstRoot)

/-- `copy_dir(fs, src_path, fs, dst_path)` = `copy_dir_if(…, "always")`, single-threaded `Copier` -/
def copyDir (P : Prim σ) (fuel : Nat) (s : σ) (a b : Str) : σ × Out :=
  match normRes a with                                   -- `_src_path = abspath(normpath(src_path))`
  | .err e => (s, .err e)
  | .ok na =>
    match normRes b with
    | .err e => (s, .err e)
    | .ok nb =>
      -- copy_structure(src_fs, dst_fs, walker, src_path, dst_path)
      match P.validatepath s a with
      | (s1, .err e) => (s1, .err e)
      | (s1, .ok ra) =>
        match P.validatepath s1 b with
        | (s2, .err e) => (s2, .err e)
        | (s2, .ok rb) =>
          if isbase ra rb then (s2, .err .IllegalDestination)
          else match P.makedirs s2 rb with
            | (s3, .ok _) =>
              (match structLoop P ra rb fuel [ra] s3 with
               | (s4, .ok _) => filesLoop P na nb fuel [na] s4
               | r => r)
            | r => r

/-- `if not fs.getinfo(path).is_dir: raise DirectoryExpected(path)` on the outcome `r` of the `getinfo`
call, then `k` -/
def whenDir (r : σ × Out) (k : σ → σ × Out) : σ × Out :=
  match r with
  | (t1, .ok (.info _ true _)) => k t1
  | (t1, .ok _) => (t1, .err .DirectoryExpected)
  | r => r

/-- `if not create and not fs.exists(dst): raise ResourceNotFound(dst)` (`ex` is the `exists` call), then `k` -/
def whenExists (create : Bool) (ex : σ → σ × Out) (s : σ) (k : σ → σ × Out) : σ × Out :=
  if create then k s
  else match ex s with
    | (s3, .ok (.bool false)) => (s3, .err .ResourceNotFound)
    | (s3, .ok _) => k s3
    | r => r

/-- `FS.copydir` -/
def copydir (P : Prim σ) (fuel : Nat) (s : σ) (a b : Str) (create : Bool) : σ × Out :=
  match P.validatepath s a with
  | (s1, .err e) => (s1, .err e)
  | (s1, .ok ns) =>
    match P.validatepath s1 b with
    | (s2, .err e) => (s2, .err e)
    | (s2, .ok nd) =>
      if isbase ns nd then (s2, .err .IllegalDestination)
      else whenExists create (fun t => P.exists_ t nd) s2 fun t =>
        whenDir (P.getinfo t ns) fun t1 => copyDir P fuel t1 ns nd

/-- sequencing: the next statement runs when the call returned, an exception propagates -/
def andThen (r : σ × Out) (k : σ → σ × Out) : σ × Out :=
  match r with
  | (s, .ok _) => k s
  | r => r

/-- `move_dir` after its source check: `dst_fs.makedir(dst_path, recreate=True)`, `copy_dir`,
`src_fs.removetree(src_path)` -/
def moveDirBody (P : Prim σ) (rmtree : σ → Str → σ × Out) (fuel : Nat) (t1 : σ) (a b : Str) : σ × Out :=
  andThen (P.makedir t1 b) fun t2 =>
    andThen (copyDir P fuel t2 a b) fun t3 => rmtree t3 a

/-- `move_dir(fs, src_path, fs, dst_path)` (fs/move.py); `rmtree` is the filesystem's `removetree`
(`removetree P fuel` when it inherits the base-class one) -/
def moveDir (P : Prim σ) (rmtree : σ → Str → σ × Out) (fuel : Nat) (t : σ) (a b : Str) : σ × Out :=
  whenDir (P.getinfo t a) fun t1 => moveDirBody P rmtree fuel t1 a b

/-- `FS.movedir` → `move_dir(self, src_path, self, dst_path)` with the RAW arguments -/
def movedir (P : Prim σ) (rmtree : σ → Str → σ × Out) (fuel : Nat) (s : σ) (a b : Str) (create : Bool) : σ × Out :=
  match P.validatepath s a with
  | (s1, .err e) => (s1, .err e)
  | (s1, .ok ns) =>
    match P.validatepath s1 b with
    | (s2, .err e) => (s2, .err e)
    | (s2, .ok nd) =>
      if ns = nd then (s2, .ok .unit)
      else if isbase ns nd then (s2, .err .IllegalDestination)
      else whenExists create (fun t => P.exists_ t b) s2 fun t => moveDir P rmtree fuel t a b

end Walkers

/-! ### the primitives of a filesystem given as a step function -/

section OfStep
variable {σ : Type}

/-- the base-class `FS.scandir`: `getinfo(join(path, name))` for every name of `listdir(path)` -/
def scanNames (F : FS σ) (p : Str) : List Name → List ScanInfo → σ → σ × Res (List ScanInfo)
  | [], acc, s => (s, .ok acc)
  | n :: ns, acc, s =>
    match F s (.getinfo (combine p n)) with
    | (s1, .ok (.info _ d sz)) => scanNames F p ns (acc ++ [(n, d, sz)]) s1
    | (s1, .ok _) => (s1, .err .Leak)             -- unreachable: `getinfo` returns an Info
    | (s1, .err e) => (s1, .err e)

def scanOf (F : FS σ) (s : σ) (p : Str) : σ × Res (List ScanInfo) :=
  match F s (.listdir p) with
  | (s1, .ok (.names l)) => scanNames F p l [] s1
  | (s1, .ok _) => (s1, .err .Leak)               -- unreachable: `listdir` returns names
  | (s1, .err e) => (s1, .err e)

/-- `fs.validatepath(p)` fails exactly when `fs.exists(p)` fails (closed, invalid characters, back
reference) and returns `abspath(normpath(p))` -/
def validateOf (F : FS σ) (s : σ) (p : Str) : σ × Res Str :=
  match F s (.exists_ p) with
  | (s1, .err e) => (s1, .err e)
  | (s1, .ok _) => (s1, normRes p)

def primOfStep (F : FS σ) : Prim σ where
  validatepath := validateOf F
  exists_ := fun s p => F s (.exists_ p)
  getinfo := fun s p => F s (.getinfo p)
  scandir := scanOf F
  makedir := fun s p => F s (.makedir p true)
  makedirs := fun s p => F s (.makedirs p true)
  copy := fun s a b => F s (.copy a b true)
  remove := fun s p => F s (.remove p)
  removedir := fun s p => F s (.removedir p)

/-- a filesystem whose `removetree` / `copydir` / `movedir` are the base-class algorithms over its own
remaining methods.  `ownRmtree`: the class overrides `removetree` (MemoryFS, OSFS) — then `removetree` is
`F`'s, and `move_dir` ends with `F`'s. -/
def step (fuel : Nat) (ownRmtree : Bool) (F : FS σ) (s : σ) (op : Op) : σ × Out :=
  let P := primOfStep F
  let rmtree : σ → Str → σ × Out :=
    if ownRmtree then (fun t p => F t (.removetree p)) else removetree P fuel
  match op with
  | .removetree p => rmtree s p
  | .copydir a b c => copydir P fuel s a b c
  | .movedir a b c => movedir P rmtree fuel s a b c
  | _ => F s op

end OfStep

end Fs.BaseWalk
