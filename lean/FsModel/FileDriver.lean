/-
  FsModel.FileDriver — line protocol for the file-object models.

  file.run <ioref|memfile|bio> <mode-hex> <init: N | hex> <op>…
      → `ok <out>@<tell>;… | <final-hex>`   (`.` for an empty trace)   or `err <Class>`
  file.dev <mode-hex> <init> <op>…   → `ok <class|->;…`  deviation class of each call (IoRef run)
  file.copy <chunk: N|int> <data-hex> <k,k,…|->   → `ok <written-hex> | L<chunk>,<chunk>…`
  mode.flags <mode-hex>  → `ok validate=<b> validate_bin=<b> flags=<6 bits> bin=<hex> py=<6 bits|none>`

  op tokens: read:<N|int> readall readline:<N|int> readlines readinto:<k> write:<hex>
             writelines:<hex>,<hex>… (writelines: for []) seek:<off>:<whence> tell
             truncate:<N|int> flush close next iter
-/
import FsModel.File
import FsModel.Proto

namespace Fs.FileDriver
open Fs Fs.File

def parseSize (s : String) : Option (Option Int) :=
  if s == "N" then some none else s.toInt?.map some

def parseOp (tok : String) : Option Op :=
  match tok.splitOn ":" with
  | ["read", n] => do pure (.read (← parseSize n))
  | ["readall"] => some .readall
  | ["readline", n] => do pure (.readline (← parseSize n))
  | ["readlines"] => some .readlines
  | ["readinto", k] => do pure (.readinto (← k.toNat?))
  | ["write", h] => do pure (.write (← hexToBytes h))
  | ["writelines", l] =>
    if l.isEmpty then some (.writelines []) else do pure (.writelines (← (l.splitOn ",").mapM hexToBytes))
  | ["seek", o, w] => do pure (.seek (← o.toInt?) (← w.toNat?))
  | ["tell"] => some .tell
  | ["truncate", n] => do pure (.truncate (← parseSize n))
  | ["flush"] => some .flush
  | ["close"] => some .close
  | ["next"] => some .next
  | ["iter"] => some .iter
  | _ => none

def errStr : FErr → String
  | .closed => "Eclosed" | .notPermitted => "Enotpermitted" | .invalid => "Einvalid"
  | .stopIteration => "Estop"

def outStr : Out → String
  | .none => "N"
  | .bytes b => "b" ++ bytesToHex b
  | .lines l => "L" ++ ",".intercalate (l.map bytesToHex)
  | .nat n => "n" ++ toString n
  | .err e => errStr e

def tellStr : Option Nat → String
  | none => "-"
  | some n => toString n

def traceStr (tr : List (Out × Option Nat)) : String :=
  if tr.isEmpty then "." else ";".intercalate (tr.map fun (o, t) => outStr o ++ "@" ++ tellStr t)

def runStr : Res (List (Out × Option Nat) × Bytes) → String
  | .err e => "err " ++ e.name
  | .ok (tr, fin) => "ok " ++ traceStr tr ++ " | " ++ bytesToHex fin

def parseInit (s : String) : Option (Option Bytes) :=
  if s == "N" then some none else (hexToBytes s).map some

/-- the BytesIO model on its own (validated against the real `io.BytesIO`) -/
def bioStep (b : Bio) (op : Op) : Bio × Out :=
  match op with
  | .read n => let (b', d) := b.read n; (b', .bytes d)
  | .readall => let (b', d) := b.read none; (b', .bytes d)
  | .readinto k => let (b', d) := b.read (some (Int.ofNat k)); (b', .bytes d)
  | .readline n => let (b', d) := b.readline n; (b', .bytes d)
  | .readlines => let (b', l) := b.readlines; (b', .lines l)
  | .iter => let (b', l) := b.readlines; (b', .lines l)
  | .next => let (b', d) := b.readline none; if d.isEmpty then (b', .err .stopIteration) else (b', .bytes d)
  | .write d => (b.write d, .nat d.length)
  | .writelines ls => (ls.foldl Bio.write b, .none)
  | .seek off w => b.seek off w
  | .tell => (b, .nat b.pos)
  | .truncate z => b.truncate z
  | .flush => (b, .none)
  | .close => (b, .none)

def bioRun : Bio → List Op → List (Out × Option Nat) × Bytes
  | b, [] => ([], b.bytes)
  | b, op :: ops =>
    let (b', o) := bioStep b op
    let (tr, fin) := bioRun b' ops
    ((o, some b'.pos) :: tr, fin)

def devStr : Option Dev → String
  | none => "-"
  | some .readlineZero => "readline_zero"
  | some .writelinesEmptyRO => "writelines_empty_readonly"

def devRun (fl : Flags) : IoState → List Op → List String
  | _, [] => []
  | s, op :: ops => devStr (devClass fl s op) :: devRun fl (IoRef.step fl s op).1 ops

def bits (fl : Flags) : String :=
  String.join [boolStr fl.reading, boolStr fl.writing, boolStr fl.appending, boolStr fl.truncate,
               boolStr fl.exclusive, boolStr fl.create]

def parseNatList (s : String) : Option (List Nat) :=
  if s == "-" then some [] else (s.splitOn ",").mapM String.toNat?

def handle (cmd : String) (args : List String) : Option String :=
  match cmd with
  | "file.run" => do
      let impl ← args[0]?
      let mode ← Proto.arg args 1
      let init ← parseInit (← args[2]?)
      let ops ← (args.drop 3).mapM parseOp
      match impl with
      | "ioref" => some (runStr (IoRef.run mode init ops))
      | "memfile" => some (runStr (MemFile.run mode init ops))
      | "bio" => some (runStr (.ok (bioRun ⟨init.getD [], 0⟩ ops)))
      | _ => none
  | "file.dev" => do
      let mode ← Proto.arg args 0
      let init ← parseInit (← args[1]?)
      let ops ← (args.drop 2).mapM parseOp
      match Mode.validateBin mode with
      | .err e => some ("err " ++ e.name)
      | .ok _ =>
        match IoRef.openFile (Mode.flags mode) init with
        | .err e => some ("err " ++ e.name)
        | .ok s => some ("ok " ++ ";".intercalate (devRun (Mode.flags mode) s ops))
  | "file.copy" => do
      let chunk ← parseSize (← args[0]?)
      let data ← hexToBytes (← args[1]?)
      let sr ← parseNatList (← args[2]?)
      let chunks := copyChunks (effChunk chunk) (data.length + 1) ⟨data, sr⟩
      some ("ok " ++ bytesToHex (copyFileData chunk data sr) ++ " | L" ++
            ",".intercalate (chunks.map bytesToHex))
  | "mode.flags" => do
      let m ← Proto.arg args 0
      let py := match PyMode.pyOpen m with | none => "none" | some fl => bits fl
      some ("ok validate=" ++ boolStr (Mode.validate m).isOk ++
            " validate_bin=" ++ boolStr (Mode.validateBin m).isOk ++
            " flags=" ++ bits (Mode.flags m) ++
            " bin=" ++ strToHex (Mode.toPlatformBin m) ++
            " py=" ++ py)
  | _ => none

end Fs.FileDriver
