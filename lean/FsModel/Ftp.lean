/-
  FsModel.Ftp — FTPFS as coded (fs/ftpfs.py, after the `fix:` commits eb5521d..d004144 and 79535c4) together
  with the base-class defaults it inherits (fs/base.py), as PROGRAMS over the commands of an FTP
  server (`FsModel.FtpServer.Cmd`).

  A method is a value of `Prog α`: it returns, or issues one command and continues with the reply.
  `run X prog tree` executes a program against any server step function `X`; `trace` lists the
  command / reply pairs it exchanged.  Nothing in a program depends on the server it will meet.

  What is transcribed, method by method: `_parse_features` / `supports_mlst` (C20's `parseFeatures` on
  the FEAT reply), `ftp_errors.__exit__` (`ftpErrors`), `validatepath` with `"\0\r\n"`, `_read_dir`
  (LIST → C20's `FtpParse.parse` → `OrderedDict`), `getinfo` (root special case; `MLST` when the
  server offers it — the reply cut with `split("\n")[1:-1]` (79535c4) and parsed by C20's `parseMlsx` —
  else / when that yields nothing: is the parent a directory, list it, look the name up), `scandir` /
  `_scandir` (MLSD, falling through to LIST when no line came back; 5xx → `getinfo(path).is_dir`),
  `listdir`, `makedir` (the recreate logic and the 550 analysis), `openbin` (mode first; create /
  truncate with an empty `STOR` at open), `readbytes`, `upload` / `writebytes`, `create`, `setinfo`
  (MFMT), `remove`, `removedir`, and from `fs/base.py`: `exists isdir isfile isempty getsize gettype`,
  `appendbytes`, `touch`, `makedirs`, `removetree`, `copy`, `move`, `movedir`, `copydir`, `opendir`.

  Abstractions (the same as in `FsModel.Mem` / `FsModel.Os`):
    * a file object is a session: `openbin(..).close()` is the checks + the empty `STOR`; `appendbytes` is
      `openbin(.., "ab")` followed by one `APPE` of the whole data; `copy` / `move` read the source with one
      `RETR` and write it with one `STOR` (the per-call behaviour of `FTPFile` is C16's);
    * client loops over a walker are one `edit` step of the program: `copy_dir` (MKD + RETR/STOR per entry)
      is the tree-level merge, `removetree`'s depth-first DELE/RMD loop empties the directory, `makedirs`
      creates every missing intermediate directory (each `MKD` succeeds there);
    * a call on an already validated path skips the second, idempotent `validatepath`;
    * time stamps are dropped (`MFMT` only resolves its path); the size of a DIRECTORY (a server detail,
      4096 on pyftpdlib) is reported as 0 by `step`, as the harness does;
    * one connection: `FEAT` is sent once per `step` (really: once per connection), `TYPE I`, `PASV`,
      `QUIT` are not modelled; `unicodedata.normalize("NFC", name)` in the LIST decoder is external.
-/
import FsModel.Ref
import FsModel.FtpServer

namespace Fs.Ftp
open Fs Fs.Path Fs.Ref Fs.FtpParse Fs.FtpServer

/-! ### programs over server commands -/

inductive Prog (α : Type) where
  | ret (a : α)
  | cmd (c : Cmd) (k : Reply → Prog α)
  /-- an abstracted client loop (see the file header): a tree-level effect, labelled; `none` = the
      loop fails mid-way (only `copy_dir` can: a file / directory name conflict inside), the
      continuation is told whether it succeeded -/
  | edit (label : String) (f : Node → Option Node) (k : Bool → Prog α)

namespace Prog

def bind : Prog α → (α → Prog β) → Prog β
  | .ret a, f => f a
  | .cmd c k, f => .cmd c fun r => (k r).bind f
  | .edit l g k, f => .edit l g fun b => (k b).bind f

end Prog

/-- a server, as far as a program can tell -/
abbrev Server := Node → Cmd → Node × Reply

def run (X : Server) : Prog α → Node → Node × α
  | .ret a, t => (t, a)
  | .cmd c k, t => run X (k (X t c).2) (X t c).1
  | .edit _ f k, t =>
    match f t with
    | some t' => run X (k true) t'
    | none => run X (k false) t

inductive Event where
  | cmd (c : Cmd) (r : Reply)
  | edit (label : String) (ok : Bool)
  deriving Repr

def trace (X : Server) : Prog α → Node → List Event
  | .ret _, _ => []
  | .cmd c k, t => .cmd c (X t c).2 :: trace X (k (X t c).2) (X t c).1
  | .edit l f k, t =>
    match f t with
    | some t' => .edit l true :: trace X (k true) t'
    | none => .edit l false :: trace X (k false) t

/-! ### `ftplib` replies and `ftp_errors` -/

/-- a `4xx` reply raises `ftplib.error_temp`, a `5xx` reply `ftplib.error_perm` -/
def isTemp (code : Nat) : Bool := 400 ≤ code && code < 500
def isPerm (code : Nat) : Bool := 500 ≤ code && code < 600

/-- `ftp_errors.__exit__` for the exception a negative reply raises (`hasPath`: `path is not None`).
    Classes `Fs.Err` does not name are `Leak` (as in `Posix.FsClass.toErr`); an exception that is
    neither `error_temp` nor `error_perm` is not caught at all. -/
def ftpErrors (hasPath : Bool) (code : Nat) : Err :=
  if isTemp code then
    (if hasPath then Posix.FsClass.ResourceError else Posix.FsClass.OperationFailed).toErr
  else if isPerm code then
    if code = 552 then Posix.FsClass.InsufficientStorage.toErr
    else if code = 501 ∨ code = 550 then .ResourceNotFound
    else Posix.FsClass.PermissionDenied.toErr
  else .Leak

/-! ### path validation (`FS.validatepath` with FTPFS's `invalid_path_chars = "\0\r\n"`) -/

def isInvalidChar (c : Char) : Bool := c == '\x00' || c == '\r' || c == '\n'

def validate (p : Str) : Res (List Name) :=
  if p.any isInvalidChar then .err .InvalidCharsInPath else iteratepath p

/-! ### features -/

/-- `_open_ftp`: `self._features = self._parse_features(sendcmd("FEAT"))`, `{}` when refused -/
def features : Prog (List (Str × Str)) :=
  .cmd .feat fun r => match r with
    | .ok _ text => .ret (parseFeatures text)
    | _ => .ret []

/-! ### listings -/

/-- (name, is_dir, size) of an `Info` -/
abbrev Ent := Name × Bool × Nat

def mlsxEnt (i : MlsdInfo) : Ent := (i.name, i.isDir, i.size)
def listEnt (i : ListInfo) : Ent := (i.name, i.isDir, i.size.getD 0)

/-- `d[e.name] = e` on an insertion-ordered dictionary -/
def odSet (e : Ent) : List Ent → List Ent
  | [] => [e]
  | x :: rest => if x.1 = e.1 then e :: rest else x :: odSet e rest

/-- `OrderedDict({info.name: info for info in _list})` -/
def odOf (l : List Ent) : List Ent := l.foldl (fun acc e => odSet e acc) []

/-- `directory.get(name)` -/
def odGet (name : Name) : List Ent → Option Ent
  | [] => none
  | x :: rest => if x.1 = name then some x else odGet name rest

/-- `FTPFS._read_dir(path)`: `LIST`, `ftp_parse.parse`, an ordered dictionary by name -/
def readDir (cy : Nat) (cs : List Name) : Prog (Res (List Ent)) :=
  .cmd (.list cs) fun r => match r with
    | .lines ls =>
      (match parse cy ls with
       | .ok infos => .ret (.ok (odOf (infos.map listEnt)))
       | .err e => .ret (.err e))
    | .err code => .ret (.err (ftpErrors true code))
    | _ => .ret (.err .Leak)

/-- the `if self.supports_mlst:` block of `getinfo`: `none` = it produced nothing (no entry in the
    reply) and control falls through to the LIST path -/
def mlstInfo (cs : List Name) : Prog (Option (Res Ent)) :=
  .cmd (.mlst cs) fun r => match r with
    | .ok _ text =>
      -- `lines = response.split("\n")[1:-1]` (79535c4: `ftplib` joins the lines of a reply with `\n`; no
      -- longer `splitlines()`), then the first entry `_parse_mlsx` yields
      (match parseMlsx ((splitOn '\n' text).drop 1).dropLast with
       | .ok (i :: _) => .ret (some (.ok (mlsxEnt i)))
       | .ok [] => .ret none
       | .err e => .ret (some (.err e)))
    | .err code => .ret (some (.err (ftpErrors true code)))
    | _ => .ret (some (.err .Leak))

/-- `if dir_name != "/" and not self.getinfo(dir_name).is_dir: raise ResourceNotFound` — LIST of a file
    answers with the entry of the file itself (2b51e48) -/
def parentIsDir : Res Ent → Prog (Res Unit)
  | .err e => .ret (.err e)
  | .ok (_, d, _) => if d then .ret (.ok ()) else .ret (.err .ResourceNotFound)

/-- `if file_name not in directory: raise ResourceNotFound; return directory[file_name]` -/
def lookupEnt (name : Name) : Res (List Ent) → Prog (Res Ent)
  | .err e => .ret (.err e)
  | .ok ents =>
    match odGet name ents with
    | none => .ret (.err .ResourceNotFound)
    | some e => .ret (.ok e)

/-- `FTPFS.getinfo` on validated components (`m` = `supports_mlst`).  The LIST path calls
    `self.getinfo(dir_name)`: recursion on the parent, with fuel `length + 1`. -/
def getinfoC (cy : Nat) (m : Bool) : Nat → List Name → Prog (Res Ent)
  | 0, _ => .ret (.err .Leak)
  | fuel + 1, cs =>
    if cs = [] then .ret (.ok ([], true, 0))
    else
      (if m then mlstInfo cs else .ret none).bind fun r =>
      match r with
      | some x => .ret x
      | none =>
        (if cs.dropLast = [] then (.ret (.ok ()) : Prog (Res Unit))
         else (getinfoC cy m fuel cs.dropLast).bind parentIsDir).bind fun chk =>
        match chk with
        | .err e => .ret (.err e)
        | .ok () => (readDir cy cs.dropLast).bind (lookupEnt (cs.getLast?.getD []))

def getinfoP (cy : Nat) (m : Bool) (cs : List Name) : Prog (Res Ent) := getinfoC cy m (cs.length + 1) cs

/-- `FS.exists` / `isdir` / `isfile` over `getinfo` -/
def existsC (cy : Nat) (m : Bool) (cs : List Name) : Prog (Res Bool) :=
  (getinfoP cy m cs).bind fun r => match r with
    | .ok _ => .ret (.ok true)
    | .err .ResourceNotFound => .ret (.ok false)
    | .err e => .ret (.err e)

def isdirC (cy : Nat) (m : Bool) (cs : List Name) : Prog (Res Bool) :=
  (getinfoP cy m cs).bind fun r => match r with
    | .ok (_, d, _) => .ret (.ok d)
    | .err .ResourceNotFound => .ret (.ok false)
    | .err e => .ret (.err e)

def isfileC (cy : Nat) (m : Bool) (cs : List Name) : Prog (Res Bool) :=
  (getinfoP cy m cs).bind fun r => match r with
    | .ok (_, d, _) => .ret (.ok (!d))
    | .err .ResourceNotFound => .ret (.ok false)
    | .err e => .ret (.err e)

/-- `FS.opendir` (only its checks matter) -/
def opendirC (cy : Nat) (m : Bool) (cs : List Name) : Prog (Res Unit) :=
  (getinfoP cy m cs).bind fun r => match r with
    | .err e => .ret (.err e)
    | .ok (_, d, _) => if d then .ret (.ok ()) else .ret (.err .DirectoryExpected)

/-- `FTPFS.scandir` + `_scandir` on validated components, fully consumed -/
def scandirC (cy : Nat) (m : Bool) (cs : List Name) : Prog (Res (List Ent)) :=
  -- `if not self.supports_mlst and not self.getinfo(path).is_dir: raise DirectoryExpected`
  (if m then (.ret (.ok ()) : Prog (Res Unit))
   else (getinfoP cy m cs).bind fun r => match r with
     | .err e => .ret (.err e)
     | .ok (_, d, _) => if d then .ret (.ok ()) else .ret (.err .DirectoryExpected)).bind fun chk =>
  match chk with
  | .err e => .ret (.err e)
  | .ok () =>
    if m then
      .cmd (.mlsd cs) fun r => match r with
        | .lines ls =>
          if ls ≠ [] then
            (match parseMlsx ls with
             | .ok infos => .ret (.ok (infos.map mlsxEnt))
             | .err e => .ret (.err e))
          else readDir cy cs                 -- `if lines:` is false: falls through to `_read_dir`
        | .err code =>
          if isPerm code then
            -- `except error_perm: if not self.getinfo(path).is_dir: raise DirectoryExpected; raise`
            (getinfoP cy m cs).bind fun i => match i with
              | .err e => .ret (.err e)
              | .ok (_, d, _) => if d then .ret (.err (ftpErrors true code)) else .ret (.err .DirectoryExpected)
          else .ret (.err (ftpErrors true code))
        | _ => .ret (.err .Leak)
    else readDir cy cs

/-! ### essential methods -/

/-- `FTPFS.makedir` -/
def makedir (cy : Nat) (m : Bool) (p : Str) (recreate : Bool) : Prog (Res Unit) :=
  match validate p with
  | .err e => .ret (.err e)
  | .ok cs =>
    if cs = [] then (if recreate then opendirC cy m cs else .ret (.err .DirectoryExists))
    else
      -- `if not (recreate and self.isdir(path)):`
      (if recreate then isdirC cy m cs else .ret (.ok false)).bind fun d => match d with
      | .err e => .ret (.err e)
      | .ok true => opendirC cy m cs
      | .ok false =>
        .cmd (.mkd cs) fun r => match r with
          | .ok _ _ => opendirC cy m cs
          | .err code =>
            if isPerm code then
              if code = 550 then
                (isdirC cy m cs).bind fun d2 => match d2 with
                | .err e => .ret (.err e)
                | .ok true => .ret (.err .DirectoryExists)
                | .ok false => (existsC cy m cs).bind fun x => match x with
                  | .err e => .ret (.err e)
                  | .ok true => .ret (.err (if recreate then .DirectoryExpected else .DirectoryExists))
                  | .ok false => .ret (.err .ResourceNotFound)
              else .ret (.err .ResourceNotFound)
            else .ret (.err (ftpErrors true code))
          | _ => .ret (.err .Leak)

/-- an empty `STOR` inside `ftp_errors(self, path)` -/
def storEmpty (cs : List Name) : Prog (Res Unit) :=
  .cmd (.stor cs 0 []) fun r => match r with
    | .ok _ _ => .ret (.ok ())
    | .err code => .ret (.err (ftpErrors true code))
    | _ => .ret (.err .Leak)

/-- `FTPFS.openbin` up to the construction of the `FTPFile` (which only opens a connection): the
    mode, the path, `getinfo`, the create / truncate `STOR`.  Returns the components opened. -/
def openbin (cy : Nat) (m : Bool) (p mode : Str) : Prog (Res (List Name)) :=
  match parseBinMode mode with
  | none => .ret (.err .ValueError)
  | some md =>
    match validate p with
    | .err e => .ret (.err e)
    | .ok cs =>
      (getinfoP cy m cs).bind fun r => match r with
      | .err .ResourceNotFound =>
        if !md.create then .ret (.err .ResourceNotFound)
        else (isdirC cy m cs.dropLast).bind fun d => match d with      -- `dirname("/x") = "/"`
          | .err e => .ret (.err e)
          | .ok false => .ret (.err .ResourceNotFound)
          | .ok true => (storEmpty cs).bind fun s => match s with
            | .err e => .ret (.err e)
            | .ok () => .ret (.ok cs)
      | .err e => .ret (.err e)
      | .ok (_, true, _) => .ret (.err .FileExpected)
      | .ok (_, false, _) =>
        if md.exclusive then .ret (.err .FileExists)
        else if md.truncate then (storEmpty cs).bind fun s => match s with
          | .err e => .ret (.err e)
          | .ok () => .ret (.ok cs)
        else .ret (.ok cs)

/-- the `except error_perm` of `readbytes` / `upload`: `550` and `self.isdir(path)` → FileExpected, else
    the reply goes through `ftp_errors` -/
def fileCmdError (cy : Nat) (m : Bool) (cs : List Name) (code : Nat) : Prog (Res α) :=
  if isPerm code && code == 550 then
    (isdirC cy m cs).bind fun d => match d with
    | .err e => .ret (.err e)
    | .ok true => .ret (.err .FileExpected)
    | .ok false => .ret (.err (ftpErrors true code))
  else .ret (.err (ftpErrors true code))

/-- `FTPFS.readbytes` -/
def readbytesC (cy : Nat) (m : Bool) (cs : List Name) : Prog (Res Bytes) :=
  .cmd (.retr cs 0) fun r => match r with
    | .data b => .ret (.ok b)
    | .err code => fileCmdError cy m cs code
    | _ => .ret (.err .Leak)

def readbytes (cy : Nat) (m : Bool) (p : Str) : Prog (Res Bytes) :=
  match validate p with
  | .err e => .ret (.err e)
  | .ok cs => readbytesC cy m cs

/-- `FTPFS.upload` of a whole file -/
def uploadC (cy : Nat) (m : Bool) (cs : List Name) (data : Bytes) : Prog (Res Unit) :=
  .cmd (.stor cs 0 data) fun r => match r with
    | .ok _ _ => .ret (.ok ())
    | .err code => fileCmdError cy m cs code
    | _ => .ret (.err .Leak)

/-- `FTPFS.writebytes` = `upload(path, BytesIO(contents))` -/
def writebytes (cy : Nat) (m : Bool) (p : Str) (data : Bytes) : Prog (Res Unit) :=
  match validate p with
  | .err e => .ret (.err e)
  | .ok cs => uploadC cy m cs data

/-- `FTPFS.create` (eb5521d) -/
def create (cy : Nat) (m : Bool) (p : Str) (wipe : Bool) : Prog (Res Bool) :=
  match validate p with
  | .err e => .ret (.err e)
  | .ok cs =>
    (if wipe then .ret (.ok false) else existsC cy m cs).bind fun x => match x with
    | .err e => .ret (.err e)
    | .ok true => .ret (.ok false)
    | .ok false => (isdirC cy m cs).bind fun d => match d with
      | .err e => .ret (.err e)
      | .ok true => .ret (.err .FileExpected)
      | .ok false => (storEmpty cs).bind fun s => match s with
        | .err e => .ret (.err e)
        | .ok () => .ret (.ok true)

/-- `FTPFS.setinfo` with a modification time (`mf` = `"MFMT" in self.features`) (aa89bf1) -/
def setinfo (cy : Nat) (m mf : Bool) (p : Str) : Prog (Res Unit) :=
  match validate p with
  | .err e => .ret (.err e)
  | .ok cs =>
    let needExists : Prog (Res Unit) := (existsC cy m cs).bind fun x => match x with
      | .err e => .ret (.err e)
      | .ok false => .ret (.err .ResourceNotFound)
      | .ok true => .ret (.ok ())
    if mf then
      .cmd (.mfmt cs) fun r => match r with
        | .ok _ _ => .ret (.ok ())
        | .err code => if isPerm code then needExists else .ret (.err (ftpErrors true code))
        | _ => .ret (.err .Leak)
    else needExists

/-- `FTPFS.remove` -/
def removeC (cy : Nat) (m : Bool) (cs : List Name) : Prog (Res Unit) :=
  (isdirC cy m cs).bind fun d => match d with
  | .err e => .ret (.err e)
  | .ok true => .ret (.err .FileExpected)
  | .ok false =>
    .cmd (.dele cs) fun r => match r with
      | .ok _ _ => .ret (.ok ())
      | .err code => .ret (.err (ftpErrors true code))
      | _ => .ret (.err .Leak)

def remove (cy : Nat) (m : Bool) (p : Str) : Prog (Res Unit) :=
  match validate p with
  | .err e => .ret (.err e)
  | .ok cs => removeC cy m cs

/-- `FS.isempty` = `next(iter(self.scandir(path)), None) is None` -/
def isemptyC (cy : Nat) (m : Bool) (cs : List Name) : Prog (Res Bool) :=
  (scandirC cy m cs).bind fun r => match r with
    | .err e => .ret (.err e)
    | .ok l => .ret (.ok l.isEmpty)

/-- `FTPFS.removedir` -/
def removedirC (cy : Nat) (m : Bool) (cs : List Name) : Prog (Res Unit) :=
  if cs = [] then .ret (.err .RemoveRootError)
  else
    .cmd (.rmd cs) fun r => match r with
      | .ok _ _ => .ret (.ok ())
      | .err code =>
        if isPerm code && code == 550 then
          (isfileC cy m cs).bind fun f => match f with
          | .err e => .ret (.err e)
          | .ok true => .ret (.err .DirectoryExpected)
          | .ok false => (isemptyC cy m cs).bind fun e => match e with
            | .err e => .ret (.err e)
            | .ok false => .ret (.err .DirectoryNotEmpty)
            | .ok true => .ret (.err (ftpErrors true code))
        else .ret (.err (ftpErrors true code))
      | _ => .ret (.err .Leak)

def removedir (cy : Nat) (m : Bool) (p : Str) : Prog (Res Unit) :=
  match validate p with
  | .err e => .ret (.err e)
  | .ok cs => removedirC cy m cs

/-! ### base-class defaults FTPFS inherits (fs/base.py) -/

/-- `FS.appendbytes` = `open(path, "ab")` … `write(data)`: `openbin` (creates the file with an empty
    `STOR` when it is missing), then `FTPFile.write` = one `APPE` — whose refusal would reach the caller
    as a raw `ftplib` error (C16) -/
def appendbytes (cy : Nat) (m : Bool) (p : Str) (data : Bytes) : Prog (Res Unit) :=
  (openbin cy m p ['a', 'b']).bind fun o => match o with
  | .err e => .ret (.err e)
  | .ok cs =>
    .cmd (.appe cs data) fun r => match r with
      | .ok _ _ => .ret (.ok ())
      | _ => .ret (.err .Leak)

/-- `FS.touch` -/
def touch (cy : Nat) (m mf : Bool) (p : Str) : Prog (Res Unit) :=
  (create cy m p false).bind fun c => match c with
  | .err e => .ret (.err e)
  | .ok true => .ret (.ok ())
  | .ok false => setinfo cy m mf p

/-- the loop of `tools.get_intermediate_dirs` over `FTPFS.getinfo` (see `Mem.intermediateDirs`) -/
def interGo (cy : Nat) (m : Bool) : List (List Name) → List (List Name) → Prog (Res (List (List Name)))
  | [], acc => .ret (.ok acc)
  | pre :: rest, acc =>
    (getinfoP cy m pre).bind fun r => match r with
    | .err .ResourceNotFound => interGo cy m rest (pre :: acc)
    | .err e => .ret (.err e)
    | .ok (_, true, _) => .ret (.ok acc)
    | .ok (_, false, _) => .ret (.err .DirectoryExpected)

def intermediateDirs (cy : Nat) (m : Bool) (cs : List Name) : Prog (Res (List (List Name))) :=
  (interGo cy m ((List.range (cs.length + 1)).reverse.map fun i => cs.take i) []).bind fun r => match r with
  | .err e => .ret (.err e)
  | .ok l => .ret (.ok l.dropLast)

/-- `FS.makedirs` (`self.check()` is `step`'s) -/
def makedirs (cy : Nat) (m : Bool) (p : Str) (recreate : Bool) : Prog (Res Unit) :=
  match validate p with
  | .err e => .ret (.err e)
  | .ok cs =>
    (intermediateDirs cy m cs).bind fun r => match r with
    | .err e => .ret (.err e)
    | .ok dirs =>
      -- every intermediate is missing below an existing (or just made) directory, so `makedir` on it
      -- succeeds (the simplification of `Mem.makedirs`; validated by the correspondence)
      .edit "makedirs: MKD of every missing intermediate directory"
        (fun t => some (dirs.foldl (fun t d => t.set d (.dir [])) t))
        fun _ => ((makedir cy m p false).bind fun r2 => match r2 with
          | .err .DirectoryExists =>
            if !recreate then .ret (.err .DirectoryExists) else opendirC cy m cs
          | .err e => .ret (.err e)
          | .ok () => .ret (.ok ()))

/-- `FS.removetree`: `self.validatepath(dir_path)` comes first (since /repo 433aea4; before, `abspath(normpath(…))`
    with no validation of its own), then a depth-first walker whose first act is `scandir(dir_path)`; the loop
    (`remove` / `removedir` of every entry, deepest first) empties the directory; then `removedir(dir_path)` unless
    it is the root -/
def removetree (cy : Nat) (m : Bool) (p : Str) : Prog (Res Unit) :=
  match validate p with
  | .err e => .ret (.err e)
  | .ok cs =>
    (scandirC cy m cs).bind fun r => match r with
    | .err e => .ret (.err e)
    | .ok _ =>
      .edit "removetree: DELE / RMD of every entry below, deepest first"
        (fun t => some (setAt t cs (.dir [])))
        fun _ => (if cs = [] then .ret (.ok ()) else removedirC cy m cs)

/-- `FS.copy`: the destination check, the same-path check, `open(src, "rb")` (= `openbin`), `upload` -/
def copy (cy : Nat) (m : Bool) (sp dp : Str) (overwrite : Bool) : Prog (Res Unit) :=
  match validate sp with
  | .err e => .ret (.err e)
  | .ok a =>
    match validate dp with
    | .err e => .ret (.err e)
    | .ok b =>
      (if overwrite then .ret (.ok false) else existsC cy m b).bind fun x => match x with
      | .err e => .ret (.err e)
      | .ok true => .ret (.err .DestinationExists)
      | .ok false =>
        if a = b then .ret (.err .IllegalDestination)
        else (openbin cy m sp ['r', 'b']).bind fun o => match o with
          | .err e => .ret (.err e)
          | .ok _ => (readbytesC cy m a).bind fun d => match d with
            | .err _ => .ret (.err .Leak)          -- the `RETR` of the open `FTPFile` refused: raw `ftplib` error
            | .ok data => uploadC cy m b data

/-- `FS.move` (`supports_rename` is not set by FTPFS: always copy + remove) -/
def move (cy : Nat) (m : Bool) (sp dp : Str) (overwrite : Bool) : Prog (Res Unit) :=
  match validate sp with
  | .err e => .ret (.err e)
  | .ok a =>
    match validate dp with
    | .err e => .ret (.err e)
    | .ok b =>
      (if overwrite then .ret (.ok false) else existsC cy m b).bind fun x => match x with
      | .err e => .ret (.err e)
      | .ok true => .ret (.err .DestinationExists)
      | .ok false => (getinfoP cy m a).bind fun i => match i with
        | .err e => .ret (.err e)
        | .ok (_, true, _) => .ret (.err .FileExpected)
        | .ok (_, false, _) =>
          if a = b then .ret (.ok ())
          else (openbin cy m sp ['r', 'b']).bind fun o => match o with
            | .err e => .ret (.err e)
            | .ok _ => (readbytesC cy m a).bind fun d => match d with
              | .err _ => .ret (.err .Leak)
              | .ok data => (uploadC cy m b data).bind fun u => match u with
                | .err e => .ret (.err e)
                | .ok () => removeC cy m a

/-- `copy_dir(self, src, self, dst)` on the tree: the entries of the source directory merged over those
    of the destination directory (`Ref.mergeEnts`); `none` = a file / directory name conflict inside -/
def mergeDir (a b : List Name) (t : Node) : Option Node :=
  match t.get a, t.get b with
  | some (.dir es), some (.dir ds) => (mergeEnts es ds).map fun m => setAt t b (.dir m)
  | _, _ => none

/-- base-class `FS.movedir` (through `move_dir`): the argument checks, `getinfo(src).is_dir`,
    `makedir(dst, recreate=True)`, `copy_dir` (tree-level merge), then `removetree(src)` -/
def movedir (cy : Nat) (m : Bool) (sp dp : Str) (create : Bool) : Prog (Res Unit) :=
  match validate sp with
  | .err e => .ret (.err e)
  | .ok a =>
    match validate dp with
    | .err e => .ret (.err e)
    | .ok b =>
      if a = b then .ret (.ok ())
      else if Ref.isPrefix a b then .ret (.err .IllegalDestination)
      else (if create then .ret (.ok true) else existsC cy m b).bind fun x => match x with
        | .err e => .ret (.err e)
        | .ok false => .ret (.err .ResourceNotFound)
        | .ok true => (getinfoP cy m a).bind fun i => match i with
          | .err e => .ret (.err e)
          | .ok (_, false, _) => .ret (.err .DirectoryExpected)
          | .ok (_, true, _) => (makedir cy m dp true).bind fun mk => match mk with
            | .err e => .ret (.err e)
            | .ok () =>
              .edit "copy_dir: MKD / RETR+STOR of every entry of the source (tree-level merge)" (mergeDir a b)
                fun ok => if !ok then .ret (.err .OperationFailed) else removetree cy m sp

/-- base-class `FS.copydir` + `copy_dir` (tree-level merge; `copy_structure` = makedirs) -/
def copydir (cy : Nat) (m : Bool) (sp dp : Str) (create : Bool) : Prog (Res Unit) :=
  match validate sp with
  | .err e => .ret (.err e)
  | .ok a =>
    match validate dp with
    | .err e => .ret (.err e)
    | .ok b =>
      if Ref.isPrefix a b then .ret (.err .IllegalDestination)
      else (if create then .ret (.ok true) else existsC cy m b).bind fun x => match x with
        | .err e => .ret (.err e)
        | .ok false => .ret (.err .ResourceNotFound)
        | .ok true => (getinfoP cy m a).bind fun i => match i with
          | .err e => .ret (.err e)
          | .ok (_, false, _) => .ret (.err .DirectoryExpected)
          | .ok (_, true, _) => (makedirs cy m dp true).bind fun mk => match mk with
            | .err e => .ret (.err e)
            | .ok () =>
              .edit "copy_dir: MKD / RETR+STOR of every entry of the source (tree-level merge)" (mergeDir a b)
                fun ok => if !ok then .ret (.err .OperationFailed) else .ret (.ok ())

/-! ### one call on an FTPFS -/

abbrev M := State × Out

/-- what a call on a CLOSED filesystem raises: `check()` comes first everywhere, except that `openbin`
    validates its mode before (the inherited `removetree` used to normalise its path before; since /repo 433aea4
    it starts with `validatepath`, i.e. with `check()`) -/
def closedErr : Op → Err
  | .openbin _ mode => if (parseBinMode mode).isNone then .ValueError else .FilesystemClosed
  | _ => .FilesystemClosed

def withPath (p : Str) (f : List Name → Prog (Res α)) : Prog (Res α) :=
  match validate p with
  | .err e => .ret (.err e)
  | .ok cs => f cs

def mapRes (p : Prog (Res α)) (f : α → Val) : Prog (Res Val) :=
  p.bind fun r => match r with
    | .ok a => .ret (.ok (f a))
    | .err e => .ret (.err e)

/-- the program of one operation (`m` = `supports_mlst`, `mf` = `"MFMT" in features`) -/
def opProg (cy : Nat) (m mf : Bool) : Op → Prog (Res Val)
  | .close => .ret (.ok .unit)
  | .exists_ p => mapRes (withPath p (existsC cy m)) .bool
  | .isdir p => mapRes (withPath p (isdirC cy m)) .bool
  | .isfile p => mapRes (withPath p (isfileC cy m)) .bool
  | .listdir p => mapRes (withPath p (scandirC cy m)) fun l => .names (l.map (·.1))
  | .isempty p => mapRes (withPath p (isemptyC cy m)) .bool
  | .getsize p => mapRes (withPath p (getinfoP cy m)) fun (_, d, n) => .nat (if d then 0 else n)
  | .gettype p => mapRes (withPath p (getinfoP cy m)) fun (_, d, _) => .nat (if d then 1 else 2)
  | .getinfo p => mapRes (withPath p (getinfoP cy m)) fun (n, d, sz) => .info n d (if d then 0 else sz)
  | .readbytes p => mapRes (readbytes cy m p) .bytes
  | .makedir p r => mapRes (makedir cy m p r) fun _ => .unit
  | .makedirs p r => mapRes (makedirs cy m p r) fun _ => .unit
  | .writebytes p d => mapRes (writebytes cy m p d) fun _ => .unit
  | .appendbytes p d => mapRes (appendbytes cy m p d) fun _ => .unit
  | .create p w => mapRes (create cy m p w) .bool
  | .touch p => mapRes (touch cy m mf p) fun _ => .unit
  | .settimes p => mapRes (setinfo cy m mf p) fun _ => .unit
  | .openbin p mode => mapRes (openbin cy m p mode) fun _ => .unit
  | .remove p => mapRes (remove cy m p) fun _ => .unit
  | .removedir p => mapRes (removedir cy m p) fun _ => .unit
  | .removetree p => mapRes (removetree cy m p) fun _ => .unit
  | .move a b o => mapRes (move cy m a b o) fun _ => .unit
  | .copy a b o => mapRes (copy cy m a b o) fun _ => .unit
  | .movedir a b c => mapRes (movedir cy m a b c) fun _ => .unit
  | .copydir a b c => mapRes (copydir cy m a b c) fun _ => .unit

/-- the whole exchange of one call: `FEAT` (when the connection is made), then the operation -/
def callProg (cy : Nat) (op : Op) : Prog (Res Val) :=
  features.bind fun fs => opProg cy (dictGet kMLST fs).isSome (dictGet kMFMT fs).isSome op

/-- one call on an FTPFS connected to the server `X` holding the tree `s.root` -/
def step (X : Server) (cy : Nat) (s : State) (op : Op) : M :=
  match op with
  | .close => ({ s with closed := true }, .ok .unit)
  | _ =>
    if s.closed then (s, .err (closedErr op))
    else ({ s with root := (run X (callProg cy op) s.root).1 }, (run X (callProg cy op) s.root).2)

/-- the commands and replies of that call -/
def stepTrace (X : Server) (cy : Nat) (s : State) (op : Op) : List Event :=
  match op with
  | .close => []
  | _ => if s.closed then [] else trace X (callProg cy op) s.root

end Fs.Ftp
