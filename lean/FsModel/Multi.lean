/-
  FsModel.Multi — `fs/multifs.py` transcribed (C17).

  State: member filesystems by index; `_filesystems` as the list of entries in dict order
  (name, sort key `(priority, _sort_index at insertion)`, member index); `_sort_index`;
  `write_fs`; `_closed`; `_auto_close`.  The cached `_fs_sequence` is not modelled: it is reset
  by every `add_fs`/`close`, the only methods that change `_filesystems`, so it always equals
  the freshly sorted sequence.
-/
import FsModel.RouteBase

namespace Fs.Multi
open Fs Fs.Path Fs.Ref Fs.Route

structure Entry where
  name : Str
  prio : Int
  idx : Nat
  fs : Nat
  deriving DecidableEq, Repr, Inhabited

structure MState where
  fs : Fss
  entries : List Entry
  sortIndex : Nat
  writeFs : Option Nat
  closed : Bool
  autoClose : Bool

/-- `self._filesystems[name] = …`: replace in place when the name exists, else append -/
def dictSet (e : Entry) : List Entry → List Entry
  | [] => [e]
  | x :: xs => if x.name = e.name then e :: xs else x :: dictSet e xs

/-- `MultiFS.add_fs(name, fs, write, priority)` for an FS instance -/
def addFs (s : MState) (name : Str) (fs : Nat) (write : Bool) (prio : Int) : MState :=
  { s with
    entries := dictSet ⟨name, prio, s.sortIndex, fs⟩ s.entries,
    sortIndex := s.sortIndex + 1,
    writeFs := if write then some fs else s.writeFs }

/-- `a.key ≤ b.key` for the tuple keys `(priority, index)` -/
def keyLe (a b : Entry) : Bool := a.prio < b.prio || (a.prio == b.prio && a.idx ≤ b.idx)

def insertDesc (e : Entry) : List Entry → List Entry
  | [] => [e]
  | x :: xs => if keyLe x e then e :: x :: xs else x :: insertDesc e xs

/-- `sorted(items, key=(priority, index), reverse=True)` (keys are distinct, so stability does
not matter) -/
def sortDesc : List Entry → List Entry
  | [] => []
  | e :: es => insertDesc e (sortDesc es)

/-- `MultiFS.iterate_fs()`: members in descending `(priority, index)` order -/
def iterateFs (s : MState) : List Entry := sortDesc s.entries

/-- `MultiFS._delegate(path)`: the first member, in `iterate_fs` order, whose `exists(path)` is
true; an exception raised by a member's `exists` propagates. -/
def delegateLoop (f : Fss) (p : Str) : List Entry → Fss × Res (Option Nat) × List Call
  | [] => (f, .ok none, [])
  | e :: es =>
    let mc := memberCall f e.fs .exists_ p (.exists_ p)
    let f' := mc.1
    let c : Call := mc.2.2
    match mc.2.1 with
    | .err er => (f', .err er, [c])
    | .ok (.bool true) => (f', .ok (some e.fs), [c])
    | .ok _ =>
      let r := delegateLoop f' p es
      (r.1, r.2.1, c :: r.2.2)

/-- forward the primitive to member `i` with path `path` -/
def onMember (s : MState) (i : Nat) (pr : Prim) (path : Str) : MState × Out × List Call :=
  let m := forward s.fs i pr path
  ({ s with fs := m.1 }, m.2.1, [m.2.2])

/-- `fs = self._delegate(path)`, then `onNone` when there is none, else forward with `callPath` -/
def viaDelegate (s : MState) (pr : Prim) (p : Str) (callPath : Res Str) (onNone : Out) :
    MState × Out × List Call :=
  let d := delegateLoop s.fs p (iterateFs s)
  let s1 := { s with fs := d.1 }
  match d.2.1 with
  | .err e => (s1, .err e, d.2.2)
  | .ok none => (s1, onNone, d.2.2)
  | .ok (some i) =>
    match callPath with
    | .err e => (s1, .err e, d.2.2)
    | .ok cp =>
      let r := onMember s1 i pr cp
      (r.1, r.2.1, d.2.2 ++ r.2.2)

/-- `self._writable_required(path).<method>(path, …)` -/
def viaWrite (s : MState) (pr : Prim) (p : Str) : MState × Out × List Call :=
  match s.writeFs with
  | none => (s, .err .ResourceReadOnly, [])
  | some i => onMember s i pr p

def checked (s : MState) (k : MState × Out × List Call) : MState × Out × List Call :=
  if s.closed then (s, .err .FilesystemClosed, []) else k

/-- `list(OrderedDict.fromkeys(directory))` / the `seen` set of `scandir`: keep first occurrences -/
def dedupGo (seen : List Name) : List Name → List Name
  | [] => []
  | x :: xs => if x ∈ seen then dedupGo seen xs else x :: dedupGo (x :: seen) xs

def dedup (l : List Name) : List Name := dedupGo [] l

/-- the loop of `listdir` / a fully consumed `scandir`: every member in `iterate_fs` order;
`ResourceNotFound` is skipped; `DirectoryExpected` is skipped once a member has listed the path
and re-raised before that; any other error propagates.  Result: (concatenated names,
did any member list the path). -/
def listLoop (f : Fss) (meth : Meth) (p : Str) :
    List Entry → List Name → Bool → Fss × Res (List Name × Bool) × List Call
  | [], acc, ex => (f, .ok (acc, ex), [])
  | e :: es, acc, ex =>
    let mc := memberCall f e.fs meth p (.listdir p)
    let f' := mc.1
    let c : Call := mc.2.2
    match mc.2.1 with
    | .err .ResourceNotFound =>
      let r := listLoop f' meth p es acc ex
      (r.1, r.2.1, c :: r.2.2)
    | .err .DirectoryExpected =>
      -- a file of that name (since 8405cc0): shadowed when a member of higher priority already
      -- listed the path as a directory, else it answers for the path
      if ex then
        let r := listLoop f' meth p es acc ex
        (r.1, r.2.1, c :: r.2.2)
      else (f', .err .DirectoryExpected, [c])
    | .err er => (f', .err er, [c])
    | .ok (.names l) =>
      let r := listLoop f' meth p es (acc ++ l) true
      (r.1, r.2.1, c :: r.2.2)
    | .ok _ =>
      let r := listLoop f' meth p es acc true
      (r.1, r.2.1, c :: r.2.2)

def listing (s : MState) (meth : Meth) (p : Str) : MState × Out × List Call :=
  let r := listLoop s.fs meth p (iterateFs s) [] false
  let s1 := { s with fs := r.1 }
  match r.2.1 with
  | .err e => (s1, .err e, r.2.2)
  | .ok (acc, ex) =>
    if ex then (s1, .ok (.names (dedup acc)), r.2.2)
    else (s1, .err .ResourceNotFound, r.2.2)

/-- `next(iter(self.scandir(path)), None) is None`: the generator is advanced only until the
first entry is yielded, so members after the first non-empty one are never asked. -/
def scanFirstLoop (f : Fss) (p : Str) : List Entry → Bool → Fss × Out × List Call
  | [], ex => (f, if ex then .ok (.bool true) else .err .ResourceNotFound, [])
  | e :: es, ex =>
    let mc := memberCall f e.fs .scandir p (.listdir p)
    let f' := mc.1
    let c : Call := mc.2.2
    match mc.2.1 with
    | .err .ResourceNotFound =>
      let r := scanFirstLoop f' p es ex
      (r.1, r.2.1, c :: r.2.2)
    | .err .DirectoryExpected =>
      if ex then
        let r := scanFirstLoop f' p es ex
        (r.1, r.2.1, c :: r.2.2)
      else (f', .err .DirectoryExpected, [c])
    | .err er => (f', .err er, [c])
    | .ok (.names (_ :: _)) => (f', .ok (.bool false), [c])
    | .ok _ =>
      let r := scanFirstLoop f' p es true
      (r.1, r.2.1, c :: r.2.2)

def normRes (p : Str) : Res Str :=
  match normpath p with
  | .err e => .err e
  | .ok n => .ok (abspath n)

/-- every method `MultiFS` defines, routed exactly as coded -/
def prim (s : MState) (pr : Prim) : MState × Out × List Call :=
  let nf : Out := .err .ResourceNotFound
  match pr with
  -- reads: the first member (highest priority) that contains the path
  | .getinfo p => checked s (viaDelegate s pr p (normRes p) nf)
  | .readbytes p | .getsize p | .gettype p | .openRead p | .readtext p | .download p =>
    checked s (viaDelegate s pr p (.ok p) nf)
  | .isdir p | .isfile p => checked s (viaDelegate s pr p (.ok p) (.ok (.bool false)))
  -- removals: the member that contains the path (not necessarily the write member)
  | .remove p | .removedir p => checked s (viaDelegate s pr p (.ok p) nf)
  -- listings: union over all members
  | .listdir p => checked s (listing s .listdir p)
  | .scandir p => checked s (listing s .scandir p)
  | .scanFirst p =>
    checked s
      (let r := scanFirstLoop s.fs p (iterateFs s) false
       ({ s with fs := r.1 }, r.2.1, r.2.2))
  -- creating / writing: the write member, `ResourceReadOnly` without one
  | .makedir p _ | .makedirs p _ | .setinfo p | .openWrite p | .openAppend p _
  | .upload p _ | .writebytes p _ | .writetext p _ =>   -- these call `self.check()` since 7868a16
    checked s (viaWrite s pr p)
  -- `openbin` and `open`: `check()`, then `check_writable(mode)` (which validates the mode) decides
  -- between the write member and the member containing the path
  | .openbin p m | .open_ p m _ =>
    checked s
      (if !modeOk m then (s, .err .ValueError, [])
       else if checkWritable m then viaWrite s pr p else viaDelegate s pr p (.ok p) nf)

/-- `MultiFS.validatepath`: `check()`; `write_fs.validatepath(path)` when there is a write
member, else the base-class check (MultiFS declares no invalid characters); then
`abspath(normpath(path))` -/
def validate (s : MState) (p : Str) : Res Unit × List Call :=
  if s.closed then (.err .FilesystemClosed, [])
  else
    let norm : Res Unit := match normpath p with
      | .err e => .err e
      | .ok _ => .ok ()
    match s.writeFs with
    | some i =>
      (match memberValidate (s.fs i) p with
       | .err e => .err e
       | .ok _ => norm, [⟨i, .validatepath, p, validateOp p⟩])
    | none => (norm, [])

def sem : Sem MState := { prim := prim, validate := validate, closed := fun s => s.closed }

def closeAll (f : Fss) : List Nat → Fss × List Call
  | [] => (f, [])
  | i :: is =>
    let m := memberCall f i .close [] .close
    let r := closeAll m.1 is
    (r.1, m.2.2 :: r.2)

/-- `MultiFS.close()`: `_closed = True`; with `auto_close` every member (dict order) is closed and
`_filesystems` is cleared.  `write_fs` keeps pointing at the old write member. -/
def close (s : MState) : MState × Out × List Call :=
  if s.autoClose then
    let r := closeAll s.fs (s.entries.map (·.fs))
    ({ s with fs := r.1, entries := [], closed := true }, .ok .unit, r.2)
  else ({ s with closed := true }, .ok .unit, [])

/-- every reference operation as the program MultiFS runs for it (`makedirs` is its own
method here) -/
def prog : Ref.Op → Option Prog
  | .makedirs p rc => some (one (.makedirs p rc))
  | op => commonProg op

/-- One call on a MultiFS: new state, result, and the calls the members received.
`none` for the walker-based bulk defaults (`removetree`, `movedir`, `copydir`). -/
def step (s : MState) (op : Ref.Op) : Option (MState × Out × List Call) :=
  match op with
  | .close => some (close s)
  | _ => (prog op).map fun pr => pr.run sem s

end Fs.Multi
