/-
  FsModel.InfoDriver — line-protocol commands for `FsModel.Info`.

  info.perm mode <int>                 → ok <mode> <Ldump> <as_str>      Permissions(mode=…)
  info.perm names <Lnames>             → …                               Permissions(names=…)
  info.perm str <text>                 → …                               Permissions.parse(text)
  info.perm ugo <u> <g> <o> <sticky><setuid><setguid>  → …              Permissions(user=…, …)
  info.permop <Lnames> add|remove|check|copy|eq <Largs> → ok <mode> <Ldump> <as_str> | ok 0|1
  info.create none | mode <int> | names <L> | other     → ok <mode> <Ldump> | err ValueError
  info.time <num> <den>                → ok y m d h mi s us | err RangeError   (fromtimestamp, utc)
  info.dt2epoch <y> <m> <d> <h> <mi> <s> <offset>  → ok <int>                      (datetime_to_epoch)
  info.name <name>                     → ok <suffix> <Lsuffixes> <stem>
  info.acc <accessor> <a1> <a2> <raw…> → ok <value> | err <class>
      accessor ∈ name is_dir is_file suffix suffixes stem type size accessed modified created
                 metadata_changed permissions user group uid gid target is_link copy namespaces
                 has_namespace(a1) get(a1,a2) getd(a1,a2; default = the string "D") is_writeable(a1,a2)
      (`a1`, `a2` are hex strings, `-` when unused)

  info.raw mem <name> <isdir> <size> <details> <accessed> <modified> <created>  → ok <raw>   (MemoryFS to_info)
  info.raw arch <name> <isdir> <size|~> <details> <root> [<modified>]        → ok <raw>   (ReadZipFS/ReadTarFS)

  raw info:  R<n> then n × ( <ns> <m> then m × ( <key> <value> ) )
  value:     n | t | f | i<int> | q<num>/<den> | s<hex> | l<k> then k values
  values in replies use the same tokens; a time is `T y m d h mi s us`, a Permissions object
  `P <mode> <Ldump> <as_str>`, Python `None` is `n`.
-/
import FsModel.Info
import FsModel.Proto

namespace Fs.InfoDriver
open Fs Fs.Info Fs.Proto

def permOut (p : Permissions) : String :=
  toString p.mode ++ " " ++ strList p.dump ++ " " ++ str p.asStr

mutual
def parseVal : Nat → List String → Option (JVal × List String)
  | 0, _ => none
  | _, [] => none
  | fuel + 1, tok :: rest =>
    match tok.toList with
    | ['n'] => some (.null, rest)
    | ['t'] => some (.bool true, rest)
    | ['f'] => some (.bool false, rest)
    | 'i' :: ds => (String.ofList ds).toInt?.map fun i => (.int i, rest)
    | 'q' :: ds =>
      match (String.ofList ds).splitOn "/" with
      | [a, b] => do
        let n ← a.toInt?
        let d ← b.toNat?
        some (.float n d, rest)
      | _ => none
    | 's' :: hs => (hexToStr (String.ofList hs)).map fun s => (.str s, rest)
    | 'l' :: ds => do
      let k ← (String.ofList ds).toNat?
      let (vs, rest') ← parseVals fuel k rest
      some (.list vs, rest')
    | _ => none
def parseVals : Nat → Nat → List String → Option (List JVal × List String)
  | 0, _, _ => none
  | _, 0, toks => some ([], toks)
  | fuel + 1, k + 1, toks => do
    let (v, r1) ← parseVal fuel toks
    let (vs, r2) ← parseVals fuel k r1
    some (v :: vs, r2)
end

def parseKVs (fuel : Nat) : Nat → List String → Option (NS × List String)
  | 0, toks => some ([], toks)
  | m + 1, key :: toks => do
    let k ← hexToStr key
    let (v, r1) ← parseVal fuel toks
    let (kvs, r2) ← parseKVs fuel m r1
    some ((k, v) :: kvs, r2)
  | _ + 1, [] => none

def parseNSs (fuel : Nat) : Nat → List String → Option (Raw × List String)
  | 0, toks => some ([], toks)
  | n + 1, ns :: m :: toks => do
    let name ← hexToStr ns
    let mm ← m.toNat?
    let (kvs, r1) ← parseKVs fuel mm toks
    let (rest, r2) ← parseNSs fuel n r1
    some ((name, kvs) :: rest, r2)
  | _ + 1, _ => none

def parseRaw (toks : List String) : Option Raw :=
  match toks with
  | hd :: rest =>
    match hd.toList with
    | 'R' :: ds => do
      let n ← (String.ofList ds).toNat?
      let (raw, left) ← parseNSs (toks.length + 1) n rest
      if left.isEmpty then some raw else none
    | _ => none
  | [] => none

mutual
def valOut : JVal → String
  | .null => "n"
  | .bool true => "t"
  | .bool false => "f"
  | .int i => "i" ++ toString i
  | .float n d => "q" ++ toString n ++ "/" ++ toString d
  | .str s => "s" ++ str s
  | .list l => "l" ++ toString l.length ++ valsOut l
def valsOut : List JVal → String
  | [] => ""
  | v :: vs => " " ++ valOut v ++ valsOut vs
end

def rawOut (raw : Raw) : String :=
  "R" ++ toString raw.length ++ String.join (raw.map fun (ns, kvs) =>
    " " ++ str ns ++ " " ++ toString kvs.length ++ String.join (kvs.map fun (k, v) => " " ++ str k ++ " " ++ valOut v))

def ires (f : α → String) : IRes α → String
  | .ok a => "ok " ++ f a
  | .error e => "err " ++ e.name

def dtOut (t : DT) : String :=
  s!"{t.year} {t.month} {t.day} {t.hour} {t.minute} {t.second} {t.micro}"

def optDtOut : Option DT → String
  | none => "n"
  | some t => "T " ++ dtOut t

def acc (name : String) (a1 a2 : Str) (i : Info) : Option String :=
  match name with
  | "name" => some ("ok " ++ valOut i.name)
  | "is_dir" => some ("ok " ++ valOut i.isDir)
  | "is_file" => some ("ok " ++ bool i.isFile)
  | "suffix" => some (ires str i.suffix)
  | "suffixes" => some (ires strList i.suffixes)
  | "stem" => some (ires str i.stem)
  | "type" => some (ires toString i.type)
  | "size" => some (ires valOut i.size)
  | "accessed" => some (ires optDtOut i.accessed)
  | "modified" => some (ires optDtOut i.modified)
  | "created" => some (ires optDtOut i.created)
  | "metadata_changed" => some (ires optDtOut i.metadataChanged)
  | "permissions" => some (ires (fun o => match o with | none => "n" | some p => "P " ++ permOut p) i.permissions)
  | "user" => some (ires valOut i.user)
  | "group" => some (ires valOut i.group)
  | "uid" => some (ires valOut i.uid)
  | "gid" => some (ires valOut i.gid)
  | "target" => some (ires valOut i.target)
  | "is_link" => some (ires bool i.isLink)
  | "copy" => some ("ok " ++ rawOut i.copy.raw)
  | "namespaces" => some ("ok " ++ strList i.namespaces)
  | "has_namespace" => some ("ok " ++ bool (i.hasNamespace a1))
  | "get" => some ("ok " ++ valOut (i.get a1 a2))
  | "getd" => some ("ok " ++ valOut (i.get a1 a2 (.str ['D'])))
  | "is_writeable" => some (ires bool (i.isWriteable a1 a2))
  | _ => none

def nat? (args : List String) (i : Nat) : Option Nat := do (← args[i]?).toNat?
def int? (args : List String) (i : Nat) : Option Int := do (← args[i]?).toInt?

def handle (cmd : String) (args : List String) : Option String :=
  match cmd with
  | "info.perm" =>
    match args[0]? with
    | some "mode" => do pure ("ok " ++ permOut (Permissions.init none (some (← int? args 1)) none none none false false false))
    | some "names" => do pure ("ok " ++ permOut (Permissions.ofNames (← argList args 1)))
    | some "str" => do pure ("ok " ++ permOut (Permissions.parse (← arg args 1)))
    | some "ugo" => do
      let fl ← args[4]?
      let b := fun (k : Nat) => fl.toList[k]? == some '1'
      pure ("ok " ++ permOut (Permissions.init none none (some (← arg args 1)) (some (← arg args 2))
        (some (← arg args 3)) (b 0) (b 1) (b 2)))
    | _ => none
  | "info.permop" => do
    let p := Permissions.ofNames (← argList args 0)
    let xs ← argList args 2
    match ← args[1]? with
    | "add" => pure ("ok " ++ permOut (p.add xs))
    | "remove" => pure ("ok " ++ permOut (p.remove xs))
    | "check" => pure ("ok " ++ bool (p.check xs))
    | "copy" => pure ("ok " ++ permOut p.copy)
    | "eq" => pure ("ok " ++ bool (p.eq (Permissions.ofNames xs)))
    | "eqnames" => pure ("ok " ++ bool (p.eqNames xs))
    | _ => none
  | "info.create" => do
    let i : Permissions.Init ← match ← args[0]? with
      | "none" => some .none
      | "mode" => (int? args 1).map .mode
      | "names" => (argList args 1).map .names
      | "other" => some .other
      | _ => none
    pure (ires (fun p => toString p.mode ++ " " ++ strList p.dump) (Permissions.create i))
  | "info.time" => do
    pure (ires dtOut (epochToDatetimeQ (← int? args 0) (← nat? args 1)))
  | "info.dt2epoch" => do
    let d : DT := ⟨← nat? args 0, ← nat? args 1, ← nat? args 2, ← nat? args 3, ← nat? args 4, ← nat? args 5, 0⟩
    pure ("ok " ++ toString (datetimeToEpoch d (← int? args 6)))
  | "info.name" => do
    let n ← arg args 0
    pure ("ok " ++ str (suffixOf n) ++ " " ++ strList (suffixesOf n) ++ " " ++ str (stemOf n))
  | "info.raw" => do
    let name ← arg args 1
    let isDir := args[2]? == some "1"
    let details := args[4]? == some "1"
    match ← args[0]? with
    | "mem" =>
      let (ts, _) ← parseVals 64 3 (args.drop 5)
      pure ("ok " ++ rawOut (memRaw (name, isDir, ← nat? args 3) details (ts.getD 0 .null) (ts.getD 1 .null) (ts.getD 2 .null)))
    | "arch" =>
      -- <size|~> <details> <root> <modified value|~>
      let size : Option Nat := (args[3]?).bind String.toNat?
      let isRoot := args[5]? == some "1"
      let modified : Option JVal := (parseVal 64 (args.drop 6)).map (·.1)
      pure ("ok " ++ rawOut (archiveRaw name isDir size modified details isRoot))
    | _ => none
  | "info.acc" => do
    let name ← args[0]?
    let a1 ← arg args 1
    let a2 ← arg args 2
    let raw ← parseRaw (args.drop 3)
    acc name a1 a2 ⟨raw⟩
  | _ => none

end Fs.InfoDriver
