/-
  FsModel.Posix — a minimal POSIX directory model over the `Node` tree: the system calls OSFS
  (fs/osfs.py) and the `FS.move` fast path (fs/base.py) make, each returning a result or an `errno`.

  Scope.  One directory tree of regular files and directories, rooted at the OSFS root directory
  (`[]`), on one device, with every permission granted:
    * NO symbolic links (so `lstat = stat`, `os.path.islink` is constantly false, `scandir`'s
      `is_dir()` needs no second lookup) and no hard links;
    * NO permissions / ownership / quotas / read-only mounts: `EACCES`, `EPERM`, `ENOSPC`, `EROFS`,
      `EXDEV`, `ENAMETOOLONG`, `ELOOP`, `EMFILE`, `EIO` … are never returned (they exist in `Errno`
      only because the GENERATED translation table `Generated/ErrnoTable.lean` mentions them);
    * path arguments are lists of *clean* components (what `FS.validatepath` + `_to_sys_path` hand to
      the kernel: no empty component, no `.`/`..`, no `/`, no NUL), so no trailing-slash rules;
    * time stamps are not part of the tree (`utime` only resolves its path);
    * errno values are Linux's where POSIX leaves a choice (`unlink(directory)` is `EISDIR`,
      `rename(file, directory)` is `EISDIR`, `rmdir` of a non-empty directory is `ENOTEMPTY`);
    * `open` is Python's `io.open`/`FileIO` on top of `open(2)`: a directory opened read-only is
      refused with `EISDIR` by `FileIO` itself, and the mode string is parsed as `_io.open` does.
  The order of entries in a directory is the kernel's business: the model keeps insertion order
  (`Ents.put` appends) and the correspondence compares listings and trees up to order.

  This file is validated against the real kernel on every run (`harness/props/_osexact.py`,
  command `posix.sys` of `OsDriver.lean`): same errno, same resulting tree, for every call below on
  every small tree.
-/
import FsModel.Tree

namespace Fs.Posix
open Fs

/-- `errno` values.  The first block is what this model can return; the rest only occurs as keys of
the translation table of `fs/error_tools.py`. -/
inductive Errno where
  | ENOENT | ENOTDIR | EEXIST | EISDIR | ENOTEMPTY | EINVAL | EBUSY | EXDEV
  | EACCES | EPERM | EFAULT | ESRCH | ENOSPC | ENETDOWN | ECONNRESET | ENAMETOOLONG
  | EOPNOTSUPP | ENOSYS | ENONET | EROFS | EMFILE | ENFILE | ELOOP | EIO
  | other (n : Nat)      -- a numeric key without a name on this platform (e.g. winerror 183)
  | unknownErrno         -- the extractor did not understand the key
  deriving DecidableEq, Repr, Inhabited

def Errno.name : Errno → String
  | .ENOENT => "ENOENT" | .ENOTDIR => "ENOTDIR" | .EEXIST => "EEXIST" | .EISDIR => "EISDIR"
  | .ENOTEMPTY => "ENOTEMPTY" | .EINVAL => "EINVAL" | .EBUSY => "EBUSY" | .EXDEV => "EXDEV"
  | .EACCES => "EACCES" | .EPERM => "EPERM" | .EFAULT => "EFAULT" | .ESRCH => "ESRCH"
  | .ENOSPC => "ENOSPC" | .ENETDOWN => "ENETDOWN" | .ECONNRESET => "ECONNRESET"
  | .ENAMETOOLONG => "ENAMETOOLONG" | .EOPNOTSUPP => "EOPNOTSUPP" | .ENOSYS => "ENOSYS"
  | .ENONET => "ENONET" | .EROFS => "EROFS" | .EMFILE => "EMFILE" | .ENFILE => "ENFILE"
  | .ELOOP => "ELOOP" | .EIO => "EIO" | .other n => "E#" ++ toString n | .unknownErrno => "E?"

/-- the `fs.errors` class names that may appear as values of the translation table -/
inductive FsClass where
  | ResourceNotFound | FileExpected | DirectoryExpected | DirectoryExists | FileExists
  | DestinationExists | DirectoryNotEmpty | RemoveRootError | IllegalDestination
  | IllegalBackReference | InvalidCharsInPath | ResourceReadOnly | FilesystemClosed
  | Unsupported | OperationFailed | PermissionDenied | RemoteConnectionError
  | InsufficientStorage | PathError | InvalidPath | ResourceLocked | ResourceInvalid
  | ResourceError | OperationTimeout | CreateFailed | FSError
  | unknownClass         -- the extractor did not understand the value
  deriving DecidableEq, Repr, Inhabited

/-- into the error vocabulary of the model (`Fs.Err`).  Classes `Fs.Err` does not name can only
be chosen for errnos this model never returns; they are rendered as `Leak`, which no `Ref.adm`
list contains — so a table that sends a modelled errno to one of them fails
`OsRefines.errno_table_truthful`. -/
def FsClass.toErr : FsClass → Err
  | .ResourceNotFound => .ResourceNotFound | .FileExpected => .FileExpected
  | .DirectoryExpected => .DirectoryExpected | .DirectoryExists => .DirectoryExists
  | .FileExists => .FileExists | .DestinationExists => .DestinationExists
  | .DirectoryNotEmpty => .DirectoryNotEmpty | .RemoveRootError => .RemoveRootError
  | .IllegalDestination => .IllegalDestination | .IllegalBackReference => .IllegalBackReference
  | .InvalidCharsInPath => .InvalidCharsInPath | .ResourceReadOnly => .ResourceReadOnly
  | .FilesystemClosed => .FilesystemClosed | .Unsupported => .Unsupported
  | .OperationFailed => .OperationFailed
  | _ => .Leak

/-- one row of the GENERATED call-site table: a method of `OSFS`, an OS primitive (or private
helper) it calls, and the lexically enclosing `convert_os_errors(.., directory=..)` -/
structure Site where
  method : String
  call : String
  wrapped : Bool
  directory : Bool
  deriving DecidableEq, Repr

/-- result of a system call -/
abbrev Sys (α : Type) := Except Errno α

/-! ### path resolution -/

/-- `stat(2)` (= `lstat`: no symbolic links): the node a component path resolves to.  A missing
component is `ENOENT`; a regular file used as a directory is `ENOTDIR`. -/
def stat : Node → List Name → Sys Node
  | n, [] => .ok n
  | .dir es, c :: cs => match Ents.lookup c es with
    | some ch => stat ch cs
    | none => .error .ENOENT
  | .file _, _ :: _ => .error .ENOTDIR

/-- `lstat(2)`: there are no symbolic links in this model -/
def lstat (t : Node) (cs : List Name) : Sys Node := stat t cs

/-- `os.path.exists` (never raises: any `OSError` is `False`) -/
def pathExists (t : Node) (cs : List Name) : Bool :=
  match stat t cs with | .ok _ => true | .error _ => false

/-- `os.path.isdir` (never raises) -/
def pathIsdir (t : Node) (cs : List Name) : Bool :=
  match stat t cs with | .ok (.dir _) => true | _ => false

/-- `os.path.islink`: no symbolic links in this model -/
def pathIslink (_t : Node) (_cs : List Name) : Bool := false

/-- `(parent components, last component)` of a non-root path -/
def splitLast (cs : List Name) : List Name × Name := (cs.dropLast, cs.getLast?.getD [])

/-! ### directories -/

/-- `os.listdir` / `os.scandir`: the names in a directory, in stored order -/
def listdir (t : Node) (cs : List Name) : Sys (List Name) :=
  match stat t cs with
  | .error e => .error e
  | .ok (.file _) => .error .ENOTDIR
  | .ok (.dir es) => .ok (Ents.names es)

/-- `os.scandir`: (name, `is_dir()`) per entry -/
def scandir (t : Node) (cs : List Name) : Sys (List (Name × Bool)) :=
  match stat t cs with
  | .error e => .error e
  | .ok (.file _) => .error .ENOTDIR
  | .ok (.dir es) => .ok (es.map fun (k, v) => (k, v.isDir))

/-- `mkdir(2)` -/
def mkdir (t : Node) (cs : List Name) : Sys Node :=
  if cs = [] then .error .EEXIST
  else match stat t cs.dropLast with
    | .error e => .error e
    | .ok (.file _) => .error .ENOTDIR
    | .ok (.dir es) =>
      match Ents.lookup (cs.getLast?.getD []) es with
      | some _ => .error .EEXIST
      | none => .ok (t.set cs (.dir []))

/-- `rmdir(2)`; the root of the model plays the part of `.`/`/`: `EINVAL` (unreachable from OSFS,
which refuses the root before calling `rmdir`) -/
def rmdir (t : Node) (cs : List Name) : Sys Node :=
  match stat t cs with
  | .error e => .error e
  | .ok (.file _) => .error .ENOTDIR
  | .ok (.dir es) =>
    if cs = [] then .error .EINVAL
    else if es.isEmpty then .ok (t.del cs) else .error .ENOTEMPTY

/-! ### files -/

/-- `unlink(2)` (`os.remove`); Linux answers `EISDIR` for a directory -/
def unlink (t : Node) (cs : List Name) : Sys Node :=
  match stat t cs with
  | .error e => .error e
  | .ok (.dir _) => .error .EISDIR
  | .ok (.file _) => .ok (t.del cs)

/-- the `open(2)` flags `FileIO` derives from a mode string -/
structure OFlags where
  read : Bool
  write : Bool
  creat : Bool
  excl : Bool
  trunc : Bool
  append : Bool
  deriving Repr, DecidableEq

/-- `Mode.to_platform_bin()`: drop `t`, add `b` when absent -/
def platformBin (mode : Str) : Str :=
  let m := mode.filter (· != 't')
  if m.contains 'b' then m else m ++ ['b']

/-- `_io.open(path, mode)` + `FileIO.__init__`: the flags of a *binary* mode string, or `none` when
`io.open` itself raises `ValueError` (a character outside `rwxab+`, a repeated character, not
exactly one of `r w x a`, text mode) -/
def ioOpenFlags (mode : Str) : Option OFlags :=
  let has (c : Char) := mode.contains c
  if !(mode.all fun c => ['r', 'w', 'x', 'a', 'b', '+'].contains c) then none
  else if !mode.Nodup then none
  else if (['r', 'w', 'x', 'a'].filter has).length != 1 then none
  else some { read := has 'r' || has '+',
              write := has 'w' || has 'x' || has 'a' || has '+',
              creat := has 'w' || has 'x' || has 'a',
              excl := has 'x',
              trunc := has 'w',
              append := has 'a' }

/-- `io.open(path, <binary mode>)` as far as the tree is concerned (the handle is a session).
`O_CREAT|O_EXCL` on an existing name is `EEXIST` whatever it is; a directory is `EISDIR` (from the
kernel when opened for writing, from `FileIO`'s `fstat` check when opened read-only). -/
def open_ (t : Node) (cs : List Name) (fl : OFlags) : Sys Node :=
  if cs = [] then (if fl.creat && fl.excl then .error .EEXIST else .error .EISDIR)
  else match stat t cs.dropLast with
    | .error e => .error e
    | .ok (.file _) => .error .ENOTDIR
    | .ok (.dir es) =>
      match Ents.lookup (cs.getLast?.getD []) es with
      | some (.dir _) => if fl.creat && fl.excl then .error .EEXIST else .error .EISDIR
      | some (.file _) =>
        if fl.creat && fl.excl then .error .EEXIST
        else if fl.trunc then .ok (t.set cs (.file [])) else .ok t
      | none => if fl.creat then .ok (t.set cs (.file [])) else .error .ENOENT

/-- `utime(2)`: only the path is resolved (time stamps are outside the tree) -/
def utime (t : Node) (cs : List Name) : Sys Unit :=
  match stat t cs with
  | .error e => .error e
  | .ok _ => .ok ()

/-- `a` is a (non-strict) component prefix of `b` -/
def pathPrefix : List Name → List Name → Bool
  | [], _ => true
  | _ :: _, [] => false
  | a :: as, b :: bs => a == b && pathPrefix as bs

/-- the directory a (non-root) path lives in must resolve to a directory -/
def parentDir (t : Node) (cs : List Name) : Sys Unit :=
  if cs = [] then .ok ()
  else match stat t cs.dropLast with
    | .error e => .error e
    | .ok (.file _) => .error .ENOTDIR
    | .ok (.dir _) => .ok ()

/-- `rename(2)`, in Linux's order of checks (`do_renameat2`/`vfs_rename`): the parent of the
source, then the parent of the destination, are resolved; the source must exist; the same path is
a no-op; a directory cannot be moved below itself (`EINVAL`); an ancestor of the source is never
replaced (`ENOTEMPTY`); type clashes (`ENOTDIR`/`EISDIR`); a non-empty directory is never replaced. -/
def rename (t : Node) (a b : List Name) : Sys Node :=
  match parentDir t a with
  | .error e => .error e
  | .ok () =>
    match parentDir t b with
    | .error e => .error e
    | .ok () =>
      match stat t a with
      | .error e => .error e
      | .ok n =>
        if a = b then .ok t
        else if pathPrefix a b then .error .EINVAL
        else if pathPrefix b a then .error .ENOTEMPTY
        else match stat t b with
          | .error _ => .ok ((t.set b n).del a)
          | .ok (.file _) => if n.isDir then .error .ENOTDIR else .ok ((t.set b n).del a)
          | .ok (.dir es) =>
            if !n.isDir then .error .EISDIR
            else if es.isEmpty then .ok ((t.set b n).del a) else .error .ENOTEMPTY

/-- `shutil.copy2(src, dst)` (data + metadata; metadata is outside the tree): a directory as
destination means "into it, under the source's name"; the same file is `SameFileError` (an `OSError`
without errno, here `other 0`). -/
def copy2 (t : Node) (a b : List Name) : Sys Node :=
  let target := if pathIsdir t b then b ++ [a.getLast?.getD []] else b
  if a = target && pathExists t a then .error (.other 0)     -- `_samefile(src, dst)` comes first
  else match stat t a with
  | .error e => .error e
  | .ok (.dir _) => .error .EISDIR
  | .ok (.file data) =>
    match open_ t target ⟨false, true, true, false, true, false⟩ with
      | .error e => .error e
      | .ok t1 => .ok (t1.set target (.file data))

/-! ### `OSFS._remove_contents`, on the subtree it works on

`_remove_contents(dir)` lists `dir`, and for every name either recurses + `rmdir`s (a real
directory) or `remove`s it.  It only ever touches paths below `dir`, so it is modelled on the node
at `dir`: `ok ()` = every entry was removed and the directory is now empty. -/
mutual
def removeContents : Node → Sys Unit
  | .file _ => .error .ENOTDIR              -- `os.listdir(<regular file>)`
  | .dir es => removeEnts es
def removeEnts : Ents → Sys Unit
  | [] => .ok ()
  | (_, v) :: es =>
    match v.isDir, removeContents v with
    | true, .error e => .error e            -- isdir and not islink: recurse (then `os.rmdir(child)`)
    | true, .ok () => removeEnts es
    | false, _ => removeEnts es             -- `os.remove(child)`
end

end Fs.Posix
