/-
  FsModel.Basic — shared vocabulary of the executable model.

  Strings are `List Char` (`Str`) so theorems quantify over every sequence of Unicode
  scalar values; bytes are `List UInt8`.  Nothing here imports Mathlib: the driver
  executable links against these modules.
-/

namespace Fs

abbrev Str := List Char
abbrev Bytes := List UInt8

/-- The `fs.errors` classes (plus the documented Python exceptions) the model can return. -/
inductive Err where
  | ResourceNotFound | FileExpected | DirectoryExpected | DirectoryExists | FileExists
  | DestinationExists | DirectoryNotEmpty | RemoveRootError | IllegalDestination
  | IllegalBackReference | InvalidCharsInPath | ResourceReadOnly | FilesystemClosed
  | Unsupported | NoSysPath | NoURL | ParseError | BulkCopyFailed | OperationFailed
  | ValueError | TypeError | IndexError | UnsupportedOperation
  | Leak   -- an exception class outside fs.errors / the documented Python ones
  deriving DecidableEq, Repr, Inhabited

def Err.name : Err → String
  | .ResourceNotFound => "ResourceNotFound" | .FileExpected => "FileExpected"
  | .DirectoryExpected => "DirectoryExpected" | .DirectoryExists => "DirectoryExists"
  | .FileExists => "FileExists" | .DestinationExists => "DestinationExists"
  | .DirectoryNotEmpty => "DirectoryNotEmpty" | .RemoveRootError => "RemoveRootError"
  | .IllegalDestination => "IllegalDestination" | .IllegalBackReference => "IllegalBackReference"
  | .InvalidCharsInPath => "InvalidCharsInPath" | .ResourceReadOnly => "ResourceReadOnly"
  | .FilesystemClosed => "FilesystemClosed" | .Unsupported => "Unsupported"
  | .NoSysPath => "NoSysPath" | .NoURL => "NoURL" | .ParseError => "ParseError"
  | .BulkCopyFailed => "BulkCopyFailed" | .OperationFailed => "OperationFailed"
  | .ValueError => "ValueError" | .TypeError => "TypeError" | .IndexError => "IndexError"
  | .UnsupportedOperation => "UnsupportedOperation" | .Leak => "Leak"

/-- Result of a model call: a value or an error class. -/
inductive Res (α : Type) where
  | ok : α → Res α
  | err : Err → Res α
  deriving Repr

instance [DecidableEq α] : DecidableEq (Res α) := fun a b =>
  match a, b with
  | .ok x, .ok y => if h : x = y then isTrue (by rw [h]) else isFalse (by intro h'; cases h'; exact h rfl)
  | .err x, .err y => if h : x = y then isTrue (by rw [h]) else isFalse (by intro h'; cases h'; exact h rfl)
  | .ok _, .err _ => isFalse (by intro h; cases h)
  | .err _, .ok _ => isFalse (by intro h; cases h)

namespace Res
def isOk : Res α → Bool | ok _ => true | err _ => false
def bind (r : Res α) (f : α → Res β) : Res β :=
  match r with | ok a => f a | err e => err e
def map (f : α → β) : Res α → Res β | ok a => ok (f a) | err e => err e
instance : Monad Res where
  pure := ok
  bind := bind
end Res

/-! ### Hex codec for the line protocol (driver side only; no theorem depends on it). -/

def hexDigit (n : Nat) : Char :=
  if n < 10 then Char.ofNat (48 + n) else Char.ofNat (87 + n)

def hexVal (c : Char) : Option Nat :=
  if '0' ≤ c ∧ c ≤ '9' then some (c.toNat - 48)
  else if 'a' ≤ c ∧ c ≤ 'f' then some (c.toNat - 87)
  else if 'A' ≤ c ∧ c ≤ 'F' then some (c.toNat - 55)
  else none

def bytesToHex (bs : List UInt8) : String :=
  if bs.isEmpty then "-" else
  String.ofList (bs.flatMap fun b => [hexDigit (b.toNat / 16), hexDigit (b.toNat % 16)])

partial def hexToBytesAux : List Char → List UInt8 → Option (List UInt8)
  | [], acc => some acc.reverse
  | [_], _ => none
  | a :: b :: rest, acc =>
    match hexVal a, hexVal b with
    | some x, some y => hexToBytesAux rest (UInt8.ofNat (x * 16 + y) :: acc)
    | _, _ => none

def hexToBytes (s : String) : Option (List UInt8) :=
  if s == "-" then some [] else hexToBytesAux s.toList []

def strToHex (s : Str) : String := bytesToHex (String.ofList s).toUTF8.toList

def hexToStr (s : String) : Option Str := do
  let bs ← hexToBytes s
  let str ← String.fromUTF8? (ByteArray.mk bs.toArray)
  pure str.toList

def boolStr (b : Bool) : String := if b then "1" else "0"

end Fs
