import FsModel.Path
import FsModel.PathSpec
import FsModel.Proto

namespace Fs.PathDriver
open Fs Fs.Path Fs.Proto

def pairStr (p : Str × Str) : String := "P" ++ str p.1 ++ "," ++ str p.2

def handle (cmd : String) (args : List String) : Option String :=
  match cmd with
  | "path.normpath" => do let p ← arg args 0; some (res str (normpath p))
  | "path.specnorm" => do let p ← arg args 0; some (res str (PathSpec.specNorm p))
  | "path.reqnorm" => do let p ← arg args 0; some ("ok " ++ bool (requiresNormalization p))
  | "path.iteratepath" => do let p ← arg args 0; some (res strList (iteratepath p))
  | "path.recursepath" => do
      let p ← arg args 0; let r ← args[1]?
      some (res strList (recursepath p (r == "1")))
  | "path.isabs" => do let p ← arg args 0; some ("ok " ++ bool (isabs p))
  | "path.abspath" => do let p ← arg args 0; some ("ok " ++ str (abspath p))
  | "path.relpath" => do let p ← arg args 0; some ("ok " ++ str (relpath p))
  | "path.join" => do let l ← argList args 0; some (res str (join l))
  | "path.combine" => do let a ← arg args 0; let b ← arg args 1; some ("ok " ++ str (combine a b))
  | "path.parts" => do let p ← arg args 0; some (res strList (parts p))
  | "path.split" => do let p ← arg args 0; some ("ok " ++ pairStr (split p))
  | "path.splitext" => do let p ← arg args 0; some (res pairStr (splitext p))
  | "path.isdotfile" => do let p ← arg args 0; some ("ok " ++ bool (isdotfile p))
  | "path.dirname" => do let p ← arg args 0; some ("ok " ++ str (dirname p))
  | "path.basename" => do let p ← arg args 0; some ("ok " ++ str (basename p))
  | "path.issamedir" => do let a ← arg args 0; let b ← arg args 1; some (res bool (issamedir a b))
  | "path.isbase" => do let a ← arg args 0; let b ← arg args 1; some ("ok " ++ bool (isbase a b))
  | "path.isparent" => do let a ← arg args 0; let b ← arg args 1; some ("ok " ++ bool (isparent a b))
  | "path.forcedir" => do let p ← arg args 0; some ("ok " ++ str (forcedir p))
  | "path.frombase" => do let a ← arg args 0; let b ← arg args 1; some (res str (frombase a b))
  | "path.relativefrom" => do let a ← arg args 0; let b ← arg args 1; some (res str (relativefrom a b))
  | "path.iswildcard" => do let p ← arg args 0; some ("ok " ++ bool (iswildcard p))
  | _ => none

end Fs.PathDriver
