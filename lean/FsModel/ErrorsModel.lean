/-
  ErrorsModel — what a class statement of `fs/errors.py` says (the rows of the GENERATED
  `FsModel/Generated/ErrorsTable.lean`, written by harness/extract/errorstable.py) and what follows from it for an
  instance: its linearisation, the attributes its constructor chain sets, the message template `__str__` formats
  with them, the constructor call `__reduce__` asks `pickle` to make.  Also the HAND side: the ancestors the model
  (`Fs.Err`, FsModel/Basic.lean) assumes for every class it can report.  FsProofs/ErrorsTableLaws.lean proves the
  two agree on the table regenerated on every run.
-/
import FsModel.Basic

namespace Fs.ErrorsModel
open Fs

/-- one class statement, as written (see the docstring of the extractor) -/
structure ErrClass where
  name : String
  file : String
  bases : List String
  /-- `default_message = "<literal>"` in the class body -/
  defaultMessage : Option String
  /-- parameters of its own `__init__` without `self` (`none` = inherited) -/
  init : Option (List String)
  /-- how many of them have no default -/
  required : Nat
  /-- `self.<x> = …` in its own `__init__` -/
  sets : List String
  /-- the class `C` written in `super(C, self).__init__(…)` in its own `__init__` -/
  superInit : Option String
  /-- own `__reduce__`: `return type(self), (self.a, self.b, …)` -/
  reduce : Option (List String)
  definesStr : Bool
  definesRepr : Bool
  /-- own `_format_msg`: the attribute formatted with `**self.__dict__` -/
  formats : Option String
  /-- what the extractor did not understand -/
  unknown : List String
  deriving Repr, DecidableEq

abbrev Table := List ErrClass

def find (t : Table) (n : String) : Option ErrClass := t.find? (fun c => c.name == n)

/-- the builtin exceptions the classes derive from, with their own ancestors below `BaseException` -/
def builtins : List (String × List String) :=
  [("Exception", []), ("ValueError", ["Exception"]), ("AttributeError", ["Exception"])]

/-- the class, its base, the base of that, … (single inheritance); ends with the first name that is not a row -/
def chain (t : Table) : Nat → String → List String
  | 0, _ => []
  | fuel + 1, n =>
    match find t n with
    | none => [n]
    | some c =>
      match c.bases with
      | [b] => n :: chain t fuel b
      | _ => [n]

/-- `[c.__name__ for c in cls.__mro__]` without `BaseException` and `object` -/
def mro (t : Table) (n : String) : List String :=
  let ch := chain t (t.length + 1) n
  match ch.getLast? with
  | none => ch
  | some l =>
    match builtins.lookup l with
    | some up => ch ++ up
    | none => ch

/-- attribute lookup on the class: the first class of the linearisation that defines it -/
def inherited {α : Type} (t : Table) (n : String) (f : ErrClass → Option α) : Option α :=
  (mro t n).findSome? (fun m => (find t m).bind f)

/-- the class whose `__init__` runs for `n(…)`; `none` = a builtin's -/
def initOwner (t : Table) (n : String) : Option ErrClass :=
  inherited t n (fun c => if c.init.isSome then some c else none)

/-- where `super(w, self).__init__` continues: the class after `w` in the linearisation -/
def nextAfter (t : Table) (w : String) : Option String :=
  match find t w with
  | some c => (match c.bases with | [b] => some b | _ => none)
  | none => (match builtins.lookup w with | some (b :: _) => some b | _ => none)

/-- the instance attributes set while `__init__`, looked up from class `start`, runs (a builtin's sets none:
`args` is a slot) -/
def fieldsFrom (t : Table) : Nat → String → List String
  | 0, _ => []
  | fuel + 1, start =>
    match initOwner t start with
    | none => []
    | some c =>
      c.sets ++ (match c.superInit with
        | none => []
        | some w =>
          match nextAfter t w with
          | some b => fieldsFrom t fuel b
          | none => [])

/-- `vars(n(…)).keys()` -/
def fieldsOf (t : Table) (n : String) : List String := fieldsFrom t (t.length + 1) n

/-- the constructor's parameters / how many are required -/
def initOf (t : Table) (n : String) : Option (List String) := (initOwner t n).bind (·.init)
def requiredOf (t : Table) (n : String) : Nat := match initOwner t n with | some c => c.required | none => 0

/-- `cls.default_message` -/
def templateOf (t : Table) (n : String) : Option String := inherited t n (·.defaultMessage)

/-- the attribute `__str__` formats (`self._msg.format(**self.__dict__)`), when `__str__` is one of the table's -/
def formatsOf (t : Table) (n : String) : Option String := inherited t n (·.formats)

def reduceOf (t : Table) (n : String) : Option (List String) := inherited t n (·.reduce)

/-- a replacement field `{name!r:>10}` / `{name.attr}` / `{name[0]}`: the part that is looked up in `__dict__` -/
def fieldName (cs : List Char) : List Char :=
  cs.takeWhile (fun c => c != '!' && c != ':' && c != '.' && c != '[')

/-- scanner state: in literal text / just after a `{` / just after a `}` / inside a replacement field -/
inductive Scan where
  | text | afterOpen | afterClose
  | field (f : List Char)

/-- the replacement fields of a `str.format` template (`{{` and `}}` are literal braces) -/
def placeholdersGo : List Char → Scan → List (List Char) → List (List Char)
  | [], _, acc => acc.reverse
  | c :: r, .field f, acc =>
    if c == '}' then placeholdersGo r .text (fieldName f.reverse :: acc) else placeholdersGo r (.field (c :: f)) acc
  | c :: r, .afterOpen, acc =>
    if c == '{' then placeholdersGo r .text acc
    else if c == '}' then placeholdersGo r .text ([] :: acc)
    else placeholdersGo r (.field [c]) acc
  | c :: r, .afterClose, acc =>
    if c == '{' then placeholdersGo r .afterOpen acc else placeholdersGo r .text acc
  | c :: r, .text, acc =>
    if c == '{' then placeholdersGo r .afterOpen acc
    else if c == '}' then placeholdersGo r .afterClose acc
    else placeholdersGo r .text acc

def placeholders (s : String) : List String := (placeholdersGo s.toList .text []).map String.ofList

/-- `pickle.loads(pickle.dumps(e))` calls the class again.  With an own/inherited `__reduce__` returning
`type(self), (self.a, …)`: the attributes must exist and be the constructor's parameters in order (`_msg` is what
the parameter `msg` was stored as).  Without one, `Exception.__reduce__` calls `cls(*self.args)` and the table's
constructors pass nothing on to `Exception.__init__`, so nothing may be required. -/
def pickleSound (t : Table) (n : String) : Bool :=
  match reduceOf t n with
  | some r =>
    r.all (fun a => (fieldsOf t n).contains a) &&
      initOf t n == some (r.map (fun a => if a == "_msg" then "msg" else a))
  | none => requiredOf t n == 0

/-! ### the hand side: what the model assumes -/

/-- the ancestors (below `BaseException`) the model assumes for each class it reports; `[]` = not a class of
`fs/errors.py` / `fs/opener/errors.py` (`TypeError`, `IndexError`, `io.UnsupportedOperation`, a leak) -/
def pyAncestors : Err → List String
  | .ResourceNotFound | .DirectoryExists | .FileExists | .DestinationExists | .DirectoryNotEmpty
  | .ResourceReadOnly => ["ResourceError", "FSError", "Exception"]
  | .FileExpected | .DirectoryExpected => ["ResourceInvalid", "ResourceError", "FSError", "Exception"]
  | .RemoveRootError | .IllegalDestination | .Unsupported => ["OperationFailed", "FSError", "Exception"]
  | .OperationFailed | .FilesystemClosed | .BulkCopyFailed => ["FSError", "Exception"]
  | .InvalidCharsInPath => ["InvalidPath", "PathError", "FSError", "Exception"]
  | .NoSysPath | .NoURL => ["PathError", "FSError", "Exception"]
  | .IllegalBackReference | .ParseError => ["ValueError", "Exception"]
  | .ValueError | .TypeError | .IndexError | .UnsupportedOperation | .Leak => []

/-- the classes of the table the model reports -/
def modelled : List Err :=
  [.ResourceNotFound, .FileExpected, .DirectoryExpected, .DirectoryExists, .FileExists, .DestinationExists,
   .DirectoryNotEmpty, .RemoveRootError, .IllegalDestination, .IllegalBackReference, .InvalidCharsInPath,
   .ResourceReadOnly, .FilesystemClosed, .Unsupported, .NoSysPath, .NoURL, .ParseError, .BulkCopyFailed,
   .OperationFailed]

/-- classes of `fs/errors.py` that `except FSError` does not catch (by design: they are not filesystem failures) -/
def outsideFSError : List String := ["MissingInfoNamespace", "IllegalBackReference", "UnsupportedHash", "PatternError"]

/-- the two recorded constructor/`__reduce__` mismatches of the pinned tree (`BulkCopyFailed` has a required
parameter and no `__reduce__`; `PatternError.__reduce__` reads `self.path` / `self._msg`, which nothing sets) -/
def pickleRecorded : List String := ["BulkCopyFailed", "PatternError"]

end Fs.ErrorsModel
