/-
  FsModel.CopyDriver — line protocol for the copy / mirror model.

  trees:   `T` then `;`-separated entries, parents first:
           `D<hexpath>`  |  `F<hexpath>:<hexbytes>:<mtime|->`      (`-` = no time reported)
  walker:  five arguments `<filter> <exclude> <filter_dirs> <exclude_dirs> <max_depth>`;
           a pattern list is `N` (None) or `L<hex>,<hex>…`; `max_depth` is a number or `-`.
           Patterns are the `*` / `?` / literal subset of fs.wildcard (case-sensitive); an
           empty list matches every name, as `wildcard.get_matcher` does.

  copy.necessary <cond> <src mtime|-|x> <dst exists 0|1> <dst mtime|->      → ok 0|1 / err E
  copy.fileif    <src> <sp> <dst> <dp> <cond> <preserve> <now> <srcTimes> <dstTimes>
                                                                          → ok <tree> | 0|1 / err E
  copy.dirif     <src> <dst> <cond> <preserve> <walker×5> <sroot> <droot> <now> <dstTimes>
                                                                          → ok <tree> | <copied> / err E
  copy.mirror    <src> <dst> <copy_if_newer> <preserve> <walker×5> <now> <dstTimes>
                                                                          → <tree> | <copied>
-/
import FsModel.Copy
import FsModel.Proto

namespace Fs.CopyDriver
open Fs Fs.Copy Fs.Proto

def timeStr : Option Int → String
  | none => "-"
  | some t => toString t

def parseTime (s : String) : Option (Option Int) :=
  if s == "-" then some none else s.toInt?.map some

mutual
partial def dumpNode (pre : List Name) : CNode → List String
  | .file _ _ => []
  | .dir es => dumpEnts pre es
partial def dumpEnts (pre : List Name) : CEnts → List String
  | [] => []
  | (k, v) :: es =>
    let p := pre ++ [k]
    (match v with
     | .file b m => ["F" ++ strToHex (Path.joinSlash p) ++ ":" ++ bytesToHex b ++ ":" ++ timeStr m]
     | .dir _ => ("D" ++ strToHex (Path.joinSlash p)) :: dumpNode p v)
    ++ dumpEnts pre es
end

def dumpTree (t : CNode) : String := "T" ++ ";".intercalate (dumpNode [] t)

def loadTree (s : String) : Option CNode := do
  if !s.startsWith "T" then none
  let body := (s.drop 1).toString
  if body.isEmpty then return .dir []
  let mut t : CNode := .dir []
  for e in body.splitOn ";" do
    if e.startsWith "D" then
      let p ← hexToStr (e.drop 1).toString
      t := t.set (Path.splitSlash p) (.dir [])
    else if e.startsWith "F" then
      match (e.drop 1).toString.splitOn ":" with
      | [ph, bh, th] =>
        let p ← hexToStr ph
        let b ← hexToBytes bh
        let m ← parseTime th
        t := t.set (Path.splitSlash p) (.file b m)
      | _ => none
    else none
  return t

def comps (p : Str) : List Name := (Path.splitSlash p).filter (· ≠ [])

/-- `*` / `?` / literal wildcard match -/
def wild : Str → Str → Bool
  | [], [] => true
  | [], _ :: _ => false
  | '*' :: ps, [] => wild ps []
  | '*' :: ps, c :: cs => wild ps (c :: cs) || wild ('*' :: ps) cs
  | '?' :: _, [] => false
  | '?' :: ps, _ :: cs => wild ps cs
  | _ :: _, [] => false
  | p :: ps, c :: cs => p == c && wild ps cs
termination_by p s => (s.length, p.length)

def parsePats (s : String) : Option (Option (List Str)) :=
  if s == "N" then some none
  else if s.startsWith "L" then
    let body := (s.drop 1).toString
    if body.isEmpty then some (some []) else ((body.splitOn ",").mapM hexToStr).map some
  else none

/-- `fs.match(patterns, name)` for a non-None pattern list -/
def matchAny (pats : List Str) (name : Str) : Bool := pats.isEmpty || pats.any (wild · name)

def parseWalker (a : List String) : Option Walker := do
  let filter ← parsePats (← a[0]?)
  let exclude ← parsePats (← a[1]?)
  let filterDirs ← parsePats (← a[2]?)
  let excludeDirs ← parsePats (← a[3]?)
  let md ← a[4]?
  let maxDepth ← if md == "-" then some none else md.toNat?.map some
  let fileOk : List Name → Name → Bool := fun _ n =>
    !(match exclude with | some ps => matchAny ps n | none => false) &&
    (match filter with | some ps => matchAny ps n | none => true)
  let dirOk : List Name → Name → Bool := fun _ n =>
    !(match excludeDirs with | some ps => matchAny ps n | none => false) &&
    (match filterDirs with | some ps => matchAny ps n | none => true)
  pure { fileOk := fileOk, dirOk := dirOk, maxDepth := maxDepth }

def copiedStr (l : List (List Name)) : String := strList (l.map Path.joinSlash)

def handle (cmd : String) (args : List String) : Option String :=
  match cmd with
  | "copy.necessary" => do
    let cond ← arg args 0
    let sm ← args[1]?
    let s : Option (Option Int) ← if sm == "x" then some none else (parseTime sm).map some
    let ex ← args[2]?
    let dm ← parseTime (← args[3]?)
    let d : Option (Option Int) := if ex == "1" then some dm else none
    some (res boolStr (copyIsNecessary cond s d))
  | "copy.fileif" => do
    let src ← loadTree (← args[0]?)
    let sp ← arg args 1
    let dst ← loadTree (← args[2]?)
    let dp ← arg args 3
    let cond ← arg args 4
    let pt := (← args[5]?) == "1"
    let now ← (← args[6]?).toInt?
    let st := (← args[7]?) == "1"
    let dt := (← args[8]?) == "1"
    let e : Env := { now := now, dstTimes := dt }
    some (res (fun (r : CNode × Bool) => dumpTree r.1 ++ " | " ++ boolStr r.2)
      (copyFileIf e st src (comps sp) dst (comps dp) cond pt))
  | "copy.dirif" => do
    let src ← loadTree (← args[0]?)
    let dst ← loadTree (← args[1]?)
    let cond ← arg args 2
    let pt := (← args[3]?) == "1"
    let w ← parseWalker (args.drop 4)
    let sp ← arg args 9
    let dp ← arg args 10
    let now ← (← args[11]?).toInt?
    let dt := (← args[12]?) == "1"
    let e : Env := { now := now, dstTimes := dt }
    some (res (fun (r : CNode × List (List Name)) => dumpTree r.1 ++ " | " ++ copiedStr r.2)
      (copyDirIf e w src (comps sp) dst (comps dp) cond pt))
  | "copy.mirror" => do
    let src ← loadTree (← args[0]?)
    let dst ← loadTree (← args[1]?)
    let cin := (← args[2]?) == "1"
    let pt := (← args[3]?) == "1"
    let w ← parseWalker (args.drop 4)
    let now ← (← args[9]?).toInt?
    let dt := (← args[10]?) == "1"
    let e : Env := { now := now, dstTimes := dt }
    let o : MOpts := { copyIfNewer := cin, preserve := pt }
    match src, dst with
    | .dir es, .dir ds =>
      some (dumpTree (.dir (mirror e o w es ds)) ++ " | " ++ copiedStr (mirrorCopied e o w es ds))
    | _, _ => none
  | "copy.roundtrip" => do
    let t ← loadTree (← args[0]?)
    some (dumpTree t)
  | _ => none

end Fs.CopyDriver
