/-
  FsModel.Tree — the observable tree of a filesystem: names, resource types, file bytes.
  `get`/`alter` recurse on the *path* (a list of clean components), not on the node.
-/
import FsModel.Basic
import FsModel.Path
import FsModel.PathSpec

namespace Fs
open Fs.Path

abbrev Name := Str

inductive Node where
  | file (data : Bytes)
  | dir (ents : List (Name × Node))
  deriving Repr, Inhabited

abbrev Ents := List (Name × Node)

namespace Ents

def lookup (c : Name) : Ents → Option Node
  | [] => none
  | (k, v) :: es => if k = c then some v else lookup c es

def erase (c : Name) : Ents → Ents
  | [] => []
  | (k, v) :: es => if k = c then es else (k, v) :: erase c es

/-- replace in place when the name exists (keeps its position), else append at the end -/
def put (c : Name) (n : Node) : Ents → Ents
  | [] => [(c, n)]
  | (k, v) :: es => if k = c then (k, n) :: es else (k, v) :: put c n es

def names (es : Ents) : List Name := es.map (·.1)

end Ents

namespace Node

def isDir : Node → Bool | dir _ => true | file _ => false
def isFile : Node → Bool | file _ => true | dir _ => false

def entries : Node → Ents | dir es => es | file _ => []

/-- the node at a component path, if every step exists and every proper ancestor is a directory -/
def get : List Name → Node → Option Node
  | [], n => some n
  | c :: cs, dir es => match Ents.lookup c es with
    | some ch => get cs ch
    | none => none
  | _ :: _, file _ => none

/-- `t.set cs v`: put `v` at the component path `cs` of tree `t` (no change when the parent is missing or not a
directory, or when `cs = []`) -/
def set : List Name → Node → Node → Node
  | [], n, _ => n
  | [c], dir es, v => dir (Ents.put c v es)
  | c :: d :: cs, dir es, v => match Ents.lookup c es with
    | some ch => dir (Ents.put c (set (d :: cs) ch v) es)
    | none => dir es
  | _ :: _, file b, _ => file b

/-- delete the entry at path `cs` (no change when it does not exist or `cs = []`) -/
def del : List Name → Node → Node
  | [], n => n
  | [c], dir es => dir (Ents.erase c es)
  | c :: d :: cs, dir es => match Ents.lookup c es with
    | some ch => dir (Ents.put c (del (d :: cs) ch) es)
    | none => dir es
  | _ :: _, file b => file b

end Node

/-- a legal resource name -/
def cleanName (c : Name) : Bool :=
  c != [] && c != ['.'] && c != ['.', '.'] && !c.contains '/' && !c.contains '\x00'

mutual
/-- well-formedness: legal names, unique per directory, recursively -/
def Node.wf : Node → Bool
  | .file _ => true
  | .dir es => entsWf es
def entsWf : Ents → Bool
  | [] => true
  | (k, v) :: es => cleanName k && (Ents.lookup k es).isNone && v.wf && entsWf es
end

mutual
/-- all (path, node) pairs below a node, parents before children, in entry order -/
def Node.walk (pre : List Name) : Node → List (List Name × Node)
  | .file _ => []
  | .dir es => entsWalk pre es
def entsWalk (pre : List Name) : Ents → List (List Name × Node)
  | [] => []
  | (k, v) :: es => (pre ++ [k], v) :: (v.walk (pre ++ [k]) ++ entsWalk pre es)
end

mutual
def Node.count : Node → Nat
  | .file _ => 1
  | .dir es => 1 + entsCount es
def entsCount : Ents → Nat
  | [] => 0
  | (_, v) :: es => v.count + entsCount es
end

/-- canonical dump used by the correspondence: `D<hex name>` / `F<hex name>:<hex bytes>`
nested with parentheses, entries in tree order. -/
partial def Node.dump (name : Name) : Node → String
  | .file b => "F" ++ strToHex name ++ ":" ++ bytesToHex b
  | .dir es => "D" ++ strToHex name ++ "(" ++ ",".intercalate (es.map fun (k, v) => v.dump k) ++ ")"

end Fs
