/-
  FsModel.MultiFs — `MultiFS` **as coded** (fs/multifs.py + the fs/base.py, fs/copy.py, fs/move.py,
  fs/walk.py defaults it inherits), as a FUNCTOR over the step function of its layers.

  A layer is any `F : σ → Op → σ × Out` (`Ref.step`, `Mem.step`, a wrapper …; one `F` for all layers —
  heterogeneous stacks are a sum type).  The state of a MultiFS object is

      _filesystems   the list of layers in dict order: (name, priority, `_sort_index` at insertion, state)
      write_fs       the write layer, by its insertion index
      _sort_index, _closed, _auto_close

  `order` is `iterate_fs()` / `_fs_sequence`: descending `(priority, insertion index)`, i.e. priority
  descending, then latest added first.  It is *defined* through `Multi.sortDesc` (the C17 model), so the
  routing theorems of `FsProofs/C17` (`multi_iterate_order`, `multi_read_highest`, …) apply verbatim
  (`FsProofs/MultiRefines.multi_delegate_spec`).

  Every method is transcribed: which layer receives which call with which path, in which order, what
  happens to the result.  Layer calls are `Ref.Op`s:
    `fs.open(p, "rb")` + read = `readbytes`;  `upload` = `writebytes`;  `open(p, "ab")` + write = `appendbytes`;
    `open(p, "wb")` + close = `openbin p "wb"`;  `setinfo` (times) = `settimes`;
    `fs.validatepath(p)` fails exactly when `fs.exists(p)` fails (as in `Route.validateOp`);
    the `Info`s of `fs.scandir(p)` are `listdir p` + `getinfo (combine p name)` of the names not yet seen.
  Generators are the lists they yield; the walkers of `removetree` / `copy_dir` scan one directory at a time
  (the real walkers scan lazily entry by entry: no difference, because no method modifies the directory it is
  iterating other than by removing entries it has already been given).  The recursion of the walkers is
  bounded by `fuel` (directories visited); out of fuel = `Leak`.

  `overlay` (for `σ = Ref.State`): the tree the user sees — for each path the highest-priority layer
  that has it; directories merge, entries of the higher layer first (the order of `listdir`).

  No Mathlib import (the driver links this module).
-/
import FsModel.Ref
import FsModel.Multi
import FsModel.BaseWalk

namespace Fs.MultiFs
open Fs Fs.Path Fs.Ref

/- a layer filesystem (`FS σ`: one call = new state and outcome), `ScanInfo` and `normRes` are the ones of
`FsModel.BaseWalk`, whose walkers this file instantiates -/
export Fs.BaseWalk (FS ScanInfo normRes)

structure Layer (σ : Type) where
  name : Str
  prio : Int
  idx : Nat
  st : σ

structure MState (σ : Type) where
  layers : List (Layer σ)
  writeIdx : Option Nat
  sortIndex : Nat
  closed : Bool
  autoClose : Bool

section Config
variable {σ : Type}

/-- `MultiFS(auto_close=…)` -/
def init (autoClose : Bool) : MState σ :=
  { layers := [], writeIdx := none, sortIndex := 0, closed := false, autoClose := autoClose }

/-- `self._filesystems[name] = …`: replace in place when the name exists, else append -/
def dictSet (l : Layer σ) : List (Layer σ) → List (Layer σ)
  | [] => [l]
  | x :: xs => if x.name = l.name then l :: xs else x :: dictSet l xs

/-- `MultiFS.add_fs(name, fs, write, priority)` -/
def addFs (s : MState σ) (name : Str) (st : σ) (write : Bool) (prio : Int) : MState σ :=
  { s with
    layers := dictSet ⟨name, prio, s.sortIndex, st⟩ s.layers,
    sortIndex := s.sortIndex + 1,
    writeIdx := if write then some s.sortIndex else s.writeIdx }

/-- the C17 routing entries of the layers: member index = position in `_filesystems` -/
def entriesFrom (i : Nat) : List (Layer σ) → List Multi.Entry
  | [] => []
  | l :: ls => ⟨l.name, l.prio, l.idx, i⟩ :: entriesFrom (i + 1) ls

def entries (s : MState σ) : List Multi.Entry := entriesFrom 0 s.layers

/-- `iterate_fs()`: positions of the layers in descending `(priority, insertion index)` order -/
def order (s : MState σ) : List Nat := (Multi.sortDesc (entries s)).map (·.fs)

/-- position of the write layer (`write_fs`), if there is one -/
def writePos (s : MState σ) : Option Nat :=
  match s.writeIdx with
  | none => none
  | some w => s.layers.findIdx? (fun l => l.idx == w)

/-- one call on the layer at position `i` -/
def callLayer (F : FS σ) (s : MState σ) (i : Nat) (op : Op) : MState σ × Out :=
  match s.layers[i]? with
  | none => (s, .err .Leak)                      -- unreachable: positions come from `order` / `writePos`
  | some l =>
    let r := F l.st op
    ({ s with layers := s.layers.set i { l with st := r.1 } }, r.2)

end Config

section Methods
variable {σ : Type}

/-- `_delegate(path)`: the first layer, in `iterate_fs` order, whose `exists(path)` is true; an
exception raised by a layer's `exists` propagates -/
def delegateLoop (F : FS σ) (p : Str) : List Nat → MState σ → MState σ × Res (Option Nat)
  | [], s => (s, .ok none)
  | i :: is, s =>
    match callLayer F s i (.exists_ p) with
    | (s1, .ok (.bool true)) => (s1, .ok (some i))
    | (s1, .ok _) => delegateLoop F p is s1
    | (s1, .err e) => (s1, .err e)

def delegate (F : FS σ) (s : MState σ) (p : Str) : MState σ × Res (Option Nat) :=
  delegateLoop F p (order s) s

/-- `fs = self._delegate(path)`; `onNone` when there is none (`_delegate_required`: ResourceNotFound),
else the call on that layer -/
def onDelegate (F : FS σ) (s : MState σ) (p : Str) (op : Op) (onNone : Out := .err .ResourceNotFound) :
    MState σ × Out :=
  match delegate F s p with
  | (s1, .err e) => (s1, .err e)
  | (s1, .ok none) => (s1, onNone)
  | (s1, .ok (some i)) => callLayer F s1 i op

/-- `self._writable_required(path).<method>(…)`: ResourceReadOnly without a write layer -/
def onWrite (F : FS σ) (s : MState σ) (op : Op) : MState σ × Out :=
  match writePos s with
  | none => (s, .err .ResourceReadOnly)
  | some i => callLayer F s i op

/-- `MultiFS.getinfo`: `_delegate`, ResourceNotFound when none, then `fs.getinfo(abspath(normpath(path)))` -/
def getinfoM (F : FS σ) (s : MState σ) (p : Str) : MState σ × Out :=
  match delegate F s p with
  | (s1, .err e) => (s1, .err e)
  | (s1, .ok none) => (s1, .err .ResourceNotFound)
  | (s1, .ok (some i)) =>
    match normRes p with
    | .err e => (s1, .err e)
    | .ok q => callLayer F s1 i (.getinfo q)

/-- `FS.exists` (inherited): `try: self.getinfo(path) except ResourceNotFound: False else: True` -/
def existsM (F : FS σ) (s : MState σ) (p : Str) : MState σ × Out :=
  match getinfoM F s p with
  | (s1, .ok _) => (s1, .ok (.bool true))
  | (s1, .err .ResourceNotFound) => (s1, .ok (.bool false))
  | (s1, .err e) => (s1, .err e)

/-- the loop of `listdir`: every layer in `iterate_fs` order; ResourceNotFound is skipped;
DirectoryExpected (a file of that name) is re-raised while no layer has listed the path yet and skipped
afterwards; any other error propagates.  Result: (concatenated names, did any layer list the path) -/
def listLoop (F : FS σ) (p : Str) : List Nat → List Name → Bool → MState σ → MState σ × Res (List Name × Bool)
  | [], acc, ex, s => (s, .ok (acc, ex))
  | i :: is, acc, ex, s =>
    match callLayer F s i (.listdir p) with
    | (s1, .err .ResourceNotFound) => listLoop F p is acc ex s1
    | (s1, .err .DirectoryExpected) =>
      if ex then listLoop F p is acc ex s1 else (s1, .err .DirectoryExpected)
    | (s1, .err e) => (s1, .err e)
    | (s1, .ok (.names l)) => listLoop F p is (acc ++ l) true s1
    | (s1, .ok _) => listLoop F p is acc true s1

/-- `MultiFS.listdir`: the union, first occurrences kept (`list(OrderedDict.fromkeys(directory))`) -/
def listdirM (F : FS σ) (s : MState σ) (p : Str) : MState σ × Out :=
  match listLoop F p (order s) [] false s with
  | (s1, .err e) => (s1, .err e)
  | (s1, .ok (acc, true)) => (s1, .ok (.names (Multi.dedup acc)))
  | (s1, .ok (_, false)) => (s1, .err .ResourceNotFound)

/- what a scan yields for one entry (`ScanInfo`): name, `is_dir`, size — from the layer that listed it first -/

/-- the `Info`s one layer contributes to `_scandir`: the names not seen so far, each described by
that layer -/
def scanNames (F : FS σ) (i : Nat) (p : Str) :
    List Name → List Name → List ScanInfo → MState σ → MState σ × Res (List Name × List ScanInfo)
  | [], seen, acc, s => (s, .ok (seen, acc))
  | n :: ns, seen, acc, s =>
    if n ∈ seen then scanNames F i p ns seen acc s
    else
      match callLayer F s i (.getinfo (combine p n)) with
      | (s1, .ok (.info _ d sz)) => scanNames F i p ns (seen ++ [n]) (acc ++ [(n, d, sz)]) s1
      | (s1, .ok _) => (s1, .err .Leak)           -- unreachable: `getinfo` returns an Info
      | (s1, .err e) => (s1, .err e)

/-- the loop of `MultiFS._scandir`, fully consumed -/
def scanLoop (F : FS σ) (p : Str) :
    List Nat → List Name → List ScanInfo → Bool → MState σ → MState σ × Res (List ScanInfo × Bool)
  | [], _, acc, ex, s => (s, .ok (acc, ex))
  | i :: is, seen, acc, ex, s =>
    match callLayer F s i (.listdir p) with
    | (s1, .err .ResourceNotFound) => scanLoop F p is seen acc ex s1
    | (s1, .err .DirectoryExpected) =>
      if ex then scanLoop F p is seen acc ex s1 else (s1, .err .DirectoryExpected)
    | (s1, .err e) => (s1, .err e)
    | (s1, .ok (.names l)) =>
      (match scanNames F i p l seen acc s1 with
       | (s2, .err e) => (s2, .err e)
       | (s2, .ok (seen2, acc2)) => scanLoop F p is seen2 acc2 true s2)
    | (s1, .ok _) => scanLoop F p is seen acc true s1

/-- `MultiFS.scandir(path)`, fully consumed (no page) -/
def scanM (F : FS σ) (s : MState σ) (p : Str) : MState σ × Res (List ScanInfo) :=
  match scanLoop F p (order s) [] [] false s with
  | (s1, .err e) => (s1, .err e)
  | (s1, .ok (acc, true)) => (s1, .ok acc)
  | (s1, .ok (_, false)) => (s1, .err .ResourceNotFound)

/-- `FS.isempty` = `next(iter(self.scandir(path)), None) is None`: the generator is advanced only
until the first entry is yielded, so layers after the first non-empty one are never asked -/
def scanFirstLoop (F : FS σ) (p : Str) : List Nat → Bool → MState σ → MState σ × Out
  | [], ex, s => (s, if ex then .ok (.bool true) else .err .ResourceNotFound)
  | i :: is, ex, s =>
    match callLayer F s i (.listdir p) with
    | (s1, .err .ResourceNotFound) => scanFirstLoop F p is ex s1
    | (s1, .err .DirectoryExpected) =>
      if ex then scanFirstLoop F p is ex s1 else (s1, .err .DirectoryExpected)
    | (s1, .err e) => (s1, .err e)
    | (s1, .ok (.names (_ :: _))) => (s1, .ok (.bool false))
    | (s1, .ok _) => scanFirstLoop F p is true s1

def isemptyM (F : FS σ) (s : MState σ) (p : Str) : MState σ × Out :=
  scanFirstLoop F p (order s) false s

/-- `MultiFS.validatepath` after `check()`: `write_fs.validatepath(path)` when there is a write layer,
else the base-class check (MultiFS declares no invalid characters); then `abspath(normpath(path))` -/
def validateM (F : FS σ) (s : MState σ) (p : Str) : MState σ × Res Str :=
  match writePos s with
  | some i =>
    (match callLayer F s i (.exists_ p) with
     | (s1, .err e) => (s1, .err e)
     | (s1, .ok _) => (s1, normRes p))
  | none => (s, normRes p)

/-- `MultiFS.openbin` after `check()`: `check_writable(mode)` (= `Mode(mode).writing`; the constructor
validates the mode) decides between the write layer and the layer that has the path -/
def openbinM (F : FS σ) (s : MState σ) (p m : Str) : MState σ × Out :=
  if !Route.modeOk m then (s, .err .ValueError)
  else if Route.checkWritable m then onWrite F s (.openbin p m)
  else onDelegate F s p (.openbin p m)

/-- `FS.create` (inherited): `if not wipe and self.exists(path): return False`; `self.open(path, "wb")` -/
def createM (F : FS σ) (s : MState σ) (p : Str) (wipe : Bool) : MState σ × Out :=
  let proceed (t : MState σ) : MState σ × Out :=
    match onWrite F t (.openbin p ['w', 'b']) with
    | (t1, .ok _) => (t1, .ok (.bool true))
    | r => r
  if wipe then proceed s
  else match existsM F s p with
    | (s1, .ok (.bool false)) => proceed s1
    | (s1, .ok _) => (s1, .ok (.bool false))
    | r => r

/-- `FS.touch` (inherited): `if not self.create(path): self.setinfo(path, {times})` -/
def touchM (F : FS σ) (s : MState σ) (p : Str) : MState σ × Out :=
  match createM F s p false with
  | (s1, .ok (.bool false)) =>
    (match onWrite F s1 (.settimes p) with
     | (s2, .ok _) => (s2, .ok .unit)
     | r => r)
  | (s1, .ok _) => (s1, .ok .unit)
  | r => r

/-- the transfer of `FS.move` / `FS.copy`: `with self.open(src, "rb") as f: self.upload(dst, f)` — read
through the layer that has `src`, write to the write layer -/
def transferM (F : FS σ) (s : MState σ) (ns nd : Str) : MState σ × Out :=
  match onDelegate F s ns (.readbytes ns) with
  | (s1, .ok (.bytes data)) => onWrite F s1 (.writebytes nd data)
  | (s1, .ok _) => (s1, .err .Leak)              -- unreachable: `readbytes` returns bytes
  | r => r

/-- the end of `FS.move`: the transfer, then `self.remove(src)` — on the layer that has the source -/
def moveFinish (F : FS σ) (t : MState σ) (ns nd : Str) : MState σ × Out :=
  match transferM F t ns nd with
  | (t2, .ok _) => onDelegate F t2 ns (.remove ns)
  | r => r

/-- `FS.move` after its destination check: `getinfo(src).is_dir` → FileExpected, the same-path exit,
the transfer and the removal -/
def moveBody (F : FS σ) (t : MState σ) (ns nd : Str) : MState σ × Out :=
  match getinfoM F t ns with
  | (t1, .ok (.info _ true _)) => (t1, .err .FileExpected)
  | (t1, .ok _) => if ns = nd then (t1, .ok .unit) else moveFinish F t1 ns nd
  | r => r

/-- `FS.move` (inherited; a MultiFS has no `supports_rename`: always copy + remove) -/
def moveM (F : FS σ) (s : MState σ) (a b : Str) (overwrite : Bool) : MState σ × Out :=
  match validateM F s a with
  | (s1, .err e) => (s1, .err e)
  | (s1, .ok ns) =>
    match validateM F s1 b with
    | (s2, .err e) => (s2, .err e)
    | (s2, .ok nd) =>
      if overwrite then moveBody F s2 ns nd
      else match existsM F s2 nd with
        | (s3, .ok (.bool false)) => moveBody F s3 ns nd
        | (s3, .ok _) => (s3, .err .DestinationExists)
        | r => r

/-- `FS.copy` (inherited) -/
def copyM (F : FS σ) (s : MState σ) (a b : Str) (overwrite : Bool) : MState σ × Out :=
  match validateM F s a with
  | (s1, .err e) => (s1, .err e)
  | (s1, .ok ns) =>
    match validateM F s1 b with
    | (s2, .err e) => (s2, .err e)
    | (s2, .ok nd) =>
      let body (t : MState σ) : MState σ × Out :=
        if ns = nd then (t, .err .IllegalDestination) else transferM F t ns nd
      if overwrite then body s2
      else match existsM F s2 nd with
        | (s3, .ok (.bool false)) => body s3
        | (s3, .ok _) => (s3, .err .DestinationExists)
        | r => r

/-! ### the walkers of `FS.removetree`, `FS.copydir`, `FS.movedir` (inherited): `FsModel.BaseWalk` over the
MultiFS's own methods -/

/-- the calls the base-class bulk algorithms make on a MultiFS object: `scandir` is `MultiFS.scandir`,
`makedir` / `makedirs` go to the WRITE layer, `remove` / `removedir` act on the layer that HAS the path,
`copy` is the inherited `FS.copy` (read through `_delegate`, write to the write layer) -/
def prim (F : FS σ) : BaseWalk.Prim (MState σ) where
  validatepath := validateM F
  exists_ := existsM F
  getinfo := getinfoM F
  scandir := scanM F
  makedir := fun s p => onWrite F s (.makedir p true)
  makedirs := fun s p => onWrite F s (.makedirs p true)
  copy := fun s a b => copyM F s a b true
  remove := fun s p => onDelegate F s p (.remove p)
  removedir := fun s p => onDelegate F s p (.removedir p)

/-- `FS.removetree(dir_path)` (inherited): `self.validatepath(dir_path)` comes first (since /repo 433aea4) —
`MultiFS.validatepath` starts with `self.check()` —, then the walk; the root itself is kept -/
def removetreeM (F : FS σ) (fuel : Nat) (s : MState σ) (p : Str) : MState σ × Out :=
  if s.closed then (s, .err .FilesystemClosed)
  else BaseWalk.removetree (prim F) fuel s p

/-- `copy_dir(fs, src_path, fs, dst_path)` -/
def copyDirM (F : FS σ) (fuel : Nat) (s : MState σ) (a b : Str) : MState σ × Out :=
  BaseWalk.copyDir (prim F) fuel s a b

/-- `FS.copydir` (inherited) -/
def copydirM (F : FS σ) (fuel : Nat) (s : MState σ) (a b : Str) (create : Bool) : MState σ × Out :=
  BaseWalk.copydir (prim F) fuel s a b create

/-- `FS.movedir` (inherited) → `move_dir(self, src_path, self, dst_path)` with the RAW arguments:
`getinfo(src).is_dir`, `makedir(dst, recreate=True)`, `copy_dir`, `removetree(src)` -/
def movedirM (F : FS σ) (fuel : Nat) (s : MState σ) (a b : Str) (create : Bool) : MState σ × Out :=
  BaseWalk.movedir (prim F) (removetreeM F fuel) fuel s a b create

/-! ### `close` -/

/-- `for _order, fs in self._filesystems.values(): fs.close()` (dict order; an exception propagates) -/
def closeLoop (F : FS σ) : List Nat → MState σ → MState σ × Out
  | [], s => (s, .ok .unit)
  | i :: is, s =>
    match callLayer F s i .close with
    | (s1, .ok _) => closeLoop F is s1
    | (s1, .err e) => (s1, .err e)

/-- `MultiFS.close()`: `_closed = True`; with `auto_close` every layer is closed and `_filesystems` is
cleared (so a second `close()` finds nothing to close: the guard `!s.closed`) -/
def closeM (F : FS σ) (s : MState σ) : MState σ × Out :=
  let s0 : MState σ := { s with closed := true }
  if s.autoClose && !s.closed then closeLoop F (List.range s.layers.length) s0
  else (s0, .ok .unit)

/-- one call on an OPEN MultiFS (everything after the first `self.check()`), `close` aside -/
def stepOpen (fuel : Nat) (F : FS σ) (s : MState σ) : Op → MState σ × Out
  | .close => closeM F s
  | .removetree p => removetreeM F fuel s p
  | .exists_ p => existsM F s p
  | .isdir p => onDelegate F s p (.isdir p) (.ok (.bool false))
  | .isfile p => onDelegate F s p (.isfile p) (.ok (.bool false))
  | .listdir p => listdirM F s p
  | .getsize p => onDelegate F s p (.getsize p)
  | .gettype p => onDelegate F s p (.gettype p)
  | .isempty p => isemptyM F s p
  | .getinfo p => getinfoM F s p
  | .readbytes p => onDelegate F s p (.readbytes p)
  | .makedir p r => onWrite F s (.makedir p r)
  | .makedirs p r => onWrite F s (.makedirs p r)
  | .writebytes p d => onWrite F s (.writebytes p d)
  | .appendbytes p d => onWrite F s (.appendbytes p d)     -- `self.open(path, "ab")`: a writing mode
  | .create p w => createM F s p w
  | .touch p => touchM F s p
  | .settimes p => onWrite F s (.settimes p)
  | .openbin p m => openbinM F s p m
  | .remove p => onDelegate F s p (.remove p)
  | .removedir p => onDelegate F s p (.removedir p)
  | .move a b o => moveM F s a b o
  | .copy a b o => copyM F s a b o
  | .movedir a b c => movedirM F fuel s a b c
  | .copydir a b c => copydirM F fuel s a b c

/-- One call on a MultiFS.  `fuel` bounds the number of directories the walkers of `removetree`,
`copydir`, `movedir` visit. -/
def step (fuel : Nat) (F : FS σ) (s : MState σ) (op : Op) : MState σ × Out :=
  match op with
  | .close => closeM F s
  | _ => if s.closed then (s, .err .FilesystemClosed) else stepOpen fuel F s op

end Methods

/-! ### the overlay: the tree the user sees (layers that are reference states) -/

mutual
/-- `hi` over what lies below it: a file shadows everything, a directory shadows a file and merges
with a directory -/
def overNode : Node → Option Node → Node
  | .file b, _ => .file b
  | .dir es, none => .dir es
  | .dir es, some (.file _) => .dir es
  | .dir es, some (.dir ds) => .dir (overEnts es ds)
/-- entries of the higher directory first (each over the lower entry of the same name), then the
remaining lower entries — the order of `MultiFS.listdir` -/
def overEnts : Ents → Ents → Ents
  | [], ds => ds
  | (k, v) :: es, ds => (k, overNode v (Ents.lookup k ds)) :: overEnts es (Ents.erase k ds)
end

/-- the overlay of a list of trees, highest priority first; `none` for the empty stack -/
def overlayRoots : List Node → Option Node
  | [] => none
  | r :: rs => some (overNode r (overlayRoots rs))

/-- the layer roots in `iterate_fs` order -/
def rootsInOrder (s : MState State) : List Node :=
  (order s).filterMap fun i => (s.layers[i]?).map (·.st.root)

/-- **the abstraction function**: the tree a user of the MultiFS sees (an empty stack shows no root at
all — `exists("/")` is `False` —; it is mapped to the empty directory) -/
def overlay (s : MState State) : State :=
  { root := (overlayRoots (rootsInOrder s)).getD (.dir []), closed := s.closed }

end Fs.MultiFs
