/-
  FsModel.PyStr — the Python primitives the source-to-Lean translator
  (`harness/extract/pathgen.py`) targets, over `Str = List Char`.

  Every Python construct of the supported subset is mapped, syntax-directed, to one of the
  definitions below; nothing here knows about paths or modes.  Wherever `FsModel.Path`
  already had the primitive it is re-used by `abbrev` (no second definition): `splitOn`,
  `joinWith`, `startsWith`, `rsplit1`, `requiresNormalization`.  The slash-specialised helpers of
  `FsModel.Path` (`lstripSlash`, `startsWithSlash`, …) are *not* used by generated code; the
  bridging lemmas (`pyLstrip ['/'] = lstripSlash`, …) are in `FsProofs/Lemmas/PyStrLemmas.lean`.

  Partial Python operations (`l[i]`, `l.pop()`, `a, b = l`) return `Res` with the Python exception
  class; loops are run by `pyFor` / `pyWhile` over a four-way outcome of the loop body (`Flow`).
  A `while` loop needs fuel (a termination hint of the translator, an expression evaluated at
  loop entry); running out of fuel is the error `Err.Leak`, so a wrong hint can never make a
  generated function *agree* with the hand model by accident.

  No Mathlib imports.
-/
import FsModel.Path

namespace Fs.PyStr
open Fs

/-! ### str methods -/

/-- `s.split(c)` for a one-character separator -/
abbrev pySplit (s : Str) (c : Char) : List Str := Path.splitOn c s

/-- `c.join(l)` for a one-character separator -/
abbrev pyJoin (c : Char) (l : List Str) : Str := Path.joinWith c l

/-- `s.startswith(t)` -/
abbrev pyStartsWith (s t : Str) : Bool := Path.startsWith s t

/-- `s.endswith(t)` -/
def pyEndsWith (s t : Str) : Bool := Path.startsWith s.reverse t.reverse

/-- `s.lstrip(chars)` -/
def pyLstrip (chars : List Char) : Str → Str
  | [] => []
  | c :: cs => if chars.contains c then pyLstrip chars cs else c :: cs

/-- `s.rstrip(chars)` -/
def pyRstrip (chars : List Char) (s : Str) : Str := (pyLstrip chars s.reverse).reverse

/-- `s.strip(chars)` -/
def pyStrip (chars : List Char) (s : Str) : Str := pyRstrip chars (pyLstrip chars s)

/-- `needle in hay` for two strings (substring test; `"" in s` is true) -/
def pyIn (needle : Str) : Str → Bool
  | [] => needle.isEmpty
  | c :: cs => Path.startsWith (c :: cs) needle || pyIn needle cs

/-- `s.rsplit(c, 1)`: a list of one or two strings -/
def pyRsplit1 (s : Str) (c : Char) : List Str :=
  match Path.rsplit1 c s with
  | none => [s]
  | some (h, t) => [h, t]

/-- `s.count(c)` for a one-character argument -/
def pyCount (s : Str) (c : Char) : Nat := s.count c

/-- index of the first `c` in `s`, counted from `i` -/
def findGo (c : Char) : Str → Nat → Option Nat
  | [], _ => none
  | x :: xs, i => if x = c then some i else findGo c xs (i + 1)

/-- Python's normalisation of a slice / search start against a length -/
def clampIdx (len : Nat) (i : Int) : Nat :=
  if i < 0 then (Int.ofNat len + i).toNat else min i.toNat len

/-- `s.find(c, start)` for a one-character needle: the index or `-1` -/
def pyFind (s : Str) (c : Char) (start : Int) : Int :=
  let st := clampIdx s.length start
  match findGo c (s.drop st) st with
  | none => -1
  | some i => Int.ofNat i

/-- `s.replace(c, t)` for a one-character pattern -/
def pyReplace (s : Str) (c : Char) (t : Str) : Str := s.flatMap fun x => if x = c then t else [x]

/-- iterating a string yields one-character strings -/
def pyChars (s : Str) : List Str := s.map fun c => [c]

/-- the known module-level regex `(^|/)\.\.?($|/)|//` used with `.search` (truthiness of the
match object).  The translator accepts exactly this pattern text. -/
abbrev reSearchRequiresNormalization (s : Str) : Bool := Path.requiresNormalization s

/-! ### sequences -/

/-- `s[:i]` -/
def pySliceTo (s : List α) (i : Int) : List α := s.take (clampIdx s.length i)

/-- `s[i:]` -/
def pySliceFrom (s : List α) (i : Int) : List α := s.drop (clampIdx s.length i)

/-- `l[i]`; `IndexError` outside the range (negative indices count from the end) -/
def pyIdx (l : List α) (i : Int) : Res α :=
  if i < 0 then
    (if i.natAbs ≤ l.length then
      match l[l.length - i.natAbs]? with
      | some x => .ok x
      | none => .err .IndexError
     else .err .IndexError)
  else
    match l[i.toNat]? with
    | some x => .ok x
    | none => .err .IndexError

/-- `s[i]` on a string: a one-character string -/
def pyStrIdx (s : Str) (i : Int) : Res Str :=
  match pyIdx s i with
  | .ok c => .ok [c]
  | .err e => .err e

/-- `l.pop()`: the shortened list and the removed element; `IndexError` on `[]` -/
def pyPop (l : List α) : Res (List α × α) :=
  match l.getLast? with
  | none => .err .IndexError
  | some x => .ok (l.dropLast, x)

/-- `a, b = l` for a list `l`; `ValueError` unless it has exactly two elements -/
def pyUnpack2 (l : List α) : Res (α × α) :=
  match l with
  | [a, b] => .ok (a, b)
  | _ => .err .ValueError

/-- `l * n` -/
def pyRepeat (l : List α) (n : Int) : List α := (List.replicate n.toNat l).flatten

/-- `a or b` on strings -/
def pyOr (a b : Str) : Str := if a.isEmpty then b else a

/-- `sum(<bool> for …)`: the number of true elements -/
def pySumBool (l : List Bool) : Nat := (l.filter id).length

/-! ### sets of characters (`frozenset("…")`, `set(s)`): only membership-style operations -/

/-- `frozenset(s)` / `set(s)`: the distinct characters, first occurrence order -/
def pySet (s : Str) : List Char := s.eraseDups

/-- `S.isdisjoint(s)` for a string `s` -/
def pyIsDisjoint (S : List Char) (s : Str) : Bool := !(s.any fun c => S.contains c)

/-- `S.issuperset(s)` for a string `s` -/
def pyIsSuperset (S : List Char) (s : Str) : Bool := s.all fun c => S.contains c

/-! ### control flow of loops -/

/-- outcome of one execution of a loop body -/
inductive Flow (σ ρ : Type) where
  | next (s : σ)      -- fell off the end / `continue`
  | brk (s : σ)       -- `break`
  | ret (r : ρ)       -- `return r`
  | exc (e : Err)     -- an exception left the body

/-- outcome of a whole loop -/
inductive LoopOut (σ ρ : Type) where
  | done (s : σ)
  | ret (r : ρ)
  | exc (e : Err)

/-- `for x in xs: body` with loop-carried state `s` -/
def pyFor {α σ ρ : Type} (xs : List α) (s : σ) (body : α → σ → Flow σ ρ) : LoopOut σ ρ :=
  match xs with
  | [] => .done s
  | x :: rest =>
    match body x s with
    | .next s' => pyFor rest s' body
    | .brk s' => .done s'
    | .ret r => .ret r
    | .exc e => .exc e

/-- `while …: body`; `step` evaluates the test and, when true, the body (`brk` when false).
`fuel` bounds the number of iterations; exhausting it is `Err.Leak`. -/
def pyWhile {σ ρ : Type} (fuel : Nat) (s : σ) (step : σ → Flow σ ρ) : LoopOut σ ρ :=
  match fuel with
  | 0 => .exc .Leak
  | n + 1 =>
    match step s with
    | .next s' => pyWhile n s' step
    | .brk s' => .done s'
    | .ret r => .ret r
    | .exc e => .exc e

/-! ### additions for fs/wildcard.py, fs/glob.py, fs/permissions.py, fs/tools.py -/

/-- `s[i:j]` (Python clamping of both bounds) -/
def pySlice (s : List α) (i j : Int) : List α :=
  (s.take (clampIdx s.length j)).drop (clampIdx s.length i)

/-- `sep.join(l)` for a separator of any length (also `""`) -/
def pyJoinS (sep : Str) : List Str → Str
  | [] => []
  | [a] => a
  | a :: b :: rest => a ++ sep ++ pyJoinS sep (b :: rest)

/-- the scan of `s.split(sep)`: `skip` characters of a separator just found are still to be dropped -/
def splitSGo (sep : Str) : Str → Nat → List Str
  | [], _ => [[]]
  | _ :: r, skip + 1 => splitSGo sep r skip
  | c :: r, 0 =>
    if !sep.isEmpty && Path.startsWith (c :: r) sep then [] :: splitSGo sep r (sep.length - 1)
    else
      match splitSGo sep r 0 with
      | h :: t => (c :: h) :: t
      | [] => [[c]]

/-- `s.split(sep)` for a non-empty separator of any length: leftmost, non-overlapping occurrences -/
def pySplitS (s : Str) (sep : Str) : List Str := splitSGo sep s 0

/-- `enumerate(l)` as a list of (index, element) -/
def pyEnumerate (l : List α) : List (Nat × α) := (List.range l.length).zip l

/-- `[f(x) for x in l]` when `f` can raise: left to right, the first exception wins -/
def pyMapM (l : List α) (f : α → Res β) : Res (List β) :=
  match l with
  | [] => .ok []
  | a :: as =>
    match f a with
    | .err e => .err e
    | .ok b =>
      match pyMapM as f with
      | .err e => .err e
      | .ok bs => .ok (b :: bs)

/-- `x or d` for an optional int `x` (`None` and `0` are both false) -/
def pyOrOptInt (x : Option Int) (d : Int) : Int :=
  match x with
  | some c => if c != 0 then c else d
  | none => d

/-- `fs.getmodified(path)` when everything the caller can learn about `path` on `fs` is given as a parameter:
`none` = the resource does not exist (`ResourceNotFound`), `some m` = it exists and its modification time is `m`
(`None` when the filesystem does not record one) -/
def pyFsGetModified (st : Option (Option Int)) : Res (Option Int) :=
  match st with
  | none => .err .ResourceNotFound
  | some m => .ok m

/-- Python's `a & b` on (unbounded, two's complement) ints.  `-(n+1)` is `~n`; with `x & ~y = x ^ (x & y)` on
naturals: -/
def pyBitAnd : Int → Int → Int
  | .ofNat a, .ofNat b => Int.ofNat (a &&& b)
  | .ofNat a, .negSucc b => Int.ofNat (a ^^^ (a &&& b))
  | .negSucc a, .ofNat b => Int.ofNat (b ^^^ (b &&& a))
  | .negSucc a, .negSucc b => Int.negSucc (a ||| b)

end Fs.PyStr
