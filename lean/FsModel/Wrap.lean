/-
  FsModel.Wrap — `WrapFS` and `SubFS` **as coded** (fs/wrapfs.py, fs/subfs.py,
  fs/error_tools.py `unwrap_errors`), as a functor over an arbitrary inner filesystem.

  An inner filesystem is any `F : σ → Op → σ × Out` (`Ref.step`, `Mem.step`, or another
  wrapper: the functor composes, which is how every nesting depth is covered).

  Every method of `WrapFS` has the same skeleton

      self.check()                                   -- the wrapper's OWN closed flag
      _fs, _path = self.delegate_path(path)          -- both paths for two-path methods
      with unwrap_errors(path): return _fs.method(_path, …)

  and is transcribed below method by method.  What is not a plain delegation:

  * `getinfo`     — the inner result, with `basic.name` replaced by `""` when
                    `abspath(normpath(path)) == "/"` (the root of a SubFS has no name);
  * `isempty`     — not overridden: `FS.isempty` = `next(iter(self.scandir(path)), None) is None`,
                    i.e. the *wrapper's* `scandir` (check, delegate, inner scandir);
  * `removedir`   — `abspath(normpath(path)) == "/"` ⇒ `RemoveRootError` *before* delegating;
  * `removetree`  — for the root: `for info in inner.scandir(_path)`: `inner.removetree` /
                    `inner.remove` of `join(_path, info.name)` (contents removed, the directory
                    itself kept); otherwise plain delegation;
  * `copy`        — `if not overwrite and inner.exists(_dst): raise DestinationExists`, then
                    `copy_file(inner, _src, inner, _dst)`;
  * `copydir`     — `if not create and not inner.exists(_dst): raise ResourceNotFound`,
                    `if not inner.getinfo(_src).is_dir: raise DirectoryExpected`, then
                    `copy_dir(inner, _src, inner, _dst)`;
  * `makedirs`, `setinfo` — delegation without `unwrap_errors` (no difference for classes);
  * `close`       — `FS.close`: only the wrapper's flag; `ClosingSubFS.close` closes the
                    parent first.

  Modelling decisions (validated by the exact correspondence `wrapm.step`, see WRAP.md):
  the module-level helpers applied to ONE filesystem are that filesystem's own method:
  `copy_file(fs, s, fs, d)` = `fs.validatepath` ×2, same-path test, `fs.copy(s, d, overwrite=True)`
  — all of which `fs.copy(…, overwrite=True)` repeats first thing — and `copy_dir(fs, s, fs, d)` =
  `fs.copydir(s, d, create=True)` on a directory source (`FS.copydir` is exactly
  `copy_dir` behind its three guards; `Mem.copydir` makes the same abstraction).  The `Info`
  objects of `scandir` are `listdir` followed by `getinfo` of each entry (MemoryFS builds
  them lazily, per name, exactly like that).  File handles are sessions, as in `Mem`.

  No Mathlib import (the driver links this module).
-/
import FsModel.Ref
import FsModel.Confine

namespace Fs.Wrap
open Fs Fs.Path Fs.Ref

/-- an inner filesystem: one call = new state and outcome -/
abbrev FS (σ : Type) := σ → Op → σ × Out

/-- `delegate_path` (the filesystem half of the pair is always `self._wrap_fs`) -/
abbrev Delegate := Str → Res Str

/-- `WrapFS.delegate_path`: `return self._wrap_fs, path` -/
def idDelegate : Delegate := fun p => .ok p

section Methods
variable {σ : Type}

/-- `abspath(normpath(path)) == "/"` (raises what `normpath` raises) -/
def isRootPath (p : Str) : Res Bool :=
  match normpath p with
  | .err e => .err e
  | .ok n => .ok (abspath n == ['/'])

/-- one-path method: `_fs, _path = self.delegate_path(path); return _fs.m(_path, …)` -/
def direct1 (dp : Delegate) (F : FS σ) (s : σ) (p : Str) (mk : Str → Op) : σ × Out :=
  match dp p with
  | .err e => (s, .err e)
  | .ok q => F s (mk q)

/-- two-path method (`move`, `movedir`): both paths are delegated, source first -/
def direct2 (dp : Delegate) (F : FS σ) (s : σ) (a b : Str) (mk : Str → Str → Op) : σ × Out :=
  match dp a with
  | .err e => (s, .err e)
  | .ok qa =>
    match dp b with
    | .err e => (s, .err e)
    | .ok qb => F s (mk qa qb)

/-- `WrapFS.getinfo` -/
def getinfo (dp : Delegate) (F : FS σ) (s : σ) (p : Str) : σ × Out :=
  match dp p with
  | .err e => (s, .err e)
  | .ok q =>
    match F s (.getinfo q) with
    | (s1, .ok (.info n d sz)) =>
      -- `if abspath(normpath(path)) == "/": raw_info["basic"]["name"] = ""`
      (match isRootPath p with
       | .err e => (s1, .err e)
       | .ok true => (s1, .ok (.info [] d sz))
       | .ok false => (s1, .ok (.info n d sz)))
    | r => r

/-- `FS.isempty` over `WrapFS.scandir` -/
def isempty (dp : Delegate) (F : FS σ) (s : σ) (p : Str) : σ × Out :=
  match dp p with
  | .err e => (s, .err e)
  | .ok q =>
    match F s (.listdir q) with
    | (s1, .ok (.names l)) => (s1, .ok (.bool l.isEmpty))
    | r => r

/-- `WrapFS.removedir` -/
def removedir (dp : Delegate) (F : FS σ) (s : σ) (p : Str) : σ × Out :=
  match isRootPath p with                     -- `_path = abspath(normpath(path))`
  | .err e => (s, .err e)
  | .ok true => (s, .err .RemoveRootError)    -- `if _path == "/": raise RemoveRootError()`
  | .ok false =>
    match dp p with
    | .err e => (s, .err e)
    | .ok q => F s (.removedir q)

/-- the loop of the root branch of `WrapFS.removetree`:
`for info in _fs.scandir(_path): p = join(_path, info.name); removetree(p) if info.is_dir else remove(p)` -/
def rmLoop (F : FS σ) (q : Str) : List Name → σ → σ × Out
  | [], s => (s, .ok .unit)
  | n :: ns, s =>
    match join [q, n] with
    | .err e => (s, .err e)
    | .ok ip =>
      match F s (.getinfo ip) with              -- the `Info` the scan yields for this name
      | (s1, .ok (.info _ true _)) =>
        (match F s1 (.removetree ip) with
         | (s2, .ok _) => rmLoop F q ns s2
         | r => r)
      | (s1, .ok (.info _ false _)) =>
        (match F s1 (.remove ip) with
         | (s2, .ok _) => rmLoop F q ns s2
         | r => r)
      | (s1, .ok _) => (s1, .err .Leak)         -- unreachable: `getinfo` returns an Info
      | r => r

/-- `WrapFS.removetree` -/
def removetree (dp : Delegate) (F : FS σ) (s : σ) (p : Str) : σ × Out :=
  match isRootPath p with                     -- `_path = abspath(normpath(dir_path))`
  | .err e => (s, .err e)
  | .ok root =>
    match dp p with
    | .err e => (s, .err e)
    | .ok q =>
      if root then
        -- contents removed, the directory itself kept
        match F s (.listdir q) with
        | (s1, .ok (.names l)) => rmLoop F q l s1
        | (s1, .ok _) => (s1, .err .Leak)
        | r => r
      else F s (.removetree q)

/-- `WrapFS.copy` -/
def copy (dp : Delegate) (F : FS σ) (s : σ) (a b : Str) (overwrite : Bool) : σ × Out :=
  match dp a with
  | .err e => (s, .err e)
  | .ok qa =>
    match dp b with
    | .err e => (s, .err e)
    | .ok qb =>
      -- `copy_file(src_fs, _src, dst_fs, _dst)` on one filesystem = `copy(…, overwrite=True)`
      let go (s1 : σ) : σ × Out := F s1 (.copy qa qb true)
      if overwrite then go s
      else match F s (.exists_ qb) with        -- `if not overwrite and dst_fs.exists(_dst_path)`
        | (s1, .ok (.bool false)) => go s1
        | (s1, .ok _) => (s1, .err .DestinationExists)
        | r => r

/-- the part of `WrapFS.copydir` after the destination guard:
`if not src_fs.getinfo(_src_path).is_dir: raise DirectoryExpected`, then
`copy_dir(src_fs, _src, dst_fs, _dst)`, which on one filesystem is `copydir(…, create=True)` -/
def copydirGo (F : FS σ) (qa qb : Str) (s1 : σ) : σ × Out :=
  match F s1 (.getinfo qa) with
  | (s2, .ok (.info _ true _)) => F s2 (.copydir qa qb true)
  | (s2, .ok _) => (s2, .err .DirectoryExpected)
  | r => r

/-- `WrapFS.copydir` -/
def copydir (dp : Delegate) (F : FS σ) (s : σ) (a b : Str) (create : Bool) : σ × Out :=
  match dp a with
  | .err e => (s, .err e)
  | .ok qa =>
    match dp b with
    | .err e => (s, .err e)
    | .ok qb =>
      if create then copydirGo F qa qb s
      else match F s (.exists_ qb) with        -- `if not create and not dst_fs.exists(_dst_path)`
        | (s1, .ok (.bool false)) => (s1, .err .ResourceNotFound)
        | (s1, .ok _) => copydirGo F qa qb s1
        | r => r

/-- `WrapFS.opendir` as far as its checks go: `if not self.getinfo(path).is_dir: raise
DirectoryExpected`; the SubFS it returns is `Sub` over *this* wrapper (nesting) -/
def opendirCheck (dp : Delegate) (F : FS σ) (s : σ) (p : Str) : σ × Out :=
  match getinfo dp F s p with
  | (s1, .ok (.info _ true _)) => (s1, .ok .unit)
  | (s1, .ok _) => (s1, .err .DirectoryExpected)
  | r => r

/-- One call on an OPEN wrapper (everything after `self.check()` passed).  `close` only sets the
wrapper's own flag (`FS.close`), which `step` below keeps; the inner state is not touched. -/
def stepOpen (dp : Delegate) (F : FS σ) (s : σ) : Op → σ × Out
  | .close => (s, .ok .unit)
  | .exists_ p => direct1 dp F s p .exists_
  | .isdir p => direct1 dp F s p .isdir
  | .isfile p => direct1 dp F s p .isfile
  | .listdir p => direct1 dp F s p .listdir
  | .getsize p => direct1 dp F s p .getsize
  | .gettype p => direct1 dp F s p .gettype
  | .isempty p => isempty dp F s p
  | .getinfo p => getinfo dp F s p
  | .readbytes p => direct1 dp F s p .readbytes
  | .makedir p r => direct1 dp F s p (.makedir · r)    -- returns the inner `makedir`'s SubFS
  | .makedirs p r => direct1 dp F s p (.makedirs · r)
  | .writebytes p d => direct1 dp F s p (.writebytes · d)
  | .appendbytes p d => direct1 dp F s p (.appendbytes · d)
  | .create p w => direct1 dp F s p (.create · w)
  | .touch p => direct1 dp F s p .touch
  | .settimes p => direct1 dp F s p .settimes
  | .openbin p m => direct1 dp F s p (.openbin · m)
  | .remove p => direct1 dp F s p .remove
  | .removedir p => removedir dp F s p
  | .removetree p => removetree dp F s p
  | .move a b o => direct2 dp F s a b (.move · · o)
  | .movedir a b c => direct2 dp F s a b (.movedir · · c)
  | .copy a b o => copy dp F s a b o
  | .copydir a b c => copydir dp F s a b c

end Methods

/-- the wrapper object: its own `_closed` flag next to the state of the wrapped filesystem -/
structure WState (σ : Type) where
  closed : Bool
  inner : σ
  deriving Repr

/-- One call on a wrapper.  `closing` = the class is `ClosingSubFS`
(`close`: `self.delegate_fs().close(); super().close()`). -/
def step {σ : Type} (closing : Bool) (dp : Delegate) (F : FS σ) (w : WState σ) (op : Op) :
    WState σ × Out :=
  match op with
  | .close =>
    if closing then
      match F w.inner .close with
      | (s1, .ok _) => ({ closed := true, inner := s1 }, .ok .unit)
      | (s1, .err e) => ({ w with inner := s1 }, .err e)
    else ({ w with closed := true }, .ok .unit)
  | _ =>
    if w.closed then (w, .err .FilesystemClosed)           -- `self.check()`
    else
      let r := stepOpen dp F w.inner op
      ({ w with inner := r.1 }, r.2)

/-! ### SubFS -/

namespace Sub

/-- `SubFS.delegate_path` (as repaired in /repo 6fe32c8):

    invalid_chars = self._wrap_fs.getmeta().get("invalid_path_chars")
    if invalid_chars and set(path).intersection(invalid_chars): raise errors.InvalidCharsInPath(path)
    _path = join(self._sub_dir, relpath(normpath(path)))

`invalid` is what the PARENT declares; the second line is `Confine.subDelegate`, whose confinement is
proved in `FsProofs/C03`.  (`getmeta()` of a parent that is itself a CLOSED wrapper raises
FilesystemClosed here rather than in the inner call: same class, not modelled separately.) -/
def delegateWith (invalid : List Char) (subDir : Str) : Delegate := fun p =>
  if p.any (fun c => invalid.contains c) then .err .InvalidCharsInPath
  else Confine.subDelegate subDir p

/-- over MemoryFS / OSFS (and over another SubFS of them): `invalid_path_chars = "\0"` -/
def delegate (subDir : Str) : Delegate := delegateWith ['\x00'] subDir

/-- an open `SubFS` whose `_sub_dir` is `subDir`, over `F` -/
def stepOpen {σ : Type} (subDir : Str) (F : FS σ) : FS σ := Wrap.stepOpen (delegate subDir) F

/-- `SubFS` (`closing = false`) / `ClosingSubFS` (`closing = true`) -/
def step {σ : Type} (closing : Bool) (subDir : Str) (F : FS σ) : FS (WState σ) :=
  Wrap.step closing (delegate subDir) F

/-- any nesting `fs.opendir(s₁).opendir(s₂)…` of open SubFS objects over `F`; the list is
outermost-first (`[sₙ, …, s₁]`, as in `Confine.nestedDelegate`) -/
def nest {σ : Type} (F : FS σ) : List Str → FS σ
  | [] => F
  | subDir :: parents => stepOpen subDir (nest F parents)

end Sub

/-! ### `unwrap_errors` (fs/error_tools.py)

`except errors.ResourceError as e: e.path = path_replace…; raise` — the *same* exception object
is re-raised with its `path` attribute rewritten; the class is untouched. -/

/-- an exception as far as `unwrap_errors` can see it: its class and its `path` attribute -/
structure PathErr where
  cls : Err
  path : Option Str
  deriving Repr

/-- the `path_replace` argument: one path, or a mapping wrapped path ↦ unwrapped path -/
inductive PathReplace where
  | one (p : Str)
  | map (m : List (Str × Str))

def lookupPath (m : List (Str × Str)) (k : Str) : Str :=
  match m.find? (fun e => e.1 == k) with
  | some e => e.2
  | none => k                                   -- `path_replace.get(e.path, e.path)`

/-- the body of the `except` clause (for exceptions that have a `path`) -/
def unwrapErrors (r : PathReplace) (e : PathErr) : PathErr :=
  match e.path with
  | none => e
  | some p =>
    match r with
    | .one q => { e with path := some q }
    | .map m => { e with path := some (lookupPath m p) }

end Fs.Wrap
