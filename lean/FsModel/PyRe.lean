/-
  FsModel.PyRe — what generated code (harness/extract/puregen.py) uses of Python's `re` module and of
  `str.lower`, in terms of the model of `re` that `FsModel/Regex.lean` already states (external, validated
  differentially by C14 on every run): `re.escape`, `re.compile(text[, re.IGNORECASE])`,
  `pattern.match(s)` (truth value of the match object).

  `re.error` has no constructor in `Fs.Err` (the enum of fs.errors classes + the documented Python ones);
  in generated code it travels as `Err.Leak` ("an exception class outside fs.errors"), and a text outside
  the modelled regex subset as `Err.Unsupported`.  `toTR` maps a `Res` of generated code back to the `TR`
  of the hand models `Fs.Wild` / `Fs.Glob`; every other error class (`IndexError` of a subscript, …)
  becomes `outside`, which no hand model ever returns from a translator — so an equality
  `toTR (Gen.f x) = Hand.f x` also says that those never happen.
-/
import FsModel.PyStr
import FsModel.Regex
import FsModel.Wild

namespace Fs.PyRe
open Fs Fs.Regex

/-- `re.escape(s)` (Python ≥ 3.7) -/
def pyReEscape (s : Str) : Str := s.flatMap Wild.reEscape

/-- `s.lower()` — ASCII model, the one `Fs.Wild.lowerStr` uses -/
abbrev pyLower (s : Str) : Str := Wild.lowerStr s

def errOfTErr : TErr → Err
  | .reError => .Leak
  | .valueError => .ValueError
  | .illegalBackReference => .IllegalBackReference
  | .outside => .Unsupported

/-- `re.compile(text, re.IGNORECASE if ic else 0)` -/
def pyReCompile (text : Str) (ic : Bool) : Res Regex :=
  match Regex.parse text ic with
  | .ok r => .ok r
  | .err e => .err (errOfTErr e)

/-- `pattern.match(s) is not None` -/
def pyReMatch (r : Regex) (s : Str) : Bool := r.matches s

def tErrOfErr : Err → TErr
  | .Leak => .reError
  | .ValueError => .valueError
  | .IllegalBackReference => .illegalBackReference
  | _ => .outside

/-- a result of generated code in the vocabulary of the hand models -/
def toTR : Res α → TR α
  | .ok a => .ok a
  | .err e => .err (tErrOfErr e)

end Fs.PyRe
