/-
  FsModel.ConfineDriver — line-protocol commands over FsModel.Confine (property C03).

    confine.validate <p> [<closed 0|1> <invalid-chars> <max-sys-len | -> <root>]
    confine.syspath  <L rootcomps> <p>      validate, then the OS components / the OS string
    confine.getsyspath <L rootcomps> <p>    OSFS.getsyspath(p) (public, normalises itself)
    confine.sub      <sub> <p>              SubFS(parent, sub).delegate_path(p)
    confine.subn     <L sub1,sub2,…> <p>    fs.opendir(sub1).opendir(sub2)… ; path reaching fs
    confine.subnc    <invalid> <L subs> <p>  the same as coded: the parent's invalid characters refused first
    confine.mountnc  <invalid> <L mounts> <p>  MountFS._delegate as coded: its invalid characters refused first
    confine.mount    <L mount paths> <p>    MountFS._delegate(p)
    confine.tarnames <L member names>       ReadTarFS._directory_entries keys + visible paths
    confine.zipnames <L member names>       ReadZipFS._directory
    confine.zipname  <L member names> <p>   ReadZipFS._path_to_zip_name(p)
-/
import FsModel.Confine
import FsModel.Proto

namespace Fs.ConfineDriver
open Fs Fs.Path Fs.Proto Fs.Confine

def vres (f : α → String) : Except VErr α → String
  | .ok a => "ok " ++ f a
  | .error e => "err " ++ e.name

def mkAbs (cs : List Str) : Str := '/' :: joinSlash cs

def zdirStr (d : ZDir) : String :=
  "Z" ++ ";".intercalate (d.map fun e => (if e.2 then "D" else "F") ++ str (joinSlash e.1))

def handle (cmd : String) (args : List String) : Option String :=
  match cmd with
  | "confine.validate" => do
      let p ← arg args 0
      match args[1]? with
      | none => some (vres str (validatepath {} p))
      | some closed => do
        let inv ← arg args 2
        let ms ← args[3]?
        let root ← arg args 4
        let cfg : Cfg := { closed := closed == "1", invalid := inv,
                           maxSys := if ms == "-" then none else ms.toNat?, root := root }
        some (vres str (validatepath cfg p))
  | "confine.syspath" => do
      let rc ← argList args 0
      let p ← arg args 1
      match validatepath {} p with
      | .error e => some ("err " ++ e.name)
      | .ok q => some ("ok " ++ str (sysPathStr (mkAbs rc) q) ++ " " ++ strList (sysPath rc q))
  | "confine.getsyspath" => do
      let rc ← argList args 0
      let p ← arg args 1
      some (res str (getsyspath (mkAbs rc) p))
  | "confine.sub" => do
      let sub ← arg args 0
      let p ← arg args 1
      some (res str (do let s ← subInit sub; subDelegate s p))
  | "confine.subn" => do
      let subs ← argList args 0
      let p ← arg args 1
      some (res str (do let ss ← subs.mapM subInit; nestedDelegate ss.reverse p))
  | "confine.subnc" => do
      let inv ← arg args 0
      let subs ← argList args 1
      let p ← arg args 2
      some (res str (do let ss ← subs.mapM subInit; nestedDelegateChk inv ss.reverse p))
  | "confine.mount" => do
      let ms ← argList args 0
      let p ← arg args 1
      some (res (fun (r : Option Nat × Str) =>
          (match r.1 with | none => "-" | some i => toString i) ++ " " ++ str r.2)
        (do let mps ← ms.mapM mountPoint; mountDelegate mps p))
  | "confine.mountnc" => do
      let inv ← arg args 0
      let ms ← argList args 1
      let p ← arg args 2
      some (res (fun (r : Option Nat × Str) =>
          (match r.1 with | none => "-" | some i => toString i) ++ " " ++ str r.2)
        (do let mps ← ms.mapM mountPoint; mountDelegateChk inv mps p))
  | "confine.tarnames" => do
      let names ← argList args 0
      some ("ok " ++ strList (tarKeys names) ++ " " ++ strList ((tarVisible names).map joinSlash))
  | "confine.zipnames" => do
      let names ← argList args 0
      let (d, e) := zipDirectory names []
      some ((match e with | none => "ok " | some e => "err:" ++ e.name ++ " ") ++ zdirStr d)
  | "confine.zipname" => do
      let names ← argList args 0
      let p ← arg args 1
      some (res str (zipName (zipDirectory names []).1 p))
  | _ => none

end Fs.ConfineDriver
